//! C17 — type-erased (dyn) forms behave exactly like the operators they wrap.
//! All 5 traits x 28 generated pointer flavours x 3 wrapped implementations;
//! for every argument and every grid word sequence the erased call must give
//! the same result, the same error text and the same draw signature.

use ec_core::test_results::Score;

pub type Res = TestResults<Score<i64>>;
pub type Ind = EcIndividual<u8, Res>;
pub type Pop = Vec<Ind>;
pub fn mk_pop(values: &[i64]) -> Pop {
    values.iter().map(|v| EcIndividual::new(0u8, TestResults::from(vec![*v]))).collect()
}
use ec_core::child_maker::{ChildMaker, DynChildMaker};
use ec_core::individual::ec::EcIndividual;
use ec_core::operator::mutator::{DynMutator, Mutator};
use ec_core::operator::recombinator::{DynRecombinator, Recombinator};
use ec_core::operator::selector::best::Best;
use ec_core::operator::selector::{DynSelector, Selector};
use ec_core::operator::{Composable, DynOperator, Operator};
use ec_core::test_results::TestResults;
use mcx::{explore, replay as replay_trace, Alphabet, Choice, ChoiceRng, Env, Run};
use rand::Rng;
use serde_json::{json, Value};
use std::cell::{Ref, RefCell, RefMut};
use std::collections::BTreeSet;
use std::rc::Rc;
use std::sync::Arc;

#[derive(Debug)]
pub struct ProbeError(pub String);

impl std::fmt::Display for ProbeError {
    fn fmt(&self, f: &mut std::fmt::Formatter<'_>) -> std::fmt::Result {
        write!(f, "probe failed: {}", self.0)
    }
}
impl std::error::Error for ProbeError {}

/// mode 0: draws nothing; mode 1: draws a data-dependent number of words; mode 2: fails for certain
/// arguments before drawing; mode 3: draws one word and fails if it is low ("unlucky draw": a
/// wrapper that retries, or calls twice, changes the result, the error and the draw trace);
/// mode 4: draws two words and fails if they are equal
#[derive(Clone, Copy, Debug)]
pub struct P(pub u8);
pub const MODES: u8 = 6;

thread_local! {
    /// number of calls that reached a wrapped implementation (an erased form must forward exactly once)
    static CALLS: std::cell::Cell<u64> = const { std::cell::Cell::new(0) };
}
fn called() {
    CALLS.with(|c| c.set(c.get() + 1));
}
fn take_calls() -> u64 {
    CALLS.with(|c| c.replace(0))
}
/// the draw-dependent failures shared by all five traits
fn unlucky<R: Rng + ?Sized>(mode: u8, rng: &mut R) -> Result<(), ProbeError> {
    match mode {
        3 => {
            let w = rng.random_range(0..2u8);
            if w == 0 {
                return Err(ProbeError("unlucky draw 0".into()));
            }
            Ok(())
        }
        4 => {
            let a = rng.random_range(0..2u8);
            let b = rng.random_range(0..2u8);
            if a == b {
                return Err(ProbeError(format!("equal draws {a} {b}")));
            }
            Ok(())
        }
        5 => {
            // one draw through each of the three RngCore entry points (an adapter that rebuilds one
            // from another changes the draw trace); fails on one combination
            let a = rng.next_u64();
            let mut b = [0u8; 3];
            rng.fill_bytes(&mut b);
            let c = rng.next_u32();
            if (a >> 63) == 1 && (c >> 31) == 1 && b[2] >= 0x80 {
                return Err(ProbeError("all three draws high".into()));
            }
            Ok(())
        }
        _ => Ok(()),
    }
}

impl Selector<Pop> for P {
    type Error = ProbeError;
    fn select<'pop, R: Rng + ?Sized>(&self, pop: &'pop Pop, rng: &mut R) -> Result<&'pop Ind, ProbeError> {
        called();
        if self.0 >= 3 {
            unlucky(self.0, rng)?;
            return pop.first().ok_or_else(|| ProbeError("empty".into()));
        }
        match self.0 {
            0 => pop.last().ok_or_else(|| ProbeError("empty".into())),
            1 => {
                let mut k = 0usize;
                for _ in 0..pop.len() {
                    k += rng.random_range(0..2usize);
                }
                pop.get(k % pop.len().max(1)).ok_or_else(|| ProbeError("empty".into()))
            }
            _ => {
                if pop.len() % 2 == 1 {
                    return Err(ProbeError(format!("odd population of {}", pop.len())));
                }
                let i = rng.random_range(0..pop.len().max(1));
                pop.get(i).ok_or_else(|| ProbeError("empty".into()))
            }
        }
    }
}
impl Mutator<Vec<u8>> for P {
    type Error = ProbeError;
    fn mutate<R: Rng + ?Sized>(&self, mut g: Vec<u8>, rng: &mut R) -> Result<Vec<u8>, ProbeError> {
        called();
        if self.0 >= 3 {
            unlucky(self.0, rng)?;
            g.push(99);
            return Ok(g);
        }
        match self.0 {
            0 => {
                g.reverse();
                Ok(g)
            }
            1 => {
                for x in g.iter_mut() {
                    if *x % 2 == 0 {
                        *x = x.wrapping_add(rng.random_range(0..2u8) * 10);
                    }
                }
                Ok(g)
            }
            _ => {
                if g.len() == 2 {
                    return Err(ProbeError("length two".into()));
                }
                g.push(rng.random_range(0..2u8));
                Ok(g)
            }
        }
    }
}
impl Recombinator<[Vec<u8>; 2]> for P {
    type Output = Vec<u8>;
    type Error = ProbeError;
    fn recombine<R: Rng + ?Sized>(&self, [a, b]: [Vec<u8>; 2], rng: &mut R) -> Result<Vec<u8>, ProbeError> {
        called();
        if self.0 >= 3 {
            unlucky(self.0, rng)?;
            return Ok(b.into_iter().chain(a).collect());
        }
        match self.0 {
            0 => Ok(a.into_iter().chain(b).collect()),
            1 => Ok(a.iter().zip(&b).map(|(x, y)| if rng.random_range(0..2u8) == 0 { *x } else { *y }).collect()),
            _ => {
                if a.len() != b.len() {
                    return Err(ProbeError(format!("lengths {} and {}", a.len(), b.len())));
                }
                let cut = rng.random_range(0..=a.len());
                Ok(a[..cut].iter().chain(&b[cut..]).copied().collect())
            }
        }
    }
}
impl Composable for P {}
impl Operator<Vec<u8>> for P {
    type Output = (usize, Vec<u8>);
    type Error = ProbeError;
    fn apply<R: Rng + ?Sized>(&self, x: Vec<u8>, rng: &mut R) -> Result<(usize, Vec<u8>), ProbeError> {
        called();
        let m = <P as Mutator<Vec<u8>>>::mutate(self, x, rng)?;
        Ok((m.len(), m))
    }
}
impl ChildMaker<Pop, Best> for P {
    type Error = ProbeError;
    fn make_child<R: Rng + ?Sized>(&self, rng: &mut R, pop: &Pop, sel: &Best) -> Result<Ind, ProbeError> {
        called();
        let parent = sel.select(pop, rng).map_err(|e| ProbeError(e.to_string()))?;
        if self.0 >= 3 {
            unlucky(self.0, rng)?;
            return Ok(parent.clone());
        }
        match self.0 {
            0 => Ok(parent.clone()),
            1 => {
                let mut extra = 0i64;
                for _ in 0..pop.len() {
                    extra += rng.random_range(0..2i64);
                }
                Ok(EcIndividual::new(parent.genome, TestResults::from(vec![extra])))
            }
            _ => {
                if pop.len() == 2 {
                    return Err(ProbeError("two parents".into()));
                }
                Ok(EcIndividual::new(rng.random_range(0..2u8), parent.test_results.clone()))
            }
        }
    }
}

/// what one call observes, in comparable form
#[derive(Clone, Debug, PartialEq, Eq, PartialOrd, Ord)]
pub enum Obs {
    Idx(usize),
    Genome(Vec<u8>),
    Pair(usize, Vec<u8>),
    Child(u8, Vec<i64>),
    Err(String),
    NotMember,
    Panic(String),
}

type Leaves = Vec<(Vec<Choice>, Obs, u64)>;

fn explore_all(mut f: impl FnMut(&mut Env) -> Obs) -> Leaves {
    let mut out = vec![];
    take_calls();
    explore(|env| f(env), |t, _, o| out.push((t.to_vec(), o, take_calls())), 100_000);
    out
}

/// compare an erased scenario leaf by leaf with the concrete one
fn compare(concrete: &Leaves, mut erased: impl FnMut(&mut Env) -> Obs) -> Option<String> {
    for (trace, want, want_calls) in concrete {
        take_calls();
        let (got, env) = replay_trace(|e| erased(e), trace);
        let calls = take_calls();
        if calls != *want_calls {
            return Some(format!("for choices {:?} the erased form reached the wrapped implementation {calls} times, a direct call {want_calls} times", trace.iter().map(|c| c.pick).collect::<Vec<_>>()));
        }
        if let Some(d) = env.diverged {
            return Some(format!("the erased form consumes the random stream differently: {d} (choices {:?})", trace.iter().map(|c| c.pick).collect::<Vec<_>>()));
        }
        if env.trace != *trace {
            return Some(format!("draw signature differs for choices {:?}", trace.iter().map(|c| c.pick).collect::<Vec<_>>()));
        }
        if got != *want {
            return Some(format!("for choices {:?} the erased form gave {got:?}, the wrapped operator {want:?}", trace.iter().map(|c| c.pick).collect::<Vec<_>>()));
        }
    }
    None
}

const ALPHA: Alphabet = Alphabet::Grid(2);

fn sel_obs<S: Selector<Pop>>(s: &S, pop: &Pop, env: &mut Env) -> Obs
where
    S::Error: std::fmt::Display,
{
    let mut rng = ChoiceRng::new(env, ALPHA);
    match mcx::guarded(|| s.select(pop, &mut rng)) {
        Ok(Ok(r)) => pop.iter().position(|x| std::ptr::eq(x, r)).map(Obs::Idx).unwrap_or(Obs::NotMember),
        Ok(Err(e)) => Obs::Err(e.to_string()),
        Err(p) => Obs::Panic(p),
    }
}
fn mut_obs<M: Mutator<Vec<u8>>>(m: &M, g: &[u8], env: &mut Env) -> Obs
where
    M::Error: std::fmt::Display,
{
    let mut rng = ChoiceRng::new(env, ALPHA);
    match mcx::guarded(|| m.mutate(g.to_vec(), &mut rng)) {
        Ok(Ok(r)) => Obs::Genome(r),
        Ok(Err(e)) => Obs::Err(e.to_string()),
        Err(p) => Obs::Panic(p),
    }
}
fn rec_obs<X: Recombinator<[Vec<u8>; 2], Output = Vec<u8>>>(x: &X, g: &[Vec<u8>; 2], env: &mut Env) -> Obs
where
    X::Error: std::fmt::Display,
{
    let mut rng = ChoiceRng::new(env, ALPHA);
    match mcx::guarded(|| x.recombine(g.clone(), &mut rng)) {
        Ok(Ok(r)) => Obs::Genome(r),
        Ok(Err(e)) => Obs::Err(e.to_string()),
        Err(p) => Obs::Panic(p),
    }
}
fn op_obs<O: Operator<Vec<u8>, Output = (usize, Vec<u8>)>>(o: &O, g: &[u8], env: &mut Env) -> Obs
where
    O::Error: std::fmt::Display,
{
    let mut rng = ChoiceRng::new(env, ALPHA);
    match mcx::guarded(|| o.apply(g.to_vec(), &mut rng)) {
        Ok(Ok(r)) => Obs::Pair(r.0, r.1),
        Ok(Err(e)) => Obs::Err(e.to_string()),
        Err(p) => Obs::Panic(p),
    }
}
fn cm_obs<C: ChildMaker<Pop, Best>>(c: &C, pop: &Pop, env: &mut Env) -> Obs
where
    C::Error: std::fmt::Display,
{
    let mut rng = ChoiceRng::new(env, ALPHA);
    match mcx::guarded(|| c.make_child(&mut rng, pop, &Best)) {
        Ok(Ok(r)) => Obs::Child(r.genome, r.test_results.results.iter().map(|s| s.0).collect()),
        Ok(Err(e)) => Obs::Err(e.to_string()),
        Err(p) => Obs::Panic(p),
    }
}

/// instantiate the 7 pointer flavours of one `dyn Trait (+ auto)` type and hand each to `$visit`
macro_rules! pointer_flavours {
    ($dynty:ty, $auto:expr, $mk:expr, $visit:expr) => {{
        {
            let s = $mk;
            let p: &$dynty = &s;
            $visit(concat!("&dyn", $auto), &p);
        }
        {
            let mut s = $mk;
            let p: &mut $dynty = &mut s;
            $visit(concat!("&mut dyn", $auto), &p);
        }
        {
            let p: Box<$dynty> = Box::new($mk);
            $visit(concat!("Box<dyn", $auto, ">"), &p);
        }
        {
            let p: Rc<$dynty> = Rc::new($mk);
            $visit(concat!("Rc<dyn", $auto, ">"), &p);
        }
        {
            let p: Arc<$dynty> = Arc::new($mk);
            $visit(concat!("Arc<dyn", $auto, ">"), &p);
        }
        {
            let c: RefCell<Box<$dynty>> = RefCell::new(Box::new($mk));
            let p: Ref<'_, $dynty> = Ref::map(c.borrow(), |b| &**b);
            $visit(concat!("Ref<dyn", $auto, ">"), &p);
        }
        {
            let c: RefCell<Box<$dynty>> = RefCell::new(Box::new($mk));
            let p: RefMut<'_, $dynty> = RefMut::map(c.borrow_mut(), |b| &mut **b);
            $visit(concat!("RefMut<dyn", $auto, ">"), &p);
        }
    }};
}
macro_rules! all_flavours {
    ($base:path, $mk:expr, $visit:expr) => {{
        pointer_flavours!(dyn $base, "", $mk, $visit);
        pointer_flavours!(dyn $base + Send, " + Send", $mk, $visit);
        pointer_flavours!(dyn $base + Sync, " + Sync", $mk, $visit);
        pointer_flavours!(dyn $base + Send + Sync, " + Send + Sync", $mk, $visit);
    }};
}

pub struct Tally {
    pub flavours: BTreeSet<String>,
    pub calls: u64,
    pub leaves: u64,
    pub viols: Vec<(String, String)>,
}

pub fn run_all(quick: bool) -> Tally {
    let mut t = Tally { flavours: BTreeSet::new(), calls: 0, leaves: 0, viols: vec![] };
    let pops: Vec<Pop> = (0..=if quick { 3 } else { 4 }).map(|n| mk_pop(&(0..n as i64).collect::<Vec<_>>())).collect();
    let genomes: Vec<Vec<u8>> = if quick { vec![vec![], vec![2], vec![1, 2], vec![4, 6, 7]] } else { vec![vec![], vec![2], vec![1, 2], vec![4, 6, 7], vec![0, 2, 4, 6]] };
    let pairs: Vec<[Vec<u8>; 2]> = vec![[vec![], vec![]], [vec![1], vec![2]], [vec![1, 2], vec![3]], [vec![1, 2, 3], vec![4, 5, 6]]];
    for mode in 0..MODES {
        // ---- Selector
        let conc: Vec<Leaves> = pops.iter().map(|p| explore_all(|e| sel_obs(&P(mode), p, e))).collect();
        t.leaves += conc.iter().map(|l| l.len() as u64).sum::<u64>();
        all_flavours!(DynSelector<Pop>, P(mode), |name: &str, s: &_| {
            t.flavours.insert(format!("Selector/{name}"));
            for (i, p) in pops.iter().enumerate() {
                t.calls += conc[i].len() as u64;
                if let Some(w) = compare(&conc[i], |e| sel_obs(s, p, e)) {
                    t.viols.push((format!("erased/Selector/{name}"), format!("Selector behind {name}, implementation {mode}, population of {}: {w}", p.len())));
                }
            }
        });
        // ---- Mutator
        let conc: Vec<Leaves> = genomes.iter().map(|g| explore_all(|e| mut_obs(&P(mode), g, e))).collect();
        t.leaves += conc.iter().map(|l| l.len() as u64).sum::<u64>();
        all_flavours!(DynMutator<Vec<u8>>, P(mode), |name: &str, s: &_| {
            t.flavours.insert(format!("Mutator/{name}"));
            for (i, g) in genomes.iter().enumerate() {
                t.calls += conc[i].len() as u64;
                if let Some(w) = compare(&conc[i], |e| mut_obs(s, g, e)) {
                    t.viols.push((format!("erased/Mutator/{name}"), format!("Mutator behind {name}, implementation {mode}, genome {g:?}: {w}")));
                }
            }
        });
        // ---- Recombinator
        let conc: Vec<Leaves> = pairs.iter().map(|g| explore_all(|e| rec_obs(&P(mode), g, e))).collect();
        t.leaves += conc.iter().map(|l| l.len() as u64).sum::<u64>();
        all_flavours!(DynRecombinator<[Vec<u8>; 2], Output = Vec<u8>>, P(mode), |name: &str, s: &_| {
            t.flavours.insert(format!("Recombinator/{name}"));
            for (i, g) in pairs.iter().enumerate() {
                t.calls += conc[i].len() as u64;
                if let Some(w) = compare(&conc[i], |e| rec_obs(s, g, e)) {
                    t.viols.push((format!("erased/Recombinator/{name}"), format!("Recombinator behind {name}, implementation {mode}, genomes {g:?}: {w}")));
                }
            }
        });
        // ---- Operator
        let conc: Vec<Leaves> = genomes.iter().map(|g| explore_all(|e| op_obs(&P(mode), g, e))).collect();
        t.leaves += conc.iter().map(|l| l.len() as u64).sum::<u64>();
        all_flavours!(DynOperator<Vec<u8>, Output = (usize, Vec<u8>)>, P(mode), |name: &str, s: &_| {
            t.flavours.insert(format!("Operator/{name}"));
            for (i, g) in genomes.iter().enumerate() {
                t.calls += conc[i].len() as u64;
                if let Some(w) = compare(&conc[i], |e| op_obs(s, g, e)) {
                    t.viols.push((format!("erased/Operator/{name}"), format!("Operator behind {name}, implementation {mode}, input {g:?}: {w}")));
                }
            }
        });
        // ---- ChildMaker
        let conc: Vec<Leaves> = pops.iter().map(|p| explore_all(|e| cm_obs(&P(mode), p, e))).collect();
        t.leaves += conc.iter().map(|l| l.len() as u64).sum::<u64>();
        all_flavours!(DynChildMaker<Pop, Best>, P(mode), |name: &str, s: &_| {
            t.flavours.insert(format!("ChildMaker/{name}"));
            for (i, p) in pops.iter().enumerate() {
                t.calls += conc[i].len() as u64;
                if let Some(w) = compare(&conc[i], |e| cm_obs(s, p, e)) {
                    t.viols.push((format!("erased/ChildMaker/{name}"), format!("ChildMaker behind {name}, implementation {mode}, population of {}: {w}", p.len())));
                }
            }
        });
    }
    t
}

pub fn run(run: &mut Run) {
    let t = run_all(run.quick());
    for (k, w) in &t.viols {
        run.violation(k.clone(), w.clone(), json!({"check":"C17","key":k}));
    }
    if t.flavours.len() != 140 {
        run.machinery(format!("expected 140 erased flavours, instantiated {}", t.flavours.len()));
    }
    run.states = t.flavours.len() as u64;
    run.evaluations = t.calls + t.leaves;
    run.transitions = t.calls + t.leaves;
    run.traces_validated = t.calls;
    run.distinct_nontrivial = t.flavours.len() as u64 * MODES as u64;
    run.rule = "5 erasable traits x 7 pointer types (&, &mut, Box, Rc, Arc, Ref, RefMut) x {-, Send, Sync, Send + Sync} = 140 wrapper types x 5 wrapped implementations (no draws / data-dependent number of draws / fails for certain arguments / fails depending on one drawn word / on two drawn words / draws through next_u64, fill_bytes and next_u32) x small argument families x every grid word sequence: each leaf of the concrete operator is replayed against the erased form; result identity/value, error text, the complete draw trace and the number of calls that reach the wrapped implementation must coincide; non-trivial = (flavour, implementation) pairs".into();
    run.bound("flavours", json!(t.flavours.len()));
    run.bound("alphabet", json!("Grid(2)"));
    run.note("concrete_leaves", json!(t.leaves));
    run.assumptions = vec!["a flavour that stops implementing its trait breaks the harness build; the driver then probes each flavour with cargo check (scripts/c17_probe.py) to tell this from an unrelated build break".into()];
    run.sample(json!({"flavour":"Selector/Rc<dyn + Send>","implementation":"draws one word per individual","population":3,"leaves":8}));
    run.sample(json!({"flavour":"ChildMaker/RefMut<dyn + Send + Sync>","implementation":"fails for two parents","expected_error":"probe failed: two parents"}));
}

pub fn replay(_: &Value) -> bool {
    let t = run_all(false);
    for (k, w) in &t.viols {
        println!("MISMATCH [{k}]: {w}");
    }
    if t.viols.is_empty() {
        println!("replay: property held ({} flavours)", t.flavours.len());
    }
    t.viols.is_empty()
}
