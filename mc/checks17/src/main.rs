//! C17 lives in its own binary: if a generated pointer flavour stops implementing
//! its trait this crate no longer compiles, and the driver then probes every
//! flavour separately (scripts/c17_probe.py) instead of losing all checks.
mod c17;

fn main() {
    mcx::quiet_panics();
    let args: Vec<String> = std::env::args().collect();
    let mut tier = std::env::var("VERIF_TIER").unwrap_or_else(|_| "quick".into());
    let mut replay = None;
    let mut i = 1;
    while i < args.len() {
        match args[i].as_str() {
            "--tier" => { tier = args[i + 1].clone(); i += 2; }
            "--replay" => { replay = Some(args[i + 1].clone()); i += 2; }
            _ => i += 1,
        }
    }
    if replay.is_some() {
        std::process::exit(if c17::replay(&serde_json::Value::Null) { 0 } else { 1 });
    }
    let mut run = mcx::Run::new("C17", &tier);
    mcx::watch::start("C17", &tier, std::time::Duration::from_secs(120));
    if let Err(p) = mcx::guarded(|| c17::run(&mut run)) {
        eprintln!("MACHINERY: the check itself panicked: {p}");
        std::process::exit(2);
    }
    std::process::exit(run.finish());
}
