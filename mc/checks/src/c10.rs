//! C10 — crossover recombines parental genes position-wise and reports misuse
//! as errors.  Engine E1 (all grid word sequences) + E3 (exchange primitives).

use ec_core::operator::recombinator::{Recombinator, Recombine};
use ec_core::operator::Operator;
use ec_linear::genome::bitstring::Bitstring;
use ec_linear::recombinator::crossover::Crossover;
use ec_linear::recombinator::two_point_xo::TwoPointXo;
use ec_linear::recombinator::uniform_xo::UniformXo;
use mcx::{explore, explore_bounded, Alphabet, ChoiceRng, Env, Law, Ratio, Run};
use serde_json::{json, Value};
use std::collections::BTreeSet;

type Tag = (u8, usize);

#[derive(Clone, Copy, Debug, PartialEq, Eq)]
pub enum Flavour {
    VecArr,
    VecTuple,
    BitArr,
    BitTuple,
    VecArrRecombine,
    BitTupleRef,
    /// genes of 136 bytes that own heap memory (a gene type can be anything)
    WideArr,
    WideTuple,
}
const FLAVOURS: [Flavour; 8] = [
    Flavour::VecArr,
    Flavour::VecTuple,
    Flavour::BitArr,
    Flavour::BitTuple,
    Flavour::VecArrRecombine,
    Flavour::BitTupleRef,
    Flavour::WideArr,
    Flavour::WideTuple,
];

/// the child as a vector of "which parent did position i come from" (1 or 2; 0 = neither)
#[derive(Clone, Debug, PartialEq, Eq, PartialOrd, Ord)]
pub enum XoObs {
    Child(Vec<u8>),
    ErrLength,
    ErrOther(String),
    Panic(String),
}

#[derive(Clone, Debug, PartialEq, Eq)]
struct WideTag {
    parent: u8,
    pos: usize,
    name: String,
    pad: [u64; 14],
}
fn wide_tagged(p: u8, l: usize) -> Vec<WideTag> {
    (0..l).map(|i| WideTag { parent: p, pos: i, name: format!("gene {i} of parent {p}"), pad: [i as u64; 14] }).collect()
}
fn from_wide(c: &[WideTag]) -> Vec<u8> {
    c.iter().enumerate().map(|(i, g)| if g.pos == i && g.name == format!("gene {i} of parent {}", g.parent) && g.pad == [i as u64; 14] { g.parent } else { 0 }).collect()
}
fn tagged(p: u8, l: usize) -> Vec<Tag> {
    (0..l).map(|i| (p, i)).collect()
}
fn bits(p: u8, l: usize) -> Bitstring {
    Bitstring { bits: vec![p == 2; l] }
}
fn from_tags(c: &[Tag]) -> Vec<u8> {
    c.iter().enumerate().map(|(i, (p, j))| if *j == i { *p } else { 0 }).collect()
}
fn from_bits(c: &Bitstring) -> Vec<u8> {
    c.bits.iter().map(|b| if *b { 2 } else { 1 }).collect()
}

fn is_length_err<E: std::fmt::Debug>(e: &E) -> XoObs {
    let s = format!("{e:?}");
    if s.contains("DifferentGenomeLength") {
        // the error names the two lengths (in either order)
        let (l1, l2) = PARENT_LENS.with(|p| p.get());
        let nums: Vec<usize> = s.split(|c: char| !c.is_ascii_digit()).filter(|t| !t.is_empty()).filter_map(|t| t.parse().ok()).collect();
        let mut got = nums.clone();
        got.sort();
        let mut want = vec![l1, l2];
        want.sort();
        if l1 != l2 && got != want {
            return XoObs::ErrOther(format!("the length error {s} does not name the parents' lengths {l1} and {l2}"));
        }
        XoObs::ErrLength
    } else {
        XoObs::ErrOther(s)
    }
}

/// Before every observed recombination, the same operator is used once on parents of another length with
/// a throw-away generator: a recombination is a function of its parents and the generator it is handed,
/// whatever the operator (or the thread) was used for before.
fn prime(two_point: bool, l: usize) {
    use rand::SeedableRng;
    let mut rng = rand::rngs::StdRng::seed_from_u64(l as u64);
    let other = l + 3;
    let _ = mcx::guarded(|| {
        if two_point {
            let _ = TwoPointXo.recombine([tagged(1, other), tagged(2, other)], &mut rng);
            let _ = TwoPointXo.recombine([bits(1, other), bits(2, other)], &mut rng);
        } else {
            let _ = UniformXo.recombine([tagged(1, other), tagged(2, other)], &mut rng);
            let _ = UniformXo.recombine([bits(1, other), bits(2, other)], &mut rng);
        }
    });
}

pub fn recombine(two_point: bool, f: Flavour, l1: usize, l2: usize, env: &mut Env, alpha: Alphabet) -> XoObs {
    prime(two_point, l1);
    PARENT_LENS.with(|p| p.set((l1, l2)));
    let mut rng = ChoiceRng::new(env, alpha);
    macro_rules! go {
        ($op:expr) => {{
            let op = $op;
            let r = mcx::guarded(|| match f {
                Flavour::VecArr => op.recombine([tagged(1, l1), tagged(2, l2)], &mut rng).map(|c| from_tags(&c)).map_err(|e| is_length_err(&e)),
                Flavour::VecTuple => op.recombine((tagged(1, l1), tagged(2, l2)), &mut rng).map(|c| from_tags(&c)).map_err(|e| is_length_err(&e)),
                Flavour::BitArr => op.recombine([bits(1, l1), bits(2, l2)], &mut rng).map(|c| from_bits(&c)).map_err(|e| is_length_err(&e)),
                Flavour::BitTuple => op.recombine((bits(1, l1), bits(2, l2)), &mut rng).map(|c| from_bits(&c)).map_err(|e| is_length_err(&e)),
                Flavour::VecArrRecombine => Recombine::new(&op).apply([tagged(1, l1), tagged(2, l2)], &mut rng).map(|c| from_tags(&c)).map_err(|e| is_length_err(&e)),
                Flavour::BitTupleRef => (&&op).recombine((bits(1, l1), bits(2, l2)), &mut rng).map(|c| from_bits(&c)).map_err(|e| is_length_err(&e)),
                Flavour::WideArr => op.recombine([wide_tagged(1, l1), wide_tagged(2, l2)], &mut rng).map(|c| from_wide(&c)).map_err(|e| is_length_err(&e)),
                Flavour::WideTuple => op.recombine((wide_tagged(1, l1), wide_tagged(2, l2)), &mut rng).map(|c| from_wide(&c)).map_err(|e| is_length_err(&e)),
            });
            match r {
                Ok(Ok(c)) => XoObs::Child(c),
                Ok(Err(e)) => e,
                Err(p) => XoObs::Panic(p),
            }
        }};
    }
    if two_point {
        go!(TwoPointXo)
    } else {
        go!(UniformXo)
    }
}

/// runs of positions taken from parent 2: returns None if more than one run
fn single_run(c: &[u8]) -> Option<(usize, usize)> {
    let mut runs = vec![];
    let mut i = 0;
    while i < c.len() {
        if c[i] == 2 {
            let s = i;
            while i < c.len() && c[i] == 2 {
                i += 1;
            }
            runs.push((s, i));
        } else {
            i += 1;
        }
    }
    match runs.len() {
        0 => Some((0, 0)),
        1 => Some(runs[0]),
        _ => None,
    }
}

pub fn xo_case(two_point: bool, f: Flavour, l1: usize, l2: usize) -> (u64, u64, Vec<(String, String)>, usize) {
    let name = if two_point { "two_point_xo" } else { "uniform_xo" };
    let label = format!("{name} {f:?} lengths ({l1},{l2})");
    let l = l1;
    let m = if two_point { ((l * (l + 1)).max(1)) as u32 } else { 2 };
    let alpha = Alphabet::Grid(m);
    let mut viols: Vec<(String, String)> = vec![];
    let mut segs: BTreeSet<(usize, usize)> = BTreeSet::new();
    let mut law: Law<Vec<u8>> = Law::new();
    // is the grid adequate for the draws actually made?  (uniform: one 32-bit draw per gene, as rand's
    // random::<bool>() makes; an implementation that consumes words differently -- say, one mask word for
    // many genes -- reads bits the grid midpoints do not vary, so its law cannot be concluded from this
    // alphabet; it is then judged by support only, here and on the long genomes)
    let mut adequate = true;
    let st = explore(
        |env| recombine(two_point, f, l1, l2, env, alpha),
        |t, w, o| {
            if !two_point && l1 == l2 && !(t.len() == l && t.iter().all(|c| c.kind == mcx::Kind::U32)) {
                adequate = false;
            }
            let mut bad = |key: &str, what: String| {
                if viols.len() < 3 {
                    viols.push((format!("{name}/{key}"), format!("{label}: {what}")));
                }
            };
            match &o {
                XoObs::Panic(p) => bad(if l1 == 0 && l2 == 0 { "len=0/panic" } else { "panic" }, format!("panicked: {p}")),
                XoObs::ErrLength => {
                    if l1 == l2 {
                        bad("spurious-length-error", "equal-length parents rejected".into());
                    }
                }
                XoObs::ErrOther(e) => bad("other-error", format!("unexpected error {e}")),
                XoObs::Child(c) => {
                    if l1 != l2 {
                        bad("length-mismatch-accepted", format!("parents of different lengths gave a child {c:?}"));
                    } else if c.len() != l {
                        bad("child-length", format!("child has length {}", c.len()));
                    } else if c.iter().any(|p| *p == 0) {
                        bad("foreign-gene", format!("child {c:?} has a gene that neither parent has at that position"));
                    } else if two_point {
                        match single_run(c) {
                            Some(s) => {
                                segs.insert(s);
                            }
                            None => bad("not-contiguous", format!("genes from the second parent do not form one segment: {c:?}")),
                        }
                    }
                    law.add(c.clone(), w);
                }
            }
        },
        10_000_000,
    );
    // the per-leaf oracle once more on every stream over the grid plus the extreme words 0 and all-ones
    let mut ext_leaves = 0u64;
    if viols.is_empty() && l <= 4 {
        let ext = Alphabet::Ext(if two_point { (l as u32 + 1).max(2) } else { 2 });
        let st2 = explore(
            |env| recombine(two_point, f, l1, l2, env, ext),
            |_, _, o| {
                let what = match &o {
                    XoObs::Panic(p) => Some(("panic", format!("panicked: {p}"))),
                    XoObs::ErrLength if l1 == l2 => Some(("spurious-length-error", "equal-length parents rejected".to_string())),
                    XoObs::ErrLength => None,
                    XoObs::ErrOther(e) => Some(("other-error", format!("unexpected error {e}"))),
                    XoObs::Child(c) => {
                        if l1 != l2 {
                            Some(("length-mismatch-accepted", format!("parents of different lengths gave a child {c:?}")))
                        } else if c.len() != l {
                            Some(("child-length", format!("child has length {}", c.len())))
                        } else if c.iter().any(|p| *p == 0) {
                            Some(("foreign-gene", format!("child {c:?} has a gene that neither parent has at that position")))
                        } else if two_point && single_run(c).is_none() {
                            Some(("not-contiguous", format!("genes from the second parent do not form one segment: {c:?}")))
                        } else {
                            None
                        }
                    }
                };
                if let Some((k, w)) = what {
                    if viols.len() < 3 {
                        viols.push((format!("{name}/{k}"), format!("{label} (stream with extreme words): {w}")));
                    }
                }
            },
            1_000_000,
        );
        ext_leaves = st2.leaves;
    }
    if let Some(d) = &st.diverged {
        viols.push((format!("{name}/nondeterministic"), format!("{label}: {d}")));
    }
    if st.capped || !st.total_weight_is_one {
        viols.push(("machinery/cap".into(), format!("{label}: capped")));
    }
    if l1 == l2 && viols.is_empty() {
        if two_point {
            // support: every segment [a,b), 0 <= a <= b <= l, must occur (all empty segments look alike)
            let mut missing = vec![];
            for a in 0..=l {
                for b in a..=l {
                    let s = if a == b { (0, 0) } else { (a, b) };
                    if !segs.contains(&s) {
                        missing.push((a, b));
                    }
                }
            }
            if !missing.is_empty() {
                let right_end_only = missing.iter().all(|(_, b)| *b == l);
                viols.push((
                    format!("{name}/{}", if right_end_only { "segment-touching-right-end-unreachable" } else { "segments-unreachable" }),
                    format!("{label}: segments {missing:?} never occur over all random streams"),
                ));
            }
        } else if !adequate {
            // support only, on the alphabet that also contains the all-zero and all-ones words (they
            // vary every bit of a word, whatever bits the implementation reads)
            let mut seen = vec![[false; 2]; l];
            explore_bounded(
                |env| recombine(false, f, l1, l2, env, Alphabet::Ext(2)),
                |_, o| {
                    if let XoObs::Child(c) = o {
                        for (i, p) in c.iter().enumerate().take(l) {
                            if *p == 1 || *p == 2 {
                                seen[i][*p as usize - 1] = true;
                            }
                        }
                    }
                },
                2,
                1_000_000,
            );
            for (i, sp) in seen.iter().enumerate() {
                for p in [1usize, 2] {
                    if !sp[p - 1] {
                        viols.push((format!("{name}/support"), format!("{label}: position {i} never comes from parent {p} (draws are not one 32-bit word per gene: the law is not concluded from the grid, support is judged on the grid plus the extreme words)")));
                    }
                }
            }
        } else {
            let each = Ratio::new(1, 1u128 << l);
            if law.mass.len() != 1usize << l || law.mass.values().any(|p| *p != each) {
                viols.push((format!("{name}/law"), format!("{label}: mask law {} is not uniform over the 2^{l} masks", law.render())));
            }
        }
    }
    (st.leaves + ext_leaves, st.choice_points, viols, law.mass.len())
}

/// Long genomes (around the 64- and 128-gene marks, where a word-sized mask or buffer would run out).
/// Two-point: both cut points enumerated completely on Grid(l+1); uniform: deviation-bounded exploration
/// over the grid plus the extreme words.  Per-leaf oracle as above; over all leaves every position must be
/// seen coming from either parent, and (two-point) every segment must occur.
pub fn long_case(two_point: bool, f: Flavour, l: usize, max_dev: usize) -> (u64, u64, Vec<(String, String)>) {
    let name = if two_point { "two_point_xo" } else { "uniform_xo" };
    let label = format!("{name} {f:?} length {l}");
    let mut viols: Vec<(String, String)> = vec![];
    let mut from1 = vec![false; l];
    let mut from2 = vec![false; l];
    // differ[i * l + j]: some child takes positions i and j from different parents
    let mut differ = vec![false; if two_point { 0 } else { l * l }];
    let mut segs: BTreeSet<(usize, usize)> = BTreeSet::new();
    let mut judge = |o: XoObs, viols: &mut Vec<(String, String)>| {
        let what = match &o {
            XoObs::Panic(p) => Some(("panic", format!("panicked: {p}"))),
            XoObs::ErrLength => Some(("spurious-length-error", "equal-length parents rejected".to_string())),
            XoObs::ErrOther(e) => Some(("other-error", format!("unexpected error {e}"))),
            XoObs::Child(c) => {
                if c.len() != l {
                    Some(("child-length", format!("child has length {}", c.len())))
                } else if c.iter().any(|p| *p == 0) {
                    Some(("foreign-gene", "the child has a gene that neither parent has at that position".to_string()))
                } else {
                    for (i, p) in c.iter().enumerate() {
                        if *p == 1 {
                            from1[i] = true;
                        } else {
                            from2[i] = true;
                        }
                    }
                    if !two_point {
                        for i in 0..l {
                            for j in i + 1..l {
                                if c[i] != c[j] {
                                    differ[i * l + j] = true;
                                }
                            }
                        }
                    }
                    if two_point {
                        match single_run(c) {
                            Some(s) => {
                                segs.insert(s);
                                None
                            }
                            None => Some(("not-contiguous", "genes from the second parent do not form one segment".to_string())),
                        }
                    } else {
                        None
                    }
                }
            }
        };
        if let Some((k, w)) = what {
            if viols.len() < 3 {
                viols.push((format!("{name}/{k}"), format!("{label}: {w}")));
            }
        }
    };
    let st = if two_point {
        explore(|env| recombine(true, f, l, l, env, Alphabet::Grid(l as u32 + 1)), |_, _, o| judge(o, &mut viols), 5_000_000)
    } else {
        explore_bounded(|env| recombine(false, f, l, l, env, Alphabet::Bits), |_, o| judge(o, &mut viols), max_dev, 5_000_000)
    };
    if st.capped {
        viols.push(("machinery/cap".into(), format!("{label}: capped")));
    }
    if viols.is_empty() {
        let never1: Vec<usize> = (0..l).filter(|i| !from1[*i]).collect();
        let never2: Vec<usize> = (0..l).filter(|i| !from2[*i]).collect();
        if !never1.is_empty() || !never2.is_empty() {
            viols.push((
                format!("{name}/long-support"),
                format!("{label}: over all explored streams positions {never1:?} never come from the first parent and positions {never2:?} never from the second"),
            ));
        } else if !two_point && (0..l).any(|i| (i + 1..l).any(|j| !differ[i * l + j])) {
            let tied: Vec<(usize, usize)> = (0..l).flat_map(|i| (i + 1..l).map(move |j| (i, j))).filter(|(i, j)| !differ[i * l + j]).collect();
            viols.push((
                format!("{name}/long-independence"),
                format!("{label}: over all explored streams {} pairs of positions always come from the same parent, e.g. {:?} -- these positions are not decided independently", tied.len(), &tied[..tied.len().min(4)]),
            ));
        } else if two_point {
            let missing: Vec<(usize, usize)> = (0..=l).flat_map(|a| (a..=l).map(move |b| (a, b))).filter(|(a, b)| !segs.contains(&if a == b { (0, 0) } else { (*a, *b) })).collect();
            if !missing.is_empty() {
                viols.push((format!("{name}/segments-unreachable"), format!("{label}: {} segments never occur, e.g. {:?}", missing.len(), &missing[..missing.len().min(4)])));
            }
        }
    }
    (st.leaves, st.choice_points, viols)
}
/// Genomes of thousands of genes: the per-leaf oracle (length, every gene from a parent's same position, one
/// segment) on every stream with at most two non-default words among the first few over the extended grid;
/// over those streams both ends of the child come from either parent.
pub fn huge_case(two_point: bool, f: Flavour, l: usize) -> (u64, u64, Vec<(String, String)>) {
    let name = if two_point { "two_point_xo" } else { "uniform_xo" };
    let label = format!("{name} {f:?} length {l}");
    let mut viols: Vec<(String, String)> = vec![];
    // [first, last] position seen from parent 1 / parent 2
    let mut seen = [[false; 2]; 2];
    let st = mcx::explore_bounded_h(
        |env| recombine(two_point, f, l, l, env, if two_point { Alphabet::Ext(4) } else { Alphabet::Bits }),
        |_, o| {
            let what = match &o {
                XoObs::Panic(p) => Some(("panic", format!("panicked: {p}"))),
                XoObs::ErrLength => Some(("spurious-length-error", "equal-length parents rejected".to_string())),
                XoObs::ErrOther(e) => Some(("other-error", format!("unexpected error {e}"))),
                XoObs::Child(c) => {
                    if c.len() != l {
                        Some(("child-length", format!("child has length {}", c.len())))
                    } else if let Some(i) = c.iter().position(|p| *p == 0) {
                        Some(("foreign-gene", format!("the child's gene {i} is not the gene either parent has at that position")))
                    } else if two_point && single_run(c).is_none() {
                        Some(("not-contiguous", "genes from the second parent do not form one segment".to_string()))
                    } else {
                        seen[(c[0] - 1) as usize][0] = true;
                        seen[(c[l - 1] - 1) as usize][1] = true;
                        None
                    }
                }
            };
            if let Some((k, w)) = what {
                if viols.len() < 3 {
                    viols.push((format!("{name}/huge/{k}"), format!("{label}: {w}")));
                }
            }
        },
        if two_point { 2 } else { 1 },
        if two_point { 8 } else { 6 },
        100_000,
    );
    // (uniform: the last gene is decided by a word far beyond the explored prefix)
    if !two_point {
        seen[0][1] = true;
        seen[1][1] = true;
    }
    if viols.is_empty() && !st.capped && !(seen[0][0] && seen[0][1] && seen[1][0] && seen[1][1]) {
        viols.push((format!("{name}/huge/ends"), format!("{label}: over the explored streams (incl. the extreme words) the first / last gene comes from the first parent: {:?}, from the second: {:?}; both must be possible at both ends", seen[0], seen[1])));
    }
    (st.leaves, st.choice_points, viols)
}
/// Two-point crossover of vectors of thousands of genes with the cut points steered: from three start positions,
/// *every* segment length.  (The cut points are two range draws over 0..=len; the smallest word that a
/// multiply-shift range draw maps to v is ceil(v * 2^32 / (len + 1)) - if the subject draws differently the
/// cut points are merely others; the oracle is the per-child one.)
pub fn cut_sweep(f: Flavour, l: usize) -> (u64, Vec<(String, String)>) {
    struct Words(Vec<u32>, usize);
    impl rand::RngCore for Words {
        fn next_u32(&mut self) -> u32 {
            let w = self.0.get(self.1).copied().unwrap_or(0x8000_0001);
            self.1 += 1;
            w
        }
        fn next_u64(&mut self) -> u64 {
            (self.next_u32() as u64) << 32 | 0x8000_0001
        }
        fn fill_bytes(&mut self, dst: &mut [u8]) {
            dst.fill(0x55);
        }
    }
    let word = |v: usize| -> u32 { ((((v as u128) << 32) + l as u128) / (l as u128 + 1)) as u32 };
    let mut viols: Vec<(String, String)> = vec![];
    let mut n = 0u64;
    let mut lengths_seen = std::collections::BTreeSet::new();
    for first in [1usize, 7, l / 3] {
        for second in first..=l {
            n += 1;
            let mut rng = Words(vec![word(first), word(second)], 0);
            let r = mcx::guarded(|| match f {
                Flavour::WideArr => TwoPointXo.recombine([wide_tagged(1, l), wide_tagged(2, l)], &mut rng).map(|c| from_wide(&c)).map_err(|e| format!("{e:?}")),
                _ => TwoPointXo.recombine([tagged(1, l), tagged(2, l)], &mut rng).map(|c| from_tags(&c)).map_err(|e| format!("{e:?}")),
            });
            let what = match r {
                Err(p) => Some(("panic", format!("panicked: {p}"))),
                Ok(Err(e)) => Some(("error", format!("equal-length parents: {e}"))),
                Ok(Ok(c)) => {
                    if c.len() != l {
                        Some(("child-length", format!("child has length {}", c.len())))
                    } else if let Some(i) = c.iter().position(|p| *p == 0) {
                        Some(("foreign-gene", format!("the child's gene {i} is not the gene either parent has at that position")))
                    } else {
                        match single_run(&c) {
                            None => Some(("not-contiguous", "genes from the second parent do not form one segment".to_string())),
                            Some((a, b)) => {
                                lengths_seen.insert(b - a);
                                None
                            }
                        }
                    }
                }
            };
            if let Some((k, w)) = what {
                if viols.len() < 3 {
                    viols.push((format!("two_point_xo/cut-sweep/{k}"), format!("two_point_xo {f:?} length {l}, draws steered to cut points {first} and {second}: {w}")));
                }
            }
        }
    }
    // (vacuity guard: the steering must have produced many different segment lengths)
    if viols.is_empty() && lengths_seen.len() < l / 2 {
        viols.push(("machinery/cut-sweep".into(), format!("cut sweep on length {l}: only {} different segment lengths were produced; the steering of the draws does not work for this subject", lengths_seen.len())));
    }
    (n, viols)
}

pub fn huge_lengths(quick: bool) -> Vec<usize> {
    if quick {
        vec![999, 1000, 1001, 4097, 65_537]
    } else {
        vec![999, 1000, 1001, 2048, 4097, 65_535, 65_536, 65_537, 100_003, 1_000_003]
    }
}

pub fn long_lengths(quick: bool) -> Vec<usize> {
    // dense, so that a threshold at any length in the range is crossed (not only powers of two)
    if quick {
        (9..=80).chain([97, 100, 127, 128, 129]).collect()
    } else {
        (9..=140).chain([191, 192, 193, 255, 256, 257, 300]).collect()
    }
}

thread_local! {
    /// Debug text of the error the last exchange primitive returned
    static LAST_ERR: std::cell::RefCell<String> = const { std::cell::RefCell::new(String::new()) };
    /// lengths of the parents of the recombination under way
    static PARENT_LENS: std::cell::Cell<(usize, usize)> = const { std::cell::Cell::new((0, 0)) };
}
fn note_err<T, E: std::fmt::Debug>(r: Result<T, E>) -> bool {
    match r {
        Ok(_) => true,
        Err(e) => {
            LAST_ERR.with(|l| *l.borrow_mut() = format!("{e:?}"));
            false
        }
    }
}
/// the error of an out-of-range exchange names what was asked for
fn names_request(what: &str) -> Option<(&'static str, String)> {
    let e = LAST_ERR.with(|l| l.borrow().clone());
    (!e.contains(what)).then(|| ("error-details", format!("the error {e} does not name the requested {what}")))
}

/// E3: the exchange primitives of Bitstring
fn primitives(run: &mut Run) -> u64 {
    let mut n = 0u64;
    for l1 in 0..=4usize {
        for l2 in 0..=4usize {
            let a0 = Bitstring { bits: (0..l1).map(|i| i % 2 == 0).collect() };
            let b0 = Bitstring { bits: (0..l2).map(|i| i % 3 == 0).collect() };
            for i in 0..l1.max(l2) + 3 {
                n += 1;
                let (mut a, mut b) = (a0.clone(), b0.clone());
                let r = mcx::guarded(|| note_err(a.crossover_gene(&mut b, i)));
                let in_range = i < l1 && i < l2;
                let what = match r {
                    Err(p) => Some(("gene/panic", format!("panicked: {p}"))),
                    Ok(ok) if ok != in_range => Some(("gene/verdict", format!("returned {}", if ok { "Ok" } else { "Err" }))),
                    Ok(true) => {
                        let mut ea = a0.clone();
                        let mut eb = b0.clone();
                        std::mem::swap(&mut ea.bits[i], &mut eb.bits[i]);
                        (a != ea || b != eb).then(|| ("gene/effect", format!("genomes afterwards {a} / {b}, expected {ea} / {eb}")))
                    }
                    Ok(false) => (a != a0 || b != b0).then(|| ("gene/changed-on-error", format!("genomes changed although an error was returned: {a} / {b}"))).or_else(|| names_request(&format!("index: {i},")).map(|(k, w)| (if k == "error-details" { "gene/error-details" } else { k }, w))),
                };
                if let Some((k, w)) = what {
                    run.violation(format!("crossover_{k}"), format!("crossover_gene({i}) on lengths ({l1},{l2}): {w}"), json!({"check":"C10","scenario":"gene","l1":l1,"l2":l2,"i":i}));
                }
            }
            for s in 0..=l1.max(l2) + 2 {
                for e in s..=l1.max(l2) + 2 {
                    n += 1;
                    let (mut a, mut b) = (a0.clone(), b0.clone());
                    let r = mcx::guarded(|| note_err(a.crossover_segment(&mut b, s..e)));
                    let in_range = e <= l1 && e <= l2;
                    let what = match r {
                        Err(p) => Some(("segment/out-of-range/panic", format!("panicked: {p}"))),
                        Ok(ok) if ok != in_range => Some(("segment/verdict", format!("returned {}", if ok { "Ok" } else { "Err" }))),
                        Ok(true) => {
                            let mut ea = a0.clone();
                            let mut eb = b0.clone();
                            for i in s..e {
                                std::mem::swap(&mut ea.bits[i], &mut eb.bits[i]);
                            }
                            (a != ea || b != eb).then(|| ("segment/effect", format!("genomes afterwards {a} / {b}, expected {ea} / {eb}")))
                        }
                        Ok(false) => (a != a0 || b != b0).then(|| ("segment/changed-on-error", format!("genomes changed although an error was returned: {a} / {b}"))).or_else(|| names_request(&format!("range: {s}..{e},")).map(|(_, w)| ("segment/error-details", w))),
                    };
                    if let Some((k, w)) = what {
                        run.violation(format!("crossover_{k}"), format!("crossover_segment({s}..{e}) on lengths ({l1},{l2}): {w}"), json!({"check":"C10","scenario":"segment","l1":l1,"l2":l2,"s":s,"e":e}));
                    }
                }
            }
        }
    }
    n
}

/// The exchange primitives on long bitstrings of equal and of different sizes: every segment length of a
/// dense range (0..=1100) and around the sizes, from several start positions; genes at the ends and around
/// the shorter genome's end.
fn primitives_long(run: &mut Run) -> u64 {
    let quick = run.quick();
    let mut pairs: Vec<(usize, usize)> = vec![(1500, 1200), (1200, 1500), (1300, 1300), (2100, 2049)];
    if !quick {
        pairs.extend([(3000, 2500), (4097, 4096), (70_001, 69_000), (69_000, 70_001), (65_536, 65_536)]);
    }
    let results = mcx::par_map(pairs.len(), |k| {
        let (l1, l2) = pairs[k];
        let a0 = Bitstring { bits: (0..l1).map(|i| i % 2 == 0).collect() };
        let b0 = Bitstring { bits: (0..l2).map(|i| i % 3 == 0).collect() };
        let (lo, hi) = (l1.min(l2), l1.max(l2));
        let mut n = 0u64;
        let mut viols: Vec<(String, String, Value)> = vec![];
        let mut lens: Vec<usize> = (0..=1100).collect();
        lens.extend([2047, 2048, 2049, lo / 2, lo / 2 + 1, lo - 1, lo, lo + 1, hi - 1, hi, hi + 1, hi + 2]);
        lens.sort();
        lens.dedup();
        for s in [0usize, 1, 7, lo / 2, lo - 1, lo] {
            for d in &lens {
                let e = s + d;
                n += 1;
                let (mut a, mut b) = (a0.clone(), b0.clone());
                let r = mcx::guarded(|| note_err(a.crossover_segment(&mut b, s..e)));
                let in_range = e <= l1 && e <= l2;
                let what = match r {
                    Err(p) => Some(("segment/long/panic", format!("panicked: {p}"))),
                    Ok(ok) if ok != in_range => Some(("segment/long/verdict", format!("returned {}", if ok { "Ok" } else { "Err" }))),
                    Ok(true) => {
                        let mut ea = a0.clone();
                        let mut eb = b0.clone();
                        ea.bits[s..e].swap_with_slice(&mut eb.bits[s..e]);
                        (a != ea || b != eb).then(|| {
                            let first = (0..a.bits.len().max(ea.bits.len())).find(|i| a.bits.get(*i) != ea.bits.get(*i));
                            ("segment/long/effect", format!("sizes afterwards ({}, {}), expected ({l1}, {l2}); first wrong gene of the first genome at {first:?}", a.bits.len(), b.bits.len()))
                        })
                    }
                    Ok(false) => (a != a0 || b != b0).then(|| ("segment/long/changed-on-error", "genomes changed although an error was returned".to_string())).or_else(|| names_request(&format!("range: {s}..{e},")).map(|(_, w)| ("segment/long/error-details", w))),
                };
                if let Some((k, w)) = what {
                    if viols.len() < 4 {
                        viols.push((format!("crossover_{k}"), format!("crossover_segment({s}..{e}) on lengths ({l1},{l2}): {w}"), json!({"check":"C10","scenario":"segment","l1":l1,"l2":l2,"s":s,"e":e})));
                    }
                }
            }
        }
        for i in [0usize, 1, 999, 1000, 1001, lo - 1, lo, lo + 1, hi - 1, hi, hi + 1] {
            n += 1;
            let (mut a, mut b) = (a0.clone(), b0.clone());
            let r = mcx::guarded(|| note_err(a.crossover_gene(&mut b, i)));
            let in_range = i < l1 && i < l2;
            let what = match r {
                Err(p) => Some(("gene/long/panic", format!("panicked: {p}"))),
                Ok(ok) if ok != in_range => Some(("gene/long/verdict", format!("returned {}", if ok { "Ok" } else { "Err" }))),
                Ok(true) => {
                    let mut ea = a0.clone();
                    let mut eb = b0.clone();
                    std::mem::swap(&mut ea.bits[i], &mut eb.bits[i]);
                    (a != ea || b != eb).then(|| ("gene/long/effect", "genomes afterwards differ from the addressed swap".to_string()))
                }
                Ok(false) => (a != a0 || b != b0).then(|| ("gene/long/changed-on-error", "genomes changed although an error was returned".to_string())).or_else(|| names_request(&format!("index: {i},")).map(|(_, w)| ("gene/long/error-details", w))),
            };
            if let Some((k, w)) = what {
                viols.push((format!("crossover_{k}"), format!("crossover_gene({i}) on lengths ({l1},{l2}): {w}"), json!({"check":"C10","scenario":"gene","l1":l1,"l2":l2,"i":i})));
            }
        }
        (n, viols)
    });
    let mut n = 0;
    for (c, viols) in results {
        n += c;
        for (k, w, r) in viols {
            run.violation(k, w, r);
        }
    }
    run.bound("primitives.long_size_pairs", json!(pairs));
    run.bound("primitives.long_segments", json!("starts {0, 1, 7, min/2, min-1, min} x every length 0..=1100 and around 2048, min/2, min, max"));
    n
}

/// Parents as long as a vector can be: genes of a zero-sized type cost nothing.  Two-point crossover of two
/// such parents of equal length returns a child of that length on every stream over the extended grid
/// (including the words that put a cut point at either end); parents of different such lengths are an error.
fn unit_genomes(run: &mut Run) -> u64 {
    let unit = |n: usize| -> Vec<()> {
        let mut v: Vec<()> = Vec::new();
        unsafe { v.set_len(n) };
        v
    };
    let mut count = 0u64;
    for n in [usize::MAX, usize::MAX - 1, 1usize << 63, (1 << 32) + 1, 1 << 32] {
        for (form, other) in [("array", n), ("tuple", n), ("array", n - 1)] {
            let mut bad: Option<String> = None;
            let st = explore(
                |env| {
                    env.horizon = 4;
                    let mut rng = ChoiceRng::new(env, Alphabet::Ext(2));
                    mcx::guarded(|| {
                        if form == "array" {
                            TwoPointXo.recombine([unit(n), unit(other)], &mut rng).map(|c| c.len()).map_err(|e| format!("{e:?}"))
                        } else {
                            TwoPointXo.recombine((unit(n), unit(other)), &mut rng).map(|c| c.len()).map_err(|e| format!("{e:?}"))
                        }
                    })
                },
                |t, _, r| {
                    let what = match r {
                        Err(p) => Some(format!("panicked: {p}")),
                        Ok(Ok(l)) if other != n => Some(format!("returned a child of length {l} for parents of different lengths")),
                        Ok(Ok(l)) if l != n => Some(format!("returned a child of length {l}")),
                        Ok(Err(e)) if other == n => Some(format!("reported {e} for parents of equal length")),
                        _ => None,
                    };
                    if let (Some(w), true) = (what, bad.is_none()) {
                        bad = Some(format!("word choices {:?}: {w}", t.iter().map(|c| c.pick).collect::<Vec<_>>()));
                    }
                },
                10_000,
            );
            count += st.leaves;
            if let Some(w) = bad {
                run.violation("two_point_xo/unit-genes".to_string(), format!("TwoPointXo on {form} parents of {n} and {other} zero-sized genes: {w}"), json!({"check":"C10","scenario":"unit","n":n.to_string()}));
            }
        }
    }
    run.bound("unit_gene_parent_lengths", json!(["usize::MAX", "usize::MAX - 1", "2^63", "2^32 + 1", "2^32"]));
    count
}

pub fn run(run: &mut Run) {
    if let Err(e) = mcx::rng::calibrate() {
        run.machinery(format!("calibration failed: {e}"));
        return;
    }
    let max_l = if run.quick() { 5 } else { 8 };
    let mut cases = vec![];
    for tp in [true, false] {
        for f in FLAVOURS {
            for l1 in 0..=max_l {
                for l2 in 0..=max_l {
                    cases.push((tp, f, l1, l2));
                }
            }
        }
    }
    // (the wide-gene flavours: lengths up to 6 in the thorough tier)
    cases.retain(|(_, f, l1, l2)| !matches!(f, Flavour::WideArr | Flavour::WideTuple) || (*l1 <= 6 && *l2 <= 6));
    let results = mcx::par_map(cases.len(), |i| {
        let (tp, f, l1, l2) = cases[i];
        xo_case(tp, f, l1, l2)
    });
    let mut nontrivial = 0;
    for (i, (leaves, cps, viols, outcomes)) in results.into_iter().enumerate() {
        run.evaluations += leaves;
        run.transitions += cps;
        if outcomes > 1 {
            nontrivial += 1;
        }
        let (tp, f, l1, l2) = cases[i];
        for (k, w) in viols {
            if k.starts_with("machinery/") {
                run.machinery(w);
            } else {
                run.violation(k, w, json!({"check":"C10","scenario":"xo","two_point":tp,"flavour":format!("{f:?}"),"l1":l1,"l2":l2}));
            }
        }
    }
    // long genomes
    let quick = run.quick();
    let mut long_cases = vec![];
    for tp in [true, false] {
        for f in FLAVOURS {
            for l in long_lengths(quick) {
                // (the wide-gene flavours allocate per gene: the long family up to 130 genes only)
                if matches!(f, Flavour::WideArr | Flavour::WideTuple) && l > 130 {
                    continue;
                }
                long_cases.push((tp, f, l));
            }
        }
    }
    let long_results = mcx::par_map(long_cases.len(), |i| {
        let (tp, f, l) = long_cases[i];
        long_case(tp, f, l, if quick || l > 130 || matches!(f, Flavour::WideArr | Flavour::WideTuple) { 1 } else { 2 })
    });
    for (i, (leaves, cps, viols)) in long_results.into_iter().enumerate() {
        run.evaluations += leaves;
        run.transitions += cps;
        let (tp, f, l) = long_cases[i];
        for (k, w) in viols {
            if k.starts_with("machinery/") {
                run.machinery(w);
            } else {
                run.violation(k, w, json!({"check":"C10","scenario":"long","two_point":tp,"flavour":format!("{f:?}"),"l":l}));
            }
        }
    }
    let mut huge_cases = vec![];
    for tp in [true, false] {
        for f in FLAVOURS {
            for l in huge_lengths(quick) {
                huge_cases.push((tp, f, l));
            }
        }
    }
    let huge_results = mcx::par_map(huge_cases.len(), |i| huge_case(huge_cases[i].0, huge_cases[i].1, huge_cases[i].2));
    for (i, (leaves, cps, viols)) in huge_results.into_iter().enumerate() {
        run.evaluations += leaves;
        run.transitions += cps;
        let (tp, f, l) = huge_cases[i];
        for (k, w) in viols {
            run.violation(k, w, json!({"check":"C10","scenario":"huge","two_point":tp,"flavour":format!("{f:?}"),"l":l}));
        }
    }
    let sweep_cases: Vec<(Flavour, usize)> = if quick { vec![(Flavour::VecArr, 4097), (Flavour::VecArr, 5000), (Flavour::WideArr, 1100)] } else { vec![(Flavour::VecArr, 4097), (Flavour::VecArr, 5000), (Flavour::VecArr, 8191), (Flavour::VecArr, 8192), (Flavour::VecArr, 10_007), (Flavour::WideArr, 1100), (Flavour::WideArr, 4200)] };
    let sweep_results = mcx::par_map(sweep_cases.len(), |i| cut_sweep(sweep_cases[i].0, sweep_cases[i].1));
    for (i, (k, viols)) in sweep_results.into_iter().enumerate() {
        run.evaluations += k;
        run.transitions += k;
        for (key, w) in viols {
            if key.starts_with("machinery/") {
                run.machinery(w);
            } else {
                run.violation(key, w, json!({"check":"C10","scenario":"cut-sweep","flavour":format!("{:?}", sweep_cases[i].0),"l":sweep_cases[i].1}));
            }
        }
    }
    run.bound("cut_sweep", json!(if quick { "vectors of 4097 and 5000 genes (wide genes: 1100): cut points steered to (first, second) for first in {1, 7, len/3} and every second" } else { "vectors of 4097, 5000, 8191, 8192, 10007 genes (wide genes: 1100, 4200): cut points steered to (first, second) for first in {1, 7, len/3} and every second" }));
    run.bound("huge_lengths", json!(huge_lengths(quick)));
    run.bound("long_lengths", json!(long_lengths(quick)));
    run.bound("long_uniform_deviation_bound", json!(if quick { "1" } else { "2 up to 130 genes, 1 beyond" }));
    let p = primitives(run) + primitives_long(run) + unit_genomes(run);
    run.evaluations += p;
    run.transitions += p;
    run.states = cases.len() as u64 + p;
    run.traces_validated = run.evaluations;
    run.distinct_nontrivial = nontrivial;
    run.rule = "TwoPointXo and UniformXo in 8 flavours ([Vec;2], (Vec,Vec), [Bitstring;2], (Bitstring,Bitstring), through Recombine, behind &, and vectors of 136-byte heap-owning genes as array and tuple) x all length pairs 0..L x all grid word sequences on tagged parents (and, lengths <= 4, all sequences over the grid plus the extreme words 0 and all-ones, per-leaf oracle only); per leaf: error iff lengths differ, child gene i from a parent's position i, one contiguous segment (two-point); over all leaves: every segment [a,b) reachable, uniform mask law exactly 2^-l; plus long genomes (around 64 and 128 genes): two-point with both cut points enumerated, uniform under every stream with at most 1 (thorough 2) non-default words, per-leaf oracle + every position seen from either parent + every pair of positions seen from different parents (independence) + every segment; genomes of 999..65537 (thorough ..1000003) genes with the per-leaf oracle on every stream with at most two (uniform: one) non-default words among the first 8 (6); both ends (uniform: the first gene) reachable from either parent; plus crossover_gene / crossover_segment for all indices / ranges up to length+2 on all length pairs 0..4, and on long bitstrings of equal and different sizes (primitives.long_size_pairs) for every segment length 0..=1100 from six start positions. non-trivial = scenarios with more than one distinct child".into();
    run.bound("max_length", json!(max_l));
    run.bound("alphabet", json!("Grid(l*(l+1)) for two-point, Grid(2) for uniform"));
    run.assumptions = vec!["Grid(l(l+1)) is exact for cut points drawn from 0..l as well as from 0..=l".into()];
    run.sample(json!({"op":"TwoPointXo","flavour":"BitArr","lengths":[3,3],"segments_expected":"(0,0),(0,1),(0,2),(0,3),(1,2),(1,3),(2,3)"}));
    run.sample(json!({"op":"crossover_segment(2..6)","lengths":[4,4],"expected":"Err, both genomes unchanged"}));
}

pub fn replay(v: &Value) -> bool {
    let l1 = v["l1"].as_u64().unwrap_or(0) as usize;
    let l2 = v["l2"].as_u64().unwrap_or(0) as usize;
    match v["scenario"].as_str() {
        Some("unit") => {
            let mut r = Run::new("C10", "quick");
            unit_genomes(&mut r);
            let g = r.violations.lock().unwrap();
            for (k, x) in g.iter() {
                println!("MISMATCH [{k}]: {}", x.what);
            }
            g.is_empty()
        }
        Some("cut-sweep") => {
            let f = FLAVOURS.iter().copied().find(|f| Some(format!("{f:?}").as_str()) == v["flavour"].as_str()).unwrap_or(Flavour::VecArr);
            let (k, viols) = cut_sweep(f, v["l"].as_u64().unwrap_or(0) as usize);
            println!("cut sweep {f:?}: {k} recombinations");
            for (key, w) in &viols {
                println!("MISMATCH [{key}]: {w}");
            }
            viols.is_empty()
        }
        Some("huge") => {
            let tp = v["two_point"].as_bool().unwrap_or(true);
            let f = FLAVOURS.iter().copied().find(|f| Some(format!("{f:?}").as_str()) == v["flavour"].as_str()).unwrap_or(Flavour::VecArr);
            let (leaves, _, viols) = huge_case(tp, f, v["l"].as_u64().unwrap_or(0) as usize);
            println!("huge genomes, {} {f:?}: {leaves} executions", if tp { "two-point" } else { "uniform" });
            for (k, w) in &viols {
                println!("MISMATCH [{k}]: {w}");
            }
            viols.is_empty()
        }
        Some("long") => {
            let tp = v["two_point"].as_bool().unwrap_or(true);
            let f = FLAVOURS.iter().copied().find(|f| Some(format!("{f:?}").as_str()) == v["flavour"].as_str()).unwrap_or(Flavour::VecArr);
            let (leaves, _, viols) = long_case(tp, f, l1.max(v["l"].as_u64().unwrap_or(0) as usize), 2);
            println!("long genomes, {} {f:?}: {leaves} executions", if tp { "two-point" } else { "uniform" });
            for (k, w) in &viols {
                println!("MISMATCH [{k}]: {w}");
            }
            viols.is_empty()
        }
        Some("xo") => {
            let tp = v["two_point"].as_bool().unwrap_or(true);
            let f = FLAVOURS.iter().copied().find(|f| Some(format!("{f:?}").as_str()) == v["flavour"].as_str()).unwrap_or(Flavour::VecArr);
            let (leaves, _, viols, outcomes) = xo_case(tp, f, l1, l2);
            println!("{} {f:?} ({l1},{l2}): {leaves} executions, {outcomes} distinct children", if tp { "two-point" } else { "uniform" });
            for (k, w) in &viols {
                println!("MISMATCH [{k}]: {w}");
            }
            viols.is_empty()
        }
        Some(kind) => {
            let mut a = Bitstring { bits: (0..l1).map(|i| i % 2 == 0).collect() };
            let mut b = Bitstring { bits: (0..l2).map(|i| i % 3 == 0).collect() };
            let (a0, b0) = (a.clone(), b.clone());
            let r = if kind == "gene" {
                let i = v["i"].as_u64().unwrap_or(0) as usize;
                println!("crossover_gene({i}) on {a0} / {b0}");
                mcx::guarded(|| a.crossover_gene(&mut b, i).is_ok())
            } else {
                let s = v["s"].as_u64().unwrap_or(0) as usize;
                let e = v["e"].as_u64().unwrap_or(0) as usize;
                println!("crossover_segment({s}..{e}) on {a0} / {b0}");
                mcx::guarded(|| a.crossover_segment(&mut b, s..e).is_ok())
            };
            println!("observed: {r:?}; genomes afterwards {a} / {b}");
            r.is_ok()
        }
        None => false,
    }
}
