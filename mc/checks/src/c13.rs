//! C13 — weighted selector combinations choose members in proportion to their
//! weights.  Engine E1 with exact laws; marker selectors make the delegation
//! target readable from the result.

use crate::selectors::*;
use ec_core::operator::selector::dyn_weighted::DynWeighted;
use ec_core::operator::selector::Selector;
use ec_core::weighted::error::WeightSumOverflow;
use ec_core::weighted::weighted_pair::WeightedPair;
use ec_core::weighted::with_weight::WithWeight;
use ec_core::weighted::with_weighted_item::WithWeightedItem;
use ec_core::weighted::Weighted;
use mcx::{explore, lcm, Alphabet, Law, Ratio, Run};
use serde_json::{json, Value};

type W = Weighted<Marker>;
fn wm(i: usize, w: u32) -> W {
    Weighted::new(Marker(i), w)
}

/// A shape is a way of building a combination of k marker leaves; `sums` lists
/// the weight sums of its internal nodes (the Bernoulli denominators).
#[derive(Clone, Copy, Debug, PartialEq, Eq)]
pub enum Shape {
    Single,
    Pair,
    L3,      // ((0,1),2) via with_item_and_weight
    L3Res,   // same, built on the Result chain without unwrapping in between
    R3,      // (0,(1,2))
    L4,      // (((0,1),2),3)
    L4Res,
    R4,      // (0,(1,(2,3)))
    Bal4,    // ((0,1),(2,3))
    Mid4a,   // ((0,(1,2)),3)
    Mid4b,   // (0,((1,2),3))
    Dyn,     // DynWeighted list of k
    DynStep, // the same list, with a selection made on the value after every building step
}

pub fn leaves_of(s: Shape, k: usize) -> bool {
    match s {
        Shape::Single => k == 1,
        Shape::Pair => k == 2,
        Shape::L3 | Shape::L3Res | Shape::R3 => k == 3,
        Shape::L4 | Shape::L4Res | Shape::R4 | Shape::Bal4 | Shape::Mid4a | Shape::Mid4b => k == 4,
        Shape::Dyn | Shape::DynStep => (1..=5).contains(&k),
    }
}

fn node_sums(s: Shape, w: &[u32]) -> Vec<u64> {
    let w: Vec<u64> = w.iter().map(|x| *x as u64).collect();
    match s {
        Shape::Single => vec![],
        Shape::Pair => vec![w[0] + w[1]],
        Shape::L3 | Shape::L3Res => vec![w[0] + w[1], w[0] + w[1] + w[2]],
        Shape::R3 => vec![w[1] + w[2], w[0] + w[1] + w[2]],
        Shape::L4 | Shape::L4Res => vec![w[0] + w[1], w[0] + w[1] + w[2], w.iter().sum()],
        Shape::R4 => vec![w[2] + w[3], w[1] + w[2] + w[3], w.iter().sum()],
        Shape::Bal4 => vec![w[0] + w[1], w[2] + w[3], w.iter().sum()],
        Shape::Mid4a => vec![w[1] + w[2], w[0] + w[1] + w[2], w.iter().sum()],
        Shape::Mid4b => vec![w[1] + w[2], w[1] + w[2] + w[3], w.iter().sum()],
        Shape::Dyn | Shape::DynStep => vec![w.iter().sum()],
    }
}

thread_local! {
    /// select twice from the combination that was built once; the observation is Idx(16 * first + second)
    static TWICE: std::cell::Cell<bool> = const { std::cell::Cell::new(false) };
}

thread_local! {
    /// every weight of a DynWeighted list is multiplied by this (its weights are `usize`: units above
    /// 2^32 give weights no u32 can hold)
    static DYN_UNIT: std::cell::Cell<usize> = const { std::cell::Cell::new(1) };
}
fn dw(x: u32) -> usize {
    x as usize * DYN_UNIT.with(|u| u.get())
}

fn sel_obs<S>(s: &S, pop: &Pop, env: &mut mcx::Env, alpha: Alphabet) -> SelObs
where
    S: Selector<Pop>,
    S::Error: KindOf,
{
    // exactly one member is asked, and it is the one whose individual comes back
    let one = |env: &mut mcx::Env| -> SelObs {
        let _ = take_marker_calls();
        let o = observe_select(s, pop, pop, env, alpha);
        let calls = take_marker_calls();
        match &o {
            SelObs::Idx(i) if calls != vec![*i] => SelObs::Panic(format!("delegation: the selection returned member {i}'s individual but the members asked to select were {calls:?} (exactly one member is to be used)")),
            SelObs::Err(ErrKind::ZeroWeight) if !calls.is_empty() => SelObs::Panic(format!("delegation: the zero-weight error was reported after members {calls:?} had been asked to select")),
            _ => o,
        }
    };
    let first = one(env);
    if !TWICE.with(|t| t.get()) {
        return first;
    }
    match (first, one(env)) {
        (SelObs::Idx(a), SelObs::Idx(b)) => SelObs::Idx(16 * a + b),
        (SelObs::Idx(_), other) | (other, _) => other,
    }
}

/// Build the combination and run one selection.  Err(overflow) if building failed.
pub fn build_and_select(s: Shape, w: &[u32], pop: &Pop, env: &mut mcx::Env, alpha: Alphabet) -> Result<SelObs, WeightSumOverflow> {
    Ok(match s {
        Shape::Single => sel_obs(&wm(0, w[0]), pop, env, alpha),
        Shape::Pair => sel_obs(&WeightedPair::new(wm(0, w[0]), wm(1, w[1]))?, pop, env, alpha),
        Shape::L3 => {
            let p = wm(0, w[0]).with_item_and_weight(Marker(1), w[1])?;
            sel_obs(&p.with_item_and_weight(Marker(2), w[2])?, pop, env, alpha)
        }
        Shape::L3Res => sel_obs(
            &wm(0, w[0]).with_item_and_weight(Marker(1), w[1]).with_item_and_weight(Marker(2), w[2])?,
            pop,
            env,
            alpha,
        ),
        Shape::R3 => {
            let inner = WeightedPair::new(wm(1, w[1]), wm(2, w[2]))?;
            sel_obs(&WeightedPair::new(wm(0, w[0]), inner)?, pop, env, alpha)
        }
        Shape::L4 => {
            let p = wm(0, w[0]).with_item_and_weight(Marker(1), w[1])?;
            let p = p.with_item_and_weight(Marker(2), w[2])?;
            sel_obs(&p.with_item_and_weight(Marker(3), w[3])?, pop, env, alpha)
        }
        Shape::L4Res => sel_obs(
            &wm(0, w[0])
                .with_item_and_weight(Marker(1), w[1])
                .with_item_and_weight(Marker(2), w[2])
                .with_weighted_item(wm(3, w[3]))?,
            pop,
            env,
            alpha,
        ),
        Shape::R4 => {
            let a = WeightedPair::new(wm(2, w[2]), wm(3, w[3]))?;
            let b = WeightedPair::new(wm(1, w[1]), a)?;
            sel_obs(&WeightedPair::new(wm(0, w[0]), b)?, pop, env, alpha)
        }
        Shape::Bal4 => {
            let a = WeightedPair::new(wm(0, w[0]), wm(1, w[1]))?;
            let b = WeightedPair::new(wm(2, w[2]), wm(3, w[3]))?;
            sel_obs(&WeightedPair::new(a, b)?, pop, env, alpha)
        }
        Shape::Mid4a => {
            let a = WeightedPair::new(wm(1, w[1]), wm(2, w[2]))?;
            let b = WeightedPair::new(wm(0, w[0]), a)?;
            sel_obs(&b.with_item_and_weight(Marker(3), w[3])?, pop, env, alpha)
        }
        Shape::Mid4b => {
            let a = WeightedPair::new(wm(1, w[1]), wm(2, w[2]))?;
            let b = a.with_item_and_weight(Marker(3), w[3])?;
            sel_obs(&WeightedPair::new(wm(0, w[0]), b)?, pop, env, alpha)
        }
        Shape::Dyn => {
            let mut d: DynWeighted<Pop> = DynWeighted::new(Marker(0), dw(w[0]));
            for (i, x) in w.iter().enumerate().skip(1) {
                d = d.with_selector(Marker(i), dw(*x));
            }
            sel_obs(&d, pop, env, alpha)
        }
        Shape::DynStep => {
            // a selection (from a throw-away tape) on every intermediate value: building must not depend
            // on whether the value has been used before
            let mut tape = mcx::TapeRng::default();
            let mut d: DynWeighted<Pop> = DynWeighted::new(Marker(0), dw(w[0]));
            let _ = mcx::guarded(|| d.select(pop, &mut tape).is_ok());
            for (i, x) in w.iter().enumerate().skip(1) {
                d = d.with_selector(Marker(i), dw(*x));
                if i + 1 < w.len() {
                    let _ = mcx::guarded(|| d.select(pop, &mut tape).is_ok());
                }
            }
            sel_obs(&d, pop, env, alpha)
        }
    })
}

/// number of executions a complete exploration needs (grid width ^ number of draws)
pub fn cost(s: Shape, w: &[u32]) -> u128 {
    let mut m: u128 = 1;
    let sums = node_sums(s, w);
    for sum in &sums {
        if *sum > 0 {
            m = lcm(m, *sum as u128);
        }
    }
    let depth = if s == Shape::Dyn || s == Shape::DynStep { 1 } else { sums.len() as u32 };
    m.saturating_pow(depth.max(1))
}

pub fn case(s: Shape, w: &[u32]) -> (u64, u64, Option<(String, String)>, usize) {
    case_scaled(s, w, 1)
}

/// the weights are `v[i] * unit`; the grid only has to resolve the *ratios*, i.e. the node sums of `v`
pub fn case_scaled(s: Shape, v: &[u32], unit: u32) -> (u64, u64, Option<(String, String)>, usize) {
    let scaled: Vec<u32> = v.iter().map(|x| x * unit).collect();
    let w: &[u32] = &scaled;
    let k = w.len();
    let pop = mk_pop(&(0..k as i64).collect::<Vec<_>>());
    let total: u64 = w.iter().map(|x| *x as u64).sum();
    let mut m: u128 = 1;
    for sum in node_sums(s, v) {
        if sum > 0 {
            m = lcm(m, sum as u128);
        }
    }
    let alpha = Alphabet::Grid(m.max(1) as u32);
    let dyn_unit = DYN_UNIT.with(|u| u.get());
    let label = if dyn_unit == 1 { format!("{s:?} weights {w:?}") } else { format!("{s:?} weights {w:?} x {dyn_unit}") };
    let mut law: Law<usize> = Law::new();
    let mut errs: Law<String> = Law::new();
    let mut build_failed = false;
    let st = explore(
        |env| build_and_select(s, w, &pop, env, alpha),
        |_, wt, r| match r {
            Ok(SelObs::Idx(i)) => law.add(i, wt),
            Ok(other) => errs.add(format!("{other:?}"), wt),
            Err(_) => build_failed = true,
        },
        2_000_000_000,
    );
    if st.capped || (!st.total_weight_is_one && st.diverged.is_none()) {
        return (st.leaves, st.choice_points, Some(("machinery/cap".into(), format!("{label}: exploration capped or leaf weights do not sum to 1"))), 0);
    }
    if let Some(d) = &st.diverged {
        return (st.leaves, st.choice_points, Some((format!("weighted/nondeterministic/{s:?}"), format!("{label}: {d}"))), 0);
    }
    if build_failed {
        return (st.leaves, st.choice_points, Some((format!("weighted/build/{s:?}"), format!("{label}: building reported a weight overflow although the total is {total}"))), 0);
    }
    if total == 0 {
        let ok = law.mass.is_empty() && errs.mass.len() == 1 && errs.mass.keys().next().unwrap().contains("ZeroWeight");
        if !ok {
            return (st.leaves, st.choice_points, Some((format!("weighted/zero-total/{s:?}"), format!("{label}: expected the zero-weight error, got selections {} errors {}", law.render(), errs.render()))), 0);
        }
        return (st.leaves, st.choice_points, None, 1);
    }
    if !errs.mass.is_empty() {
        let kind = if errs.mass.keys().any(|k| k.contains("delegation:")) { "delegation" } else { "error" };
        return (st.leaves, st.choice_points, Some((format!("weighted/{kind}/{s:?}"), format!("{label}: unexpected results {}", errs.render()))), 0);
    }
    let mut want: Law<usize> = Law::new();
    for (i, x) in w.iter().enumerate() {
        want.add(i, Ratio::new(*x as u128, total as u128));
    }
    if want != law {
        return (
            st.leaves,
            st.choice_points,
            Some((format!("weighted/law/{s:?}"), format!("{label}: member law {} but weights prescribe {}", law.render(), want.render()))),
            law.mass.len(),
        );
    }
    // two selections from the same combination value: independent, each with the law above
    let mut extra_leaves = 0;
    if st.leaves * st.leaves <= 200_000 && unit == 1 && w.len() <= 40 {
        let mut law2: Law<usize> = Law::new();
        let mut other = false;
        TWICE.with(|t| t.set(true));
        let st2 = explore(
            |env| build_and_select(s, w, &pop, env, alpha),
            |_, wt, r| match r {
                Ok(SelObs::Idx(i)) => law2.add(i, wt),
                _ => other = true,
            },
            2_000_000,
        );
        TWICE.with(|t| t.set(false));
        extra_leaves = st2.leaves;
        let mut want2: Law<usize> = Law::new();
        for (i, x) in w.iter().enumerate() {
            for (j, y) in w.iter().enumerate() {
                want2.add(16 * i + j, Ratio::new(*x as u128 * *y as u128, total as u128 * total as u128));
            }
        }
        if !st2.capped && st2.total_weight_is_one && st2.diverged.is_none() && (other || law2 != want2) {
            return (
                st.leaves + extra_leaves,
                st.choice_points,
                Some((format!("weighted/law-of-two/{s:?}"), format!("{label}: two selections from one combination value have the joint law {} (16*first+second) but independent selections give {}", law2.render(), want2.render()))),
                law.mass.len(),
            );
        }
    }
    (st.leaves + extra_leaves, st.choice_points, None, law.mass.len())
}

const SHAPES: [Shape; 13] = [
    Shape::Single,
    Shape::Pair,
    Shape::L3,
    Shape::L3Res,
    Shape::R3,
    Shape::L4,
    Shape::L4Res,
    Shape::R4,
    Shape::Bal4,
    Shape::Mid4a,
    Shape::Mid4b,
    Shape::Dyn,
    Shape::DynStep,
];

/// building with weights at the u32 boundary: succeeds iff the total fits
fn overflow_checks(run: &mut Run) -> u64 {
    let ws = [0u32, 1, u32::MAX - 1, u32::MAX];
    let mut n = 0;
    for s in SHAPES {
        if s == Shape::Dyn || s == Shape::DynStep || s == Shape::Single {
            continue;
        }
        for k in 2..=4usize {
            if !leaves_of(s, k) {
                continue;
            }
            let mut idx = vec![0usize; k];
            loop {
                let w: Vec<u32> = idx.iter().map(|i| ws[*i]).collect();
                let total: u64 = w.iter().map(|x| *x as u64).sum();
                let pop = mk_pop(&(0..k as i64).collect::<Vec<_>>());
                let mut env = mcx::Env::new(vec![]);
                let r = mcx::guarded(|| build_and_select(s, &w, &pop, &mut env, Alphabet::Grid(2)).is_ok());
                n += 1;
                let fits = total <= u32::MAX as u64;
                match r {
                    Ok(built) if built == fits => {}
                    Ok(built) => run.violation(
                        format!("weighted/overflow/{s:?}"),
                        format!("{s:?} weights {w:?}: total {total} {} in u32 but building {}", if fits { "fits" } else { "does not fit" }, if built { "succeeded" } else { "reported WeightSumOverflow" }),
                        json!({"check":"C13","scenario":"overflow","shape":format!("{s:?}"),"weights":w}),
                    ),
                    Err(p) => run.violation(format!("weighted/overflow-panic/{s:?}"), format!("{s:?} weights {w:?}: panic {p}"), json!({"check":"C13","scenario":"overflow","shape":format!("{s:?}"),"weights":w})),
                }
                // odometer
                let mut i = 0;
                loop {
                    if i == k {
                        break;
                    }
                    idx[i] += 1;
                    if idx[i] < ws.len() {
                        break;
                    }
                    idx[i] = 0;
                    i += 1;
                }
                if i == k {
                    break;
                }
            }
        }
    }
    // WithWeight of a pair is the sum of its members
    let p = WeightedPair::new(wm(0, 3), wm(1, 4)).unwrap();
    if p.weight() != 7 {
        run.violation("weighted/pair-weight", format!("pair of weights 3 and 4 reports weight {}", p.weight()), json!({"check":"C13","scenario":"pair-weight"}));
    }
    n
}

pub fn run(run: &mut Run) {
    if let Err(e) = mcx::rng::calibrate() {
        run.machinery(format!("calibration failed: {e}"));
        return;
    }
    let quick = run.quick();
    let wmax: u32 = if quick { 3 } else { 4 };
    let budget: u128 = if quick { 3_000_000 } else { 20_000_000 };
    let mut skipped = 0u64;
    let mut cases: Vec<(Shape, Vec<u32>)> = vec![];
    for s in SHAPES {
        for k in 1..=if quick { 4 } else { 5 } {
            if !leaves_of(s, k) {
                continue;
            }
            let top = if k == 5 { 3 } else { wmax };
            for w in all_value_vectors(k, &(0..=top as i64).collect::<Vec<_>>()) {
                let w: Vec<u32> = w.iter().map(|x| *x as u32).collect();
                if cost(s, &w) > budget {
                    skipped += 1;
                    continue;
                }
                cases.push((s, w));
            }
        }
    }
    // (static pairs only: the dynamic list samples a 64-bit range, where grid midpoints of such aligned
    // totals fall exactly on rand's rejection zone and the choice tree does not terminate)
    // the same ratios at the top of the u32 range: weights v * unit with the total just below 2^32
    // (a sampler that reduces a 32-bit word modulo the total, or computes the ratio in 32-bit
    // arithmetic, is exact for small totals and wrong here)
    let mut big_cases = 0u64;
    let units: [(u32, u32); 3] = [(1 << 30, 3), (357_913_941, 12), (858_993_459, 5)];
    let mut scaled: Vec<(Shape, Vec<u32>, u32)> = cases.iter().map(|(s, w)| (*s, w.clone(), 1u32)).collect();
    for (unit, max_total) in units {
        for (s, w) in &cases {
            let total: u32 = w.iter().sum();
            if *s != Shape::Dyn && *s != Shape::DynStep && total >= 2 && total <= max_total && (quick && w.len() <= 3 || !quick) {
                scaled.push((*s, w.clone(), unit));
                big_cases += 1;
            }
        }
    }
    let results = mcx::par_map(scaled.len(), |i| case_scaled(scaled[i].0, &scaled[i].1, scaled[i].2));
    let cases: Vec<(Shape, Vec<u32>)> = scaled.iter().map(|(s, w, u)| (*s, w.iter().map(|x| x * u).collect())).collect();
    run.note("scenarios_with_weights_near_u32_max", json!(big_cases));
    run.bound("large_weight_units", json!(["2^30 (totals <= 3 units)", "357913941 (totals <= 12 units)", "858993459 (totals <= 5 units)"]));
    let mut nontrivial = 0;
    for (i, (leaves, cps, v, outcomes)) in results.into_iter().enumerate() {
        run.evaluations += leaves;
        run.transitions += cps;
        if outcomes > 1 {
            nontrivial += 1;
        }
        if let Some((k, w)) = v {
            if k.starts_with("machinery/") {
                run.machinery(w);
                continue;
            }
            run.violation(k, w, json!({"check":"C13","scenario":"law","shape":format!("{:?}", cases[i].0),"weights":cases[i].1}));
        }
    }
    // DynWeighted with weights beyond u32: the ratios v scaled by odd units above 2^32.  For an odd
    // unit u and the grid of width T = sum(v), rand's 64-bit sampler maps cell j to the value
    // j*u + (u-1)/2 without rejection (T*u <= 2^61), so the law is decided exactly by T cells.
    let dyn_cases: Vec<(Shape, Vec<u32>, usize)> = cases
        .iter()
        .filter(|(s, w)| (*s == Shape::Dyn || *s == Shape::DynStep) && w.iter().all(|x| *x <= wmax) && w.iter().sum::<u32>() >= 1)
        .flat_map(|(s, w)| {
            let t: usize = w.iter().sum::<u32>() as usize;
            [4_294_967_311usize, 10_000_000_019, ((1usize << 60) / t) | 1].into_iter().map(move |u| (*s, w.clone(), u))
        })
        .collect();
    let dyn_results = mcx::par_map(dyn_cases.len(), |i| {
        DYN_UNIT.with(|u| u.set(dyn_cases[i].2));
        let r = case_scaled(dyn_cases[i].0, &dyn_cases[i].1, 1);
        DYN_UNIT.with(|u| u.set(1));
        r
    });
    for (i, (leaves, cps, v, _)) in dyn_results.into_iter().enumerate() {
        run.evaluations += leaves;
        run.transitions += cps;
        if let Some((k, w)) = v {
            if k.starts_with("machinery/") {
                run.machinery(w);
                continue;
            }
            run.violation(k.replacen("weighted/", "weighted/wide/", 1), w, json!({"check":"C13","scenario":"law","shape":format!("{:?}", dyn_cases[i].0),"weights":dyn_cases[i].1,"dyn_unit":dyn_cases[i].2.to_string()}));
        }
    }
    run.note("dyn_scenarios_with_weights_above_u32", json!(dyn_cases.len()));
    // long dynamic lists (one draw over the grid of the total decides: exact law, exactly one member asked)
    let long_k: Vec<usize> = if quick { (6usize..=40).chain([63, 64, 65, 127, 128, 129, 255, 256, 257]).collect() } else { (6usize..=130).chain([255, 256, 257, 511, 512, 513, 1000]).collect() };
    let long_lists: Vec<(Shape, Vec<u32>)> = long_k
        .iter()
        .flat_map(|k| {
            let ones: Vec<u32> = vec![1; *k];
            let mixed: Vec<u32> = (0..*k).map(|i| [1u32, 0, 2, 3][i % 4]).collect();
            let last_only: Vec<u32> = (0..*k).map(|i| u32::from(i + 1 == *k)).collect();
            [(Shape::Dyn, ones), (Shape::DynStep, mixed.clone()), (Shape::Dyn, mixed), (Shape::Dyn, last_only)]
        })
        .collect();
    let long_results = mcx::par_map(long_lists.len(), |i| case_scaled(long_lists[i].0, &long_lists[i].1, 1));
    for (i, (leaves, cps, v, _)) in long_results.into_iter().enumerate() {
        run.evaluations += leaves;
        run.transitions += cps;
        if let Some((k, w)) = v {
            if k.starts_with("machinery/") {
                run.machinery(w);
                continue;
            }
            let w: String = w.chars().take(900).collect();
            run.violation(k.replacen("weighted/", "weighted/long/", 1), w, json!({"check":"C13","scenario":"law","shape":format!("{:?}", long_lists[i].0),"weights":long_lists[i].1}));
        }
    }
    run.bound("long_dynamic_lists", json!(if quick { "6..=40, 63..=65, 127..=129, 255..=257 members; weights all 1 / (1,0,2,3) repeating / only the last non-zero" } else { "6..=130, 255..=257, 511..=513, 1000 members; weights all 1 / (1,0,2,3) repeating / only the last non-zero" }));
    run.bound("dyn_weight_units", json!(["4294967311", "10000000019", "(2^60 / total) | 1"]));
    // one member carries all the weight: it is used on *every* stream, the extreme words included (a
    // probability computed as w * (1/w) in floating point is not exactly 1 for w = 49, 98, 103, ...)
    {
        let mut ws: Vec<u32> = (1..=1100).collect();
        ws.extend([4093, 65_535, 65_536, 65_537, 1_000_003, (1 << 24) - 1, (1 << 24) + 1, (1 << 31) - 1, 1 << 31, (1u32 << 31) + 1, 3_000_000_019, u32::MAX - 1, u32::MAX]);
        let shapes: Vec<(Shape, Vec<u32>, usize)> = ws
            .iter()
            .flat_map(|w| {
                let mut v = vec![(Shape::Pair, vec![*w, 0], 0usize), (Shape::Pair, vec![0, *w], 1), (Shape::Dyn, vec![0, *w], 1)];
                if *w >= 2 {
                    let a = *w / 3 + 1;
                    v.push((Shape::L3, vec![a, *w - a, 0], usize::MAX));
                    v.push((Shape::R3, vec![0, a, *w - a], usize::MAX));
                }
                v
            })
            .collect();
        let res = mcx::par_map(shapes.len(), |i| {
            let (s, w, only) = (&shapes[i].0, &shapes[i].1, shapes[i].2);
            let pop = mk_pop(&(0..w.len() as i64).collect::<Vec<_>>());
            let mut bad: Option<String> = None;
            let st = explore(
                |env| {
                    env.horizon = 4;
                    build_and_select(*s, w, &pop, env, Alphabet::Ext(2))
                },
                |t, _, r| {
                    let fine = match &r {
                        Ok(SelObs::Idx(i)) => w[*i] > 0 && (only == usize::MAX || *i == only),
                        _ => false,
                    };
                    if !fine && bad.is_none() {
                        bad = Some(format!("word choices {:?} gave {r:?}", t.iter().map(|c| c.pick).collect::<Vec<_>>()));
                    }
                },
                100_000,
            );
            (st.leaves, bad)
        });
        for (i, (leaves, bad)) in res.into_iter().enumerate() {
            run.evaluations += leaves;
            run.transitions += leaves;
            if let Some(w) = bad {
                run.violation(format!("weighted/zero-weight-member-used/{:?}", shapes[i].0), format!("{:?} weights {:?}: {w}; only members of non-zero weight may be used, on every stream", shapes[i].0, shapes[i].1), json!({"check":"C13","scenario":"certain","shape":format!("{:?}", shapes[i].0),"weights":shapes[i].1}));
            }
        }
        run.bound("certain_weights", json!("one member (or one sub-pair) carries the whole weight w, the partner 0: w = 1..=1100 and 13 larger values up to u32::MAX; every stream over the extended grid (extreme words included)"));
    }
    // weights deep inside the domain: the pair's side is decided by a threshold on the first word; bisection
    // locates it, and it must sit at a / (a + b) (64 executions per pair instead of a grid of a + b cells)
    {
        use crate::c12::{coin_threshold, FirstWordThenOnes};
        let vals: Vec<u32> = vec![1, 2, 3, 7, 10, 48, 49, 50, 97, 100, 103, 1000, 1009, 4096, 12_345, 65_535, 65_537, 1_000_003, 16_777_213, 16_777_217, 123_456_789, 1 << 30, 1_500_000_001, 2_000_000_011];
        let pairs: Vec<(u32, u32)> = vals.iter().flat_map(|a| vals.iter().map(move |b| (*a, *b))).filter(|(a, b)| (*a as u64 + *b as u64) <= u32::MAX as u64).collect();
        let res = mcx::par_map(pairs.len(), |i| {
            let (a, b) = pairs[i];
            let pop = mk_pop(&[0, 1]);
            let mut runs = 0u64;
            let mut out: Vec<(String, String)> = vec![];
            // static pair, dynamic list, and the pair nested as the first member of another pair with a zero-weight partner
            // (the dynamic list samples with rejection: its smallest words are redrawn, so its first word is not a
            // plain threshold; its laws are decided on the grids above)
            for form in [0usize, 2] {
                let t = mcx::guarded(|| {
                    coin_threshold(
                        |w| {
                            runs += 1;
                            let mut rng = FirstWordThenOnes { first: w, used: false };
                            let r = match form {
                                0 => WeightedPair::new(wm(0, a), wm(1, b)).ok()?.select(&pop, &mut rng).ok().map(|x| index_of(&pop, x)),
                                1 => DynWeighted::<Pop>::new(Marker(0), a as usize).with_selector(Marker(1), b as usize).select(&pop, &mut rng).ok().map(|x| index_of(&pop, x)),
                                _ => WeightedPair::new(WeightedPair::new(wm(0, a), wm(1, b)).ok()?, wm(1, 0)).ok()?.select(&pop, &mut rng).ok().map(|x| index_of(&pop, x)),
                            };
                            match r {
                                Some(Some(0)) => Some(true),
                                Some(Some(1)) => Some(false),
                                _ => None,
                            }
                        },
                        1 << 10,
                    )
                })
                .unwrap_or_else(Err);
                let want = a as f64 / (a as f64 + b as f64);
                let name = ["WeightedPair", "DynWeighted", "nested WeightedPair"][form];
                match t {
                    Err(e) => out.push((format!("weighted/deep/{name}/result"), format!("{name} with weights ({a}, {b}): {e}"))),
                    Ok(t) => {
                        let p = if t == u64::MAX { 1.0 } else { t as f64 / 18_446_744_073_709_551_616.0 };
                        // (the dynamic list samples an integer below the total: exact to 1/total; the pair a 64-bit ratio)
                        let tol = if form == 1 { 1.0 / (a as f64 + b as f64) + 1e-12 } else { 1e-12 };
                        if (p - want).abs() > tol {
                            out.push((format!("weighted/deep/{name}/law"), format!("{name} with weights ({a}, {b}): the first member is used for first words below {t:#x}, i.e. with probability {p:.12}; its weight share is {want:.12}")));
                        }
                    }
                }
            }
            (runs, out)
        });
        for (runs, out) in res {
            run.evaluations += runs;
            run.transitions += runs;
            for (k, w) in out {
                run.violation(k, w, json!({"check":"C13","scenario":"deep"}));
            }
        }
        run.bound("deep_weight_pairs", json!(format!("{} ordered pairs over {:?}", pairs.len(), vals)));
    }
    let ov = overflow_checks(run);
    run.evaluations += ov;
    run.transitions += ov;
    run.states = cases.len() as u64 + ov;
    run.traces_validated = run.evaluations;
    run.distinct_nontrivial = nontrivial;
    run.rule = "every nesting shape of WeightedPair over 2..4 marker leaves (left chains via with_item_and_weight incl. the Result-chained form, right chains, balanced and mixed trees) and DynWeighted lists of 1..4(5) and long ones of up to 257 (1000) members (also with a selection made on the value after every building step) x every weight vector over 0..3 (thorough 0..5), and the same ratios scaled to totals just below 2^32, DynWeighted also with every weight multiplied by odd units above 2^32 (weights no u32 holds); all grid word sequences explored; the member law must equal w_i/sum exactly, zero-weight members unreachable (also on every stream with extreme words when the partner carries any weight 1..=1100 or one of 13 larger ones), all-zero => zero-weight error, two selections from one combination value are independent (product law); u32-boundary weight vectors must build iff the total fits. non-trivial = scenarios with more than one reachable member".into();
    run.bound("max_leaves", json!(if quick { 4 } else { 5 }));
    run.bound("max_weight", json!(wmax));
    run.bound("per_scenario_execution_budget", json!(budget.to_string()));
    run.note("weight_vectors_skipped_as_too_large", json!(skipped));
    run.bound("shapes", json!(SHAPES.iter().map(|s| format!("{s:?}")).collect::<Vec<_>>()));
    run.assumptions = vec!["Bernoulli::from_ratio / choose_weighted map grid cells to decisions as calibrated (thresholds are cell boundaries when the grid is a multiple of every node sum)".into()];
    run.sample(json!({"shape":"((0,1),2)","weights":[1,2,3],"law":"1/6, 2/6, 3/6"}));
    run.sample(json!({"shape":"Bal4","weights":[0,0,0,0],"expected":"ZeroWeight error"}));
}

fn shape_from(s: &str) -> Option<Shape> {
    SHAPES.iter().copied().find(|x| format!("{x:?}") == s)
}

pub fn replay(v: &Value) -> bool {
    let Some(s) = shape_from(v["shape"].as_str().unwrap_or("")) else {
        return v["scenario"] == json!("pair-weight") && WeightedPair::new(wm(0, 3), wm(1, 4)).map(|p| p.weight() == 7).unwrap_or(false);
    };
    let w: Vec<u32> = v["weights"].as_array().map(|a| a.iter().filter_map(|x| x.as_u64().map(|y| y as u32)).collect()).unwrap_or_default();
    if v["scenario"] == json!("overflow") {
        let total: u64 = w.iter().map(|x| *x as u64).sum();
        let pop = mk_pop(&(0..w.len() as i64).collect::<Vec<_>>());
        let mut env = mcx::Env::new(vec![]);
        let built = build_and_select(s, &w, &pop, &mut env, Alphabet::Grid(2)).is_ok();
        println!("{s:?} weights {w:?}: total {total}, building {}", if built { "succeeded" } else { "failed with WeightSumOverflow" });
        return built == (total <= u32::MAX as u64);
    }
    let unit = [1u32 << 30, 357_913_941, 858_993_459].into_iter().find(|u| w.iter().any(|x| *x >= *u) && w.iter().all(|x| x % u == 0)).unwrap_or(1);
    let dyn_unit: usize = v["dyn_unit"].as_str().and_then(|x| x.parse().ok()).unwrap_or(1);
    DYN_UNIT.with(|u| u.set(dyn_unit));
    let v: Vec<u32> = w.iter().map(|x| x / unit).collect();
    let (leaves, _, viol, _) = case_scaled(s, &v, unit);
    println!("{s:?} weights {w:?} (unit {unit}): {leaves} executions explored");
    match viol {
        Some((k, w)) => {
            println!("MISMATCH [{k}]: {w}");
            false
        }
        None => {
            println!("replay: property held");
            true
        }
    }
}
