//! C08 — lexicase filters by randomly ordered cases; winners are never dominated.
//! Engine E1 on the `Rep(12!, K)` alphabet (rand's shuffle draws one number below
//! 12! and uses its low mixed-radix digits), exact per-individual law.

use crate::selectors::*;
use ec_core::operator::selector::lexicase::Lexicase;
use mcx::{explore, factorial, lcm_upto, Alphabet, Kind, Law, Ratio, Run};
use serde_json::{json, Value};

#[derive(Clone, Debug)]
pub struct Case {
    pub rows: Vec<Vec<i64>>, // one row of results per individual
    pub cases: usize,        // configured case count (<= row length)
    pub errors: bool,        // polarity: results are errors (lower is better)
    /// every per-case result is itself a *group* of sub-results (a `TestResults` whose order is by its total):
    /// individual i's group for value v is [v - i, i], so equal values are equal in order but not identical
    pub grouped: bool,
}

/// The reference law: enumerate all orders of the considered cases, filter by
/// per-case best, split evenly among the final survivors.
pub fn lexicase_law(c: &Case) -> Law<usize> {
    let n = c.rows.len();
    let mut law = Law::new();
    if n == 0 {
        return law;
    }
    let mut order: Vec<usize> = (0..c.cases).collect();
    let perms = factorial(c.cases as u128);
    let each_perm = Ratio::new(1, perms);
    // Heap's algorithm, iterative via lexicographic next_permutation
    loop {
        let mut cand: Vec<usize> = (0..n).collect();
        for &case in &order {
            if cand.len() <= 1 {
                break;
            }
            let best = if c.errors {
                cand.iter().map(|i| c.rows[*i][case]).min().unwrap()
            } else {
                cand.iter().map(|i| c.rows[*i][case]).max().unwrap()
            };
            cand.retain(|i| c.rows[*i][case] == best);
        }
        let share = each_perm.mul(Ratio::new(1, cand.len() as u128));
        for i in cand {
            law.add(i, share);
        }
        // next permutation
        let mut i = order.len();
        loop {
            if i < 2 {
                return law;
            }
            if order[i - 2] < order[i - 1] {
                break;
            }
            i -= 1;
        }
        let mut j = order.len() - 1;
        while order[j] <= order[i - 2] {
            j -= 1;
        }
        order.swap(i - 2, j);
        order[i - 1..].reverse();
    }
}

fn dominated(c: &Case, w: usize) -> bool {
    let better = |a: i64, b: i64| if c.errors { a < b } else { a > b };
    (0..c.rows.len()).any(|j| {
        j != w
            && (0..c.cases).all(|k| !better(c.rows[w][k], c.rows[j][k]))
            && (0..c.cases).any(|k| better(c.rows[j][k], c.rows[w][k]))
    })
}

fn grouped_pop<R: From<i64>>(rows: &[Vec<i64>]) -> Vec<ec_core::individual::ec::EcIndividual<u8, ec_core::test_results::TestResults<ec_core::test_results::TestResults<R>>>> {
    use ec_core::test_results::TestResults;
    rows.iter()
        .enumerate()
        .map(|(i, r)| {
            let groups: Vec<TestResults<R>> = r.iter().map(|v| TestResults { results: vec![R::from(*v - i as i64), R::from(i as i64)], total_result: R::from(*v) }).collect();
            let total = TestResults { results: vec![R::from(r.iter().sum::<i64>())], total_result: R::from(r.iter().sum::<i64>()) };
            ec_core::individual::ec::EcIndividual::new(0u8, TestResults { results: groups, total_result: total })
        })
        .collect()
}

pub fn observe(c: &Case, env: &mut mcx::Env, alpha: Alphabet) -> SelObs {
    let sel = Lexicase::new(c.cases);
    if c.grouped {
        return if c.errors {
            let pop = grouped_pop::<ec_core::test_results::Error<i64>>(&c.rows);
            observe_select(&sel, &pop, &pop, env, alpha)
        } else {
            let pop = grouped_pop::<ec_core::test_results::Score<i64>>(&c.rows);
            observe_select(&sel, &pop, &pop, env, alpha)
        };
    }
    if c.errors {
        let pop = mk_pop_matrix_err(&c.rows);
        observe_select(&sel, &pop, &pop, env, alpha)
    } else {
        let pop = mk_pop_matrix(&c.rows);
        observe_select(&sel, &pop, &pop, env, alpha)
    }
}

pub fn lexicase_case(c: &Case) -> (u64, u64, Option<(String, String)>, usize) {
    let n = c.rows.len();
    let kk = factorial(n.max(c.cases) as u128) as u32;
    let rep = Alphabet::Rep { r: 479_001_600, k: kk };
    let label = format!("rows={:?} cases={} polarity={}{}", c.rows, c.cases, if c.errors { "error" } else { "score" }, if c.grouped { " (every result a group of two sub-results with that total)" } else { "" });
    let want = lexicase_law(c);
    let mut law: Law<usize> = Law::new();
    let mut bad: Option<(String, String)> = None;
    let mut shuffle_like = true;
    let st = explore(
        |env| {
            let o = observe(c, env, rep);
            (o, env.signature())
        },
        |_, w, (o, sig)| {
            if sig.len() > 2 || sig.iter().any(|k| *k != Kind::U32) {
                shuffle_like = false;
            }
            match o {
                SelObs::Idx(i) => {
                    law.add(i, w);
                    // corollaries asserted on every leaf, independent of the law
                    if dominated(c, i) && bad.is_none() {
                        bad = Some(("lexicase/dominated-winner".into(), format!("{label}: returned individual {i}, which is Pareto-dominated on the considered cases")));
                    }
                }
                other => {
                    if bad.is_none() {
                        bad = Some(("lexicase/result".into(), format!("{label}: unexpected result {other:?}")));
                    }
                }
            }
        },
        50_000_000,
    );
    if let Some(d) = &st.diverged {
        return (st.leaves, st.choice_points, Some(("lexicase/nondeterministic".into(), format!("{label}: {d}"))), 0);
    }
    if st.capped || !st.total_weight_is_one {
        return (st.leaves, st.choice_points, Some(("machinery/cap".into(), format!("{label}: exploration capped or leaf weights do not sum to 1"))), 0);
    }
    if bad.is_some() {
        return (st.leaves, st.choice_points, bad, law.mass.len());
    }
    let mut leaves = st.leaves;
    let mut cps = st.choice_points;
    let decided_law = if shuffle_like {
        law
    } else {
        // the subject no longer orders cases with rand's shuffle: the Rep alphabet is not
        // justified; recompute on the generic grid, exact for random_range/choose based code
        let m = lcm_upto(n.max(c.cases).max(1) as u128) as u32;
        let mut law2: Law<usize> = Law::new();
        let mut sig_ok = true;
        let st2 = explore(
            |env| {
                let o = observe(c, env, Alphabet::Grid(m));
                (o, env.signature())
            },
            |_, w, (o, sig)| {
                if sig.iter().any(|k| *k != Kind::U32) {
                    sig_ok = false;
                }
                if let SelObs::Idx(i) = o {
                    law2.add(i, w);
                }
            },
            5_000_000,
        );
        leaves += st2.leaves;
        cps += st2.choice_points;
        if st2.capped || !sig_ok || !st2.total_weight_is_one {
            // law undecided for this draw pattern: corollaries were still checked on every leaf
            return (leaves, cps, None, 0);
        }
        law2
    };
    if decided_law != want {
        return (
            leaves,
            cps,
            Some((
                format!("lexicase/law/n={n}/c={}", c.cases),
                format!("{label}: selection law {} but filtering by uniformly ordered cases gives {}", decided_law.render(), want.render()),
            )),
            decided_law.mass.len(),
        );
    }
    (leaves, cps, None, decided_law.mass.len())
}

/// Individuals that survive *some* ordering of the considered cases: the members of the sets that
/// are fixed points of every per-case filter and reachable from the whole population (a filter
/// applied again to a subset of its own result changes nothing, so sequences with repetition reach
/// the same final sets as permutations).
pub fn support(c: &Case) -> std::collections::BTreeSet<usize> {
    let n = c.rows.len();
    let mut out = std::collections::BTreeSet::new();
    if n == 0 {
        return out;
    }
    assert!(n <= 16);
    let filter = |set: u32, case: usize| -> u32 {
        let vals = (0..n).filter(|i| set >> i & 1 == 1).map(|i| c.rows[i][case]);
        let best = if c.errors { vals.min() } else { vals.max() }.unwrap();
        (0..n).filter(|i| set >> i & 1 == 1 && c.rows[*i][case] == best).fold(0u32, |a, i| a | 1 << i)
    };
    let mut seen = std::collections::BTreeSet::new();
    let mut work = vec![(1u32 << n) - 1];
    while let Some(set) = work.pop() {
        if !seen.insert(set) {
            continue;
        }
        let mut fixed = true;
        for case in 0..c.cases {
            let f = filter(set, case);
            if f != set {
                fixed = false;
                work.push(f);
            }
        }
        if fixed {
            out.extend((0..n).filter(|i| set >> i & 1 == 1));
        }
    }
    out
}

/// Structured matrices for many cases: everybody tied everywhere except at a few marked cases.
/// `marks[i]` = the cases on which individual i is strictly better than the rest.
fn structured(n: usize, c: usize, marks: &[Vec<usize>], errors: bool) -> Case {
    let mut rows = vec![vec![5i64; c]; n];
    for (i, m) in marks.iter().enumerate() {
        for k in m {
            rows[i][*k] = if errors { 4 } else { 6 };
        }
    }
    Case { rows, cases: c, errors, grouped: false }
}

fn marked_positions(c: usize) -> Vec<usize> {
    let mut v = vec![0, 1, c / 2, c.saturating_sub(2), c - 1];
    for t in [255usize, 256, 511, 512, 513, 1023, 1024] {
        if t < c {
            v.push(t);
        }
    }
    v.sort();
    v.dedup();
    v
}

/// structured scenarios for c cases: two and three individuals, the deciding cases at every pair of marked positions
fn structured_cases(c: usize, all_pairs: bool, law_mode: bool) -> Vec<Case> {
    let mut out = vec![];
    let pos = if all_pairs { (0..c).collect::<Vec<_>>() } else { marked_positions(c) };
    for errors in [false, true] {
        for (a, i) in pos.iter().enumerate() {
            for j in pos.iter().skip(a + 1) {
                // A better on i, B better on j; and the mirror image
                out.push(structured(2, c, &[vec![*i], vec![*j]], errors));
                if !law_mode || c <= 6 {
                    out.push(structured(2, c, &[vec![*j], vec![*i]], errors));
                }
            }
        }
        let (i, j, k) = (pos[0], pos[pos.len() / 2], pos[pos.len() - 1]);
        if i < j && j < k {
            out.push(structured(3, c, &[vec![i], vec![j], vec![k]], errors));
            // the third individual is never better (dominated unless nobody is better): must not win
            out.push(structured(3, c, &[vec![i], vec![k], vec![]], errors));
            // A better on two cases, B on one: 2/3 vs 1/3
            out.push(structured(2, c, &[vec![i, k], vec![j]], errors));
            // a twin of A: co-survivors split evenly (a second draw: law mode only with few cases)
            if !law_mode || c <= 6 {
                out.push(structured(3, c, &[vec![j], vec![j], vec![k]], errors));
            }
        }
        // only the last case tells them apart; nobody is ever better
        out.push(structured(2, c, &[vec![c - 1], vec![]], errors));
        if !law_mode || c <= 6 {
            out.push(structured(3, c, &[vec![], vec![], vec![]], errors));
        }
    }
    out
}

/// Many cases: the order is not enumerable, so no law; on every explored stream (all streams with at
/// most `dev` non-default words over the extended grid) the winner must be an individual that
/// survives some ordering, hence is not dominated.
fn long_case(c: &Case, dev: usize) -> (u64, u64, Option<(String, String)>) {
    let sup = support(c);
    let marks: Vec<Vec<usize>> = c.rows.iter().map(|r| (0..c.cases).filter(|k| r[*k] != 5).collect()).collect();
    let label = format!("{} individuals tied on {} cases except: better at {:?}; polarity={}", c.rows.len(), c.cases, marks, if c.errors { "error" } else { "score" });
    let mut bad: Option<(String, String)> = None;
    let mut winners = std::collections::BTreeSet::new();
    let st = mcx::explore_bounded_h(
        |env| observe(c, env, Alphabet::Ext(4)),
        |_, o| match o {
            SelObs::Idx(i) => {
                winners.insert(i);
                if !sup.contains(&i) && bad.is_none() {
                    bad = Some((format!("lexicase/long/not-a-survivor/c={}", c.cases), format!("{label}: returned individual {i}, which survives no ordering of the cases{}", if dominated(c, i) { " (it is Pareto-dominated)" } else { "" })));
                }
            }
            other => {
                if bad.is_none() {
                    bad = Some((format!("lexicase/long/result/c={}", c.cases), format!("{label}: unexpected result {other:?}")));
                }
            }
        },
        dev,
        // (beyond ~2000 cases one selection costs ~1 ms: deviations within the first 40 words only)
        if c.cases > 2100 { 40 } else { 4000 },
        400_000,
    );
    if bad.is_none() {
        if let Some(d) = &st.diverged {
            bad = Some(("lexicase/nondeterministic".into(), format!("{label}: {d}")));
        }
    }
    (st.leaves, st.choice_points, bad)
}

pub fn long_case_counts(quick: bool) -> Vec<usize> {
    let mut v: Vec<usize> = (9..=70).collect();
    v.extend([127, 128, 129, 255, 256, 257, 258, 511, 512, 513, 514, 515, 1023, 1024, 1025, 1026]);
    if !quick {
        v.extend(71..=126);
        v.extend(130..=254);
        v.extend([2047, 2048, 2049, 4097, 65535, 65536, 65537]);
    }
    v
}

fn matrices(n: usize, c: usize, values: &[i64]) -> Vec<Vec<Vec<i64>>> {
    let flat = all_value_vectors(n * c, values);
    flat.into_iter()
        .map(|f| f.chunks(c.max(1)).take(n).map(|r| r.to_vec()).collect::<Vec<_>>())
        .map(|rows: Vec<Vec<i64>>| if c == 0 { vec![vec![]; n] } else { rows })
        .collect()
}

pub fn run(run: &mut Run) {
    if let Err(e) = mcx::rng::calibrate() {
        run.machinery(format!("calibration failed: {e}"));
        return;
    }
    let quick = run.quick();
    let mut cases: Vec<Case> = vec![];
    let v3 = [1i64, 2, 3];
    let v2 = [1i64, 2];
    let mut push_all = |n: usize, c: usize, values: &[i64], cases: &mut Vec<Case>| {
        for rows in matrices(n, c, values) {
            for errors in [false, true] {
                // configured case count equal to and smaller than the results available
                for conf in 0..=c {
                    if conf < c && conf + 1 < c {
                        continue; // c and c-1 only (plus 0 below)
                    }
                    cases.push(Case { rows: rows.clone(), cases: conf, errors, grouped: false });
                }
                if c >= 2 {
                    cases.push(Case { rows: rows.clone(), cases: 0, errors, grouped: false });
                }
            }
        }
    };
    for n in 1..=3 {
        for c in 0..=3 {
            push_all(n, c, &v3, &mut cases);
        }
    }
    for c in 0..=2 {
        push_all(4, c, &v3, &mut cases);
    }
    push_all(4, 3, &v2, &mut cases);
    push_all(2, 4, &v3, &mut cases);
    push_all(3, 4, &v2, &mut cases);
    push_all(5, 2, &v2, &mut cases);
    if !quick {
        push_all(4, 3, &v3, &mut cases);
        push_all(3, 4, &v3, &mut cases);
        push_all(4, 4, &v2, &mut cases);
        push_all(5, 3, &v2, &mut cases);
        push_all(6, 2, &v2, &mut cases);
        push_all(2, 5, &v2, &mut cases);
        push_all(3, 5, &v2, &mut cases);
        push_all(1, 5, &v3, &mut cases);
    }
    // the same small matrices with grouped results (a result type whose equality is finer than its order)
    {
        let grouped: Vec<Case> = cases.iter().filter(|c| c.rows.len() <= 3 && c.rows.first().map(|r| r.len()).unwrap_or(0) <= 3 && c.rows.len() >= 2).map(|c| Case { rows: c.rows.clone(), cases: c.cases, errors: c.errors, grouped: true }).collect();
        cases.extend(grouped);
    }
    // structured matrices with more cases, exact law: the deciding cases at every pair of positions
    let law_c_max = if quick { 8 } else { 10 };
    for c in 5..=law_c_max {
        cases.extend(structured_cases(c, c <= 8, true));
    }
    let results = mcx::par_map(cases.len(), |i| lexicase_case(&cases[i]));
    let mut nontrivial = 0;
    for (i, (leaves, cps, v, outcomes)) in results.into_iter().enumerate() {
        run.evaluations += leaves;
        run.transitions += cps;
        if outcomes > 1 {
            nontrivial += 1;
        }
        if let Some((k, w)) = v {
            if k.starts_with("machinery/") {
                run.machinery(w);
                continue;
            }
            let c = &cases[i];
            run.violation(k, w, json!({"check":"C08","rows":c.rows,"cases":c.cases,"errors":c.errors,"grouped":c.grouped}));
        }
    }
    // many cases (every-stream oracles only)
    let counts = long_case_counts(quick);
    let long: Vec<(Case, usize)> = counts
        .iter()
        .flat_map(|c| {
            let dev = if *c <= 40 && !quick { 2 } else { 1 };
            structured_cases(*c, false, false).into_iter().map(move |k| (k, dev))
        })
        .collect();
    let long_results = mcx::par_map(long.len(), |i| long_case(&long[i].0, long[i].1));
    let mut long_streams = 0u64;
    for (i, (leaves, cps, v)) in long_results.into_iter().enumerate() {
        run.evaluations += leaves;
        run.transitions += cps;
        long_streams += leaves;
        if let Some((k, w)) = v {
            let c = &long[i].0;
            run.violation(k, w, json!({"check":"C08","long":true,"dev":long[i].1,"rows":c.rows,"cases":c.cases,"errors":c.errors}));
        }
    }
    crate::bigpop::run_family(run, crate::bigpop::BigMode::Lexi);
    run.note("long.scenarios", json!(long.len()));
    run.note("long.streams", json!(long_streams));
    run.bound("law.max_cases_structured", json!(law_c_max));
    run.bound("long.case_counts", json!(if quick { "9..=70, 127..=129, 255..=258, 511..=515, 1023..=1026" } else { "9..=258, 511..=515, 1023..=1026, 2047..=2049, 4097, 65535..=65537" }));
    run.bound("long.streams", json!("all streams with at most 1 non-default word (2 up to 40 cases, thorough) over the extended grid Ext(4), horizon 4000 words (40 beyond 2100 cases)"));
    run.states = (cases.len() + long.len()) as u64;
    run.traces_validated = run.evaluations;
    run.distinct_nontrivial = nontrivial;
    run.rule = "every result matrix (n individuals x c cases over a small value set, ties and duplicates included) x both polarities x configured case counts {c, c-1, 0}, the small ones also with every result a group of sub-results ordered by its total (equality finer than order); all word sequences of the Rep(12!, max(n,c)!) alphabet explored on the real Lexicase::select; exact law compared with the enumeration of all case orders; structured matrices (everybody tied except at marked cases; the deciding cases at every pair of positions) with exact law up to law.max_cases_structured cases; beyond that no law (the case order is not enumerable): for the case counts of long.case_counts and structured matrices with the deciding cases at the ends, the middle and around 256/512/1024, on every explored stream the winner must survive some ordering of the cases (so it is never dominated); non-trivial = scenarios whose law has more than one outcome".into();
    run.bound("quick", json!(quick));
    run.bound("matrices", json!(if quick { "n<=3, c<=3 over 3 values; n=4, c<=2 and n=2, c=4 over 3 values; n=4, c=3 / n=3, c=4 / n=5, c=2 over 2 values" } else { "quick set plus n=4, c=3 and n=3, c=4 and n=1, c=5 over 3 values; n=4, c=4 / n=5, c=3 / n=6, c=2 / n=2, c=5 / n=3, c=5 over 2 values" }));
    run.assumptions = vec![
        "rand 0.9 SliceRandom::shuffle consumes one u32 below 12! and uses it modulo s! (calibrated at start-up); if the subject stops using it the law is recomputed on the generic grid alphabet".into(),
    ];
    run.sample(json!({"rows":[[3,1],[1,3],[2,2]],"cases":2,"polarity":"score","law":"individual 0: 1/2, individual 1: 1/2, individual 2: 0"}));
    run.sample(json!({"rows":[[1,1],[1,1]],"cases":2,"polarity":"error","law":"1/2 each (co-survivors split evenly)"}));
}

pub fn replay(v: &Value) -> bool {
    let rows: Vec<Vec<i64>> = v["rows"]
        .as_array()
        .map(|a| a.iter().map(|r| r.as_array().map(|x| x.iter().filter_map(|y| y.as_i64()).collect()).unwrap_or_default()).collect())
        .unwrap_or_default();
    let c = Case { rows, cases: v["cases"].as_u64().unwrap_or(0) as usize, errors: v["errors"].as_bool().unwrap_or(false), grouped: v["grouped"].as_bool().unwrap_or(false) };
    if v["big"] == json!(true) {
        return crate::bigpop::replay(crate::bigpop::BigMode::Lexi, v);
    }
    if v["long"] == json!(true) {
        let (leaves, _, viol) = long_case(&c, v["dev"].as_u64().unwrap_or(1) as usize);
        println!("{} individuals x {} cases; survivors of some ordering: {:?}; {leaves} streams explored", c.rows.len(), c.cases, support(&c));
        return match viol {
            Some((k, w)) => {
                println!("MISMATCH [{k}]: {w}");
                false
            }
            None => {
                println!("replay: property held");
                true
            }
        };
    }
    println!("case: {c:?}");
    println!("reference law: {}", lexicase_law(&c).render());
    let (leaves, _, viol, _) = lexicase_case(&c);
    println!("{leaves} executions explored");
    match viol {
        Some((k, w)) => {
            println!("MISMATCH [{k}]: {w}");
            false
        }
        None => {
            println!("replay: property held");
            true
        }
    }
}
