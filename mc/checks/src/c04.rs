//! C04 — the bounded stack is a faithful, all-or-nothing LIFO.
//! Engine E2: stateright BFS over the real `Stack<u8>`; every transition is
//! compared with `StackRef` (a Vec + capacity) evaluated on the same pre-state.

use crate::util::{contents, stack_of};
use mcx::Run;
use push::collectable::TryExtend;
use push::push_vm::stack::{Stack, StackError};
use serde_json::{json, Value};
use stateright::{Checker, Model, Property};
use std::collections::BTreeMap;
use std::hash::{Hash, Hasher};
use std::sync::atomic::{AtomicU64, Ordering};
use std::sync::Mutex;

#[derive(Clone, Debug, PartialEq, Eq, Hash)]
pub enum Op {
    Push(u8),
    Pop,
    Pop2,
    Pop3,
    Top,
    Top2,
    Top3,
    Discard(usize),
    PushMany(Vec<u8>),
    /// plain iterator (no exact size); `lying_hint`: size_hint claims (0, Some(0))
    TryExtend(Vec<u8>, bool),
    /// plain iterator whose size_hint is a loose upper bound: (0, Some(len + 40)) -- as `filter` gives
    TryExtendLoose(Vec<u8>),
    /// the slice entry point of `TryExtend` (a provided trait method unless the stack overrides it)
    TryExtendSlice(Vec<u8>),
    /// `push_many` with an exact-size iterator of `usize::MAX - k` items that is never meant to be consumed:
    /// applied only when the stack holds more than k elements, so that present + supplied does not fit in `usize`
    PushManyHuge(usize),
    /// `try_extend` with an endless iterator (`iter::repeat`: its size hint is (usize::MAX, None)); never fits.
    /// Applied only to stacks with a small maximum (an unlimited stack would rightly try to take the items)
    TryExtendEndless(u8),
    SetMax(usize),
    Size,
    IsEmpty,
    MaxSize,
    /// `is_full()`: compared only on stacks within their maximum (an over-full stack is neither)
    IsFull,
}

fn op_to_json(op: &Op) -> Value {
    match op {
        Op::Push(v) => json!({"op":"push","v":v}),
        Op::Pop => json!({"op":"pop"}),
        Op::Pop2 => json!({"op":"pop2"}),
        Op::Pop3 => json!({"op":"pop3"}),
        Op::Top => json!({"op":"top"}),
        Op::Top2 => json!({"op":"top2"}),
        Op::Top3 => json!({"op":"top3"}),
        Op::Discard(k) => json!({"op":"discard","k":k.to_string()}),
        Op::PushMany(l) => json!({"op":"push_many","list":l}),
        Op::TryExtend(l, h) => json!({"op":"try_extend","list":l,"lying_hint":h}),
        Op::TryExtendLoose(l) => json!({"op":"try_extend_loose","list":l}),
        Op::TryExtendSlice(l) => json!({"op":"try_extend_from_slice","list":l}),
        Op::PushManyHuge(k) => json!({"op":"push_many_huge","k":k}),
        Op::TryExtendEndless(v) => json!({"op":"try_extend_endless","v":v}),
        Op::SetMax(c) => json!({"op":"set_max","c":c.to_string()}),
        Op::Size => json!({"op":"size"}),
        Op::IsEmpty => json!({"op":"is_empty"}),
        Op::IsFull => json!({"op":"is_full"}),
        Op::MaxSize => json!({"op":"max_size"}),
    }
}

fn op_from_json(v: &Value) -> Option<Op> {
    let list = || -> Vec<u8> {
        v["list"]
            .as_array()
            .map(|a| a.iter().map(|x| x.as_u64().unwrap_or(0) as u8).collect())
            .unwrap_or_default()
    };
    Some(match v["op"].as_str()? {
        "push" => Op::Push(v["v"].as_u64()? as u8),
        "pop" => Op::Pop,
        "pop2" => Op::Pop2,
        "pop3" => Op::Pop3,
        "top" => Op::Top,
        "top2" => Op::Top2,
        "top3" => Op::Top3,
        "discard" => Op::Discard(v["k"].as_str()?.parse().ok()?),
        "push_many" => Op::PushMany(list()),
        "try_extend" => Op::TryExtend(list(), v["lying_hint"].as_bool()?),
        "try_extend_loose" => Op::TryExtendLoose(list()),
        "try_extend_from_slice" => Op::TryExtendSlice(list()),
        "push_many_huge" => Op::PushManyHuge(v["k"].as_u64()? as usize),
        "try_extend_endless" => Op::TryExtendEndless(v["v"].as_u64()? as u8),
        "set_max" => Op::SetMax(v["c"].as_str()?.parse().ok()?),
        "size" => Op::Size,
        "is_empty" => Op::IsEmpty,
        "is_full" => Op::IsFull,
        "max_size" => Op::MaxSize,
        _ => return None,
    })
}

/// What an operation returns, in a form comparable between real and reference.
#[derive(Clone, Debug, PartialEq, Eq)]
pub enum Ret {
    Unit,
    Vals(Vec<u8>),
    Num(usize),
    Bool(bool),
    Underflow { requested: usize, present: usize },
    Overflow,
    Panic(String),
}

struct PlainIter {
    items: std::vec::IntoIter<u8>,
    lying: bool,
}
struct LooseIter {
    items: std::vec::IntoIter<u8>,
}
impl Iterator for LooseIter {
    type Item = u8;
    fn next(&mut self) -> Option<u8> {
        self.items.next()
    }
    fn size_hint(&self) -> (usize, Option<usize>) {
        (0, Some(self.items.len() + 40))
    }
}
impl Iterator for PlainIter {
    type Item = u8;
    fn next(&mut self) -> Option<u8> {
        self.items.next()
    }
    fn size_hint(&self) -> (usize, Option<usize>) {
        if self.lying {
            (0, Some(0))
        } else {
            (0, None)
        }
    }
}

fn err_to_ret(e: StackError) -> Ret {
    match e {
        StackError::Underflow {
            num_requested,
            num_present,
        } => Ret::Underflow {
            requested: num_requested,
            present: num_present,
        },
        StackError::Overflow { .. } => Ret::Overflow,
    }
}

/// Apply `op` to the real stack.
pub fn apply_real(s: &mut Stack<u8>, op: &Op) -> Ret {
    let r = mcx::guarded(|| match op {
        Op::Push(v) => s.push(*v).map(|()| Ret::Unit),
        Op::Pop => s.pop().map(|v| Ret::Vals(vec![v])),
        Op::Pop2 => s.pop2().map(|(a, b)| Ret::Vals(vec![a, b])),
        Op::Pop3 => s.pop3().map(|(a, b, c)| Ret::Vals(vec![a, b, c])),
        Op::Top => s.top().map(|v| Ret::Vals(vec![*v])),
        Op::Top2 => s.top2().map(|(a, b)| Ret::Vals(vec![*a, *b])),
        Op::Top3 => s.top3().map(|(a, b, c)| Ret::Vals(vec![*a, *b, *c])),
        Op::Discard(k) => s.discard(*k).map(|()| Ret::Unit),
        Op::PushMany(l) => s.push_many(l.clone()).map(|()| Ret::Unit),
        Op::TryExtend(l, lying) => {
            let mut it = PlainIter {
                items: l.clone().into_iter(),
                lying: *lying,
            };
            s.try_extend(&mut it).map(|()| Ret::Unit)
        }
        Op::TryExtendLoose(l) => {
            let mut it = LooseIter {
                items: l.clone().into_iter(),
            };
            s.try_extend(&mut it).map(|()| Ret::Unit)
        }
        Op::TryExtendSlice(l) => s.try_extend_from_slice(l).map(|()| Ret::Unit),
        Op::PushManyHuge(k) => {
            if s.size() <= *k {
                // (present + supplied would fit in usize: a stack with an unlimited maximum would really be asked to take the items)
                Ok(Ret::Overflow)
            } else {
                s.push_many((0..usize::MAX - k).map(|_| 0u8)).map(|()| Ret::Unit)
            }
        }
        Op::TryExtendEndless(v) => {
            if s.max_stack_size() > 100_000 {
                Ok(Ret::Overflow)
            } else {
                s.try_extend(&mut std::iter::repeat(*v)).map(|()| Ret::Unit)
            }
        }
        Op::SetMax(c) => {
            s.set_max_stack_size(*c);
            Ok(Ret::Unit)
        }
        Op::Size => Ok(Ret::Num(s.size())),
        Op::IsEmpty => Ok(Ret::Bool(s.is_empty())),
        Op::IsFull => Ok(Ret::Bool(s.is_full())),
        Op::MaxSize => Ok(Ret::Num(s.max_stack_size())),
    });
    match r {
        Ok(Ok(r)) => r,
        Ok(Err(e)) => err_to_ret(e),
        Err(p) => Ret::Panic(p),
    }
}

/// The reference model: a Vec (bottom-first) plus a capacity.  Returns the set
/// of admissible (return value, contents, max) outcomes.
pub fn apply_ref(vals: &[u8], max: usize, op: &Op) -> Vec<(Ret, Vec<u8>, usize)> {
    let n = vals.len();
    let same = || vals.to_vec();
    let read = |k: usize| -> Result<Vec<u8>, Ret> {
        if k <= n {
            Ok(vals[n - k..].iter().rev().copied().collect())
        } else {
            Err(Ret::Underflow {
                requested: k,
                present: n,
            })
        }
    };
    let remove = |k: usize| -> Vec<(Ret, Vec<u8>, usize)> {
        match read(k) {
            Ok(top) => vec![(Ret::Vals(top), vals[..n - k].to_vec(), max)],
            Err(e) => vec![(e, same(), max)],
        }
    };
    let insert = |list: &[u8]| -> Vec<(Ret, Vec<u8>, usize)> {
        let k = list.len();
        let fits = n.checked_add(k).is_some_and(|t| t <= max);
        let mut grown = same();
        grown.extend(list.iter().rev());
        if fits {
            vec![(Ret::Unit, grown, max)]
        } else if k == 0 {
            // inserting nothing into an over-full stack: not an insertion; either verdict, no change
            vec![(Ret::Unit, same(), max), (Ret::Overflow, same(), max)]
        } else {
            vec![(Ret::Overflow, same(), max)]
        }
    };
    match op {
        Op::Push(v) => insert(&[*v]),
        Op::Pop => remove(1),
        Op::Pop2 => remove(2),
        Op::Pop3 => remove(3),
        Op::Top | Op::Top2 | Op::Top3 => {
            let k = match op {
                Op::Top => 1,
                Op::Top2 => 2,
                _ => 3,
            };
            match read(k) {
                Ok(t) => vec![(Ret::Vals(t), same(), max)],
                Err(e) => vec![(e, same(), max)],
            }
        }
        Op::Discard(k) => {
            if *k <= n {
                vec![(Ret::Unit, vals[..n - k].to_vec(), max)]
            } else {
                vec![(
                    Ret::Underflow {
                        requested: *k,
                        present: n,
                    },
                    same(),
                    max,
                )]
            }
        }
        Op::PushMany(l) | Op::TryExtend(l, _) | Op::TryExtendLoose(l) | Op::TryExtendSlice(l) => insert(l),
        Op::PushManyHuge(_) | Op::TryExtendEndless(_) => vec![(Ret::Overflow, same(), max)],
        Op::SetMax(c) => vec![(Ret::Unit, same(), *c)],
        Op::Size => vec![(Ret::Num(n), same(), max)],
        Op::IsEmpty => vec![(Ret::Bool(n == 0), same(), max)],
        Op::IsFull => {
            if n > max {
                vec![(Ret::Bool(true), same(), max), (Ret::Bool(false), same(), max)]
            } else {
                vec![(Ret::Bool(n == max), same(), max)]
            }
        }
        Op::MaxSize => vec![(Ret::Num(max), same(), max)],
    }
}

#[derive(Clone, Debug)]
pub struct St {
    pub real: Stack<u8>,
    /// shortest operation list reaching this state (not part of the identity)
    pub hist: Vec<Op>,
}
impl PartialEq for St {
    fn eq(&self, o: &St) -> bool {
        self.real == o.real
    }
}
impl Eq for St {}
impl Hash for St {
    fn hash<H: Hasher>(&self, h: &mut H) {
        contents(&self.real).hash(h);
        self.real.max_stack_size().hash(h);
    }
}

pub struct StackModel {
    pub values: Vec<u8>,
    pub max_len: usize,
    pub bulk_len: usize,
    pub caps: Vec<usize>,
    pub transitions: AtomicU64,
    pub checked_ok: AtomicU64,
    pub violations: Mutex<BTreeMap<String, (String, Value)>>,
    pub outcome_kinds: Mutex<BTreeMap<String, u64>>,
}

fn lists(values: &[u8], max_len: usize) -> Vec<Vec<u8>> {
    let mut out = vec![vec![]];
    let mut layer = vec![vec![]];
    for _ in 0..max_len {
        let mut next = vec![];
        for l in &layer {
            for v in values {
                let mut l2: Vec<u8> = l.clone();
                l2.push(*v);
                next.push(l2);
            }
        }
        out.extend(next.iter().cloned());
        layer = next;
    }
    out
}

impl StackModel {
    fn all_ops(&self) -> Vec<Op> {
        let mut ops = vec![];
        for v in &self.values {
            ops.push(Op::Push(*v));
        }
        ops.extend([Op::Pop, Op::Pop2, Op::Pop3, Op::Top, Op::Top2, Op::Top3]);
        for k in 0..=4 {
            ops.push(Op::Discard(k));
        }
        ops.push(Op::Discard(usize::MAX));
        ops.push(Op::PushManyHuge(0));
        ops.push(Op::PushManyHuge(2));
        ops.push(Op::TryExtendEndless(9));
        for l in lists(&self.values, self.bulk_len) {
            ops.push(Op::PushMany(l.clone()));
            ops.push(Op::TryExtend(l.clone(), false));
            ops.push(Op::TryExtendLoose(l.clone()));
            ops.push(Op::TryExtendSlice(l.clone()));
            ops.push(Op::TryExtend(l, true));
        }
        for c in &self.caps {
            ops.push(Op::SetMax(*c));
        }
        ops.extend([Op::Size, Op::IsEmpty, Op::MaxSize, Op::IsFull]);
        ops
    }
}

fn kind_of(op: &Op, r: &Ret) -> String {
    let o = match op {
        Op::Push(_) => "push",
        Op::Pop => "pop",
        Op::Pop2 => "pop2",
        Op::Pop3 => "pop3",
        Op::Top => "top",
        Op::Top2 => "top2",
        Op::Top3 => "top3",
        Op::Discard(_) => "discard",
        Op::PushMany(_) => "push_many",
        Op::TryExtend(_, false) => "try_extend",
        Op::TryExtend(_, true) => "try_extend(lying hint)",
        Op::TryExtendLoose(_) => "try_extend(loose hint)",
        Op::TryExtendSlice(_) => "try_extend_from_slice",
        Op::PushManyHuge(_) => "push_many(huge exact-size iterator)",
        Op::TryExtendEndless(_) => "try_extend(endless iterator)",
        Op::SetMax(_) => "set_max",
        Op::Size => "size",
        Op::IsEmpty => "is_empty",
        Op::IsFull => "is_full",
        Op::MaxSize => "max_size",
    };
    let k = match r {
        Ret::Unit | Ret::Vals(_) | Ret::Num(_) | Ret::Bool(_) => "ok",
        Ret::Underflow { .. } => "underflow",
        Ret::Overflow => "overflow",
        Ret::Panic(_) => "panic",
    };
    format!("{o}/{k}")
}

/// One checked transition on the real code. Returns (successor, mismatch description).
pub fn step(pre: &Stack<u8>, op: &Op) -> (Stack<u8>, Ret, Option<String>) {
    {
        let (v, m, o) = (contents(pre), pre.max_stack_size(), op.clone());
        mcx::watch::enter(Box::new(move |_| {
            let name = format!("{o:?}");
            (format!("stack/{}/hang", name.split('(').next().unwrap_or("op").to_lowercase()), format!("stack {:?} (max {m}) --{}-->", &v[..v.len().min(12)], name.chars().take(60).collect::<String>()), json!({"check":"C04","kind":"hang","contents_len":v.len(),"max":m.to_string(),"op":op_to_json(&o)}))
        }));
    }
    let r = step_inner(pre, op);
    mcx::watch::leave();
    r
}
fn step_inner(pre: &Stack<u8>, op: &Op) -> (Stack<u8>, Ret, Option<String>) {
    let vals = contents(pre);
    let max = pre.max_stack_size();
    let mut post = pre.clone();
    let ret = apply_real(&mut post, op);
    let post_vals = contents(&post);
    let post_max = post.max_stack_size();
    let admissible = apply_ref(&vals, max, op);
    let mut problem = None;
    if !admissible
        .iter()
        .any(|(r, v, m)| *r == ret && *v == post_vals && *m == post_max)
    {
        problem = Some(format!(
            "stack {vals:?} (max {max}) --{op:?}--> returned {ret:?}, contents {post_vals:?} (max {post_max}); reference admits {admissible:?}"
        ));
    }
    // intrinsic invariants, independent of the reference
    let inserting = matches!(op, Op::Push(_) | Op::PushMany(_) | Op::TryExtend(..) | Op::TryExtendLoose(_) | Op::TryExtendSlice(_) | Op::PushManyHuge(_) | Op::TryExtendEndless(_));
    let ok = matches!(ret, Ret::Unit);
    if problem.is_none() && inserting && ok && post_vals.len() > vals.len() && post_vals.len() > post_max
    {
        problem = Some(format!(
            "successful insertion {op:?} left size {} above max {post_max}",
            post_vals.len()
        ));
    }
    if problem.is_none() && !(post == post_vals) {
        problem = Some("Stack == Vec disagrees with the popped contents".into());
    }
    if problem.is_none() && post.size() != post_vals.len() {
        problem = Some("size() disagrees with the popped contents".into());
    }
    (post, ret, problem)
}

impl Model for StackModel {
    type State = St;
    type Action = Op;
    fn init_states(&self) -> Vec<St> {
        let mut v = vec![St {
            real: Stack::default(),
            hist: vec![],
        }];
        for c in &self.caps {
            let mut s = Stack::default();
            s.set_max_stack_size(*c);
            v.push(St {
                real: s,
                hist: vec![Op::SetMax(*c)],
            });
        }
        v
    }
    fn actions(&self, st: &St, actions: &mut Vec<Op>) {
        let n = st.real.size();
        for op in self.all_ops() {
            let grow = match &op {
                Op::Push(_) => 1,
                Op::PushMany(l) | Op::TryExtend(l, _) | Op::TryExtendLoose(l) | Op::TryExtendSlice(l) => l.len(),
                Op::PushManyHuge(_) | Op::TryExtendEndless(_) => 0,
                _ => 0,
            };
            // keep the state space finite: contents never grow beyond max_len
            if grow > 0 && n + grow > self.max_len {
                continue;
            }
            actions.push(op);
        }
    }
    fn next_state(&self, st: &St, op: Op) -> Option<St> {
        self.transitions.fetch_add(1, Ordering::Relaxed);
        let (post, ret, problem) = step(&st.real, &op);
        *self
            .outcome_kinds
            .lock()
            .unwrap()
            .entry(kind_of(&op, &ret))
            .or_default() += 1;
        let mut hist = st.hist.clone();
        hist.push(op.clone());
        match problem {
            Some(p) => {
                let vals = contents(&st.real);
                let max = st.real.max_stack_size();
                let over = vals.len() > max;
                let key = format!(
                    "{}/{}",
                    kind_of(&op, &ret),
                    if over {
                        "over-full"
                    } else if vals.len() == max {
                        "full"
                    } else {
                        "room"
                    }
                );
                let mut g = self.violations.lock().unwrap();
                let e = g.entry(key).or_insert_with(|| {
                    (
                        p.clone(),
                        json!({"check":"C04","ops": hist.iter().map(op_to_json).collect::<Vec<_>>()}),
                    )
                });
                // keep the shortest history per key
                let cur_len = e.1["ops"].as_array().map(|a| a.len()).unwrap_or(usize::MAX);
                if hist.len() < cur_len {
                    *e = (
                        p,
                        json!({"check":"C04","ops": hist.iter().map(op_to_json).collect::<Vec<_>>()}),
                    );
                }
            }
            None => {
                self.checked_ok.fetch_add(1, Ordering::Relaxed);
            }
        }
        if matches!(ret, Ret::Panic(_)) {
            // a panicking operation may leave the clone in any state: do not explore from it
            return None;
        }
        Some(St { real: post, hist })
    }
    fn properties(&self) -> Vec<Property<Self>> {
        vec![Property::always("size and contents agree", |_, st: &St| {
            st.real.size() == contents(&st.real).len()
        })]
    }
}

/// The same operations on a stack of a *wide, non-Copy* element type: `Stack<T>` is generic, the BFS above
/// runs it at `u8`.  Every operation sequence of length <= 3 over a reduced alphabet is applied to a
/// `Stack<u8>` and to a `Stack<Wide>` (a heap-allocated string plus padding carrying the same byte); return
/// values and contents must correspond after every step.
#[derive(Clone, Debug, PartialEq, Eq)]
struct Wide {
    tag: String,
    pad: [u64; 5],
}
fn wide(v: u8) -> Wide {
    Wide { tag: format!("value-{v}"), pad: [v as u64; 5] }
}
fn narrow(w: &Wide) -> u8 {
    w.pad[0] as u8
}
fn apply_wide(s: &mut Stack<Wide>, op: &Op) -> Ret {
    struct It(std::vec::IntoIter<Wide>, bool);
    impl Iterator for It {
        type Item = Wide;
        fn next(&mut self) -> Option<Wide> {
            self.0.next()
        }
        fn size_hint(&self) -> (usize, Option<usize>) {
            if self.1 {
                (0, Some(0))
            } else {
                (0, None)
            }
        }
    }
    let r = mcx::guarded(|| match op {
        Op::Push(v) => s.push(wide(*v)).map(|()| Ret::Unit),
        Op::Pop => s.pop().map(|v| Ret::Vals(vec![narrow(&v)])),
        Op::Pop2 => s.pop2().map(|(a, b)| Ret::Vals(vec![narrow(&a), narrow(&b)])),
        Op::Pop3 => s.pop3().map(|(a, b, c)| Ret::Vals(vec![narrow(&a), narrow(&b), narrow(&c)])),
        Op::Top => s.top().map(|v| Ret::Vals(vec![narrow(v)])),
        Op::Top2 => s.top2().map(|(a, b)| Ret::Vals(vec![narrow(a), narrow(b)])),
        Op::Top3 => s.top3().map(|(a, b, c)| Ret::Vals(vec![narrow(a), narrow(b), narrow(c)])),
        Op::Discard(k) => s.discard(*k).map(|()| Ret::Unit),
        Op::PushMany(l) => s.push_many(l.iter().map(|v| wide(*v)).collect::<Vec<_>>()).map(|()| Ret::Unit),
        Op::TryExtend(l, lying) => {
            let mut it = It(l.iter().map(|v| wide(*v)).collect::<Vec<_>>().into_iter(), *lying);
            s.try_extend(&mut it).map(|()| Ret::Unit)
        }
        Op::TryExtendLoose(l) => {
            let mut it = It(l.iter().map(|v| wide(*v)).collect::<Vec<_>>().into_iter(), false);
            s.try_extend(&mut it).map(|()| Ret::Unit)
        }
        Op::TryExtendSlice(l) => s.try_extend_from_slice(&l.iter().map(|v| wide(*v)).collect::<Vec<_>>()).map(|()| Ret::Unit),
        Op::PushManyHuge(k) => {
            if s.size() <= *k {
                Ok(Ret::Overflow)
            } else {
                s.push_many((0..usize::MAX - k).map(|_| wide(0))).map(|()| Ret::Unit)
            }
        }
        Op::TryExtendEndless(v) => {
            if s.max_stack_size() > 100_000 {
                Ok(Ret::Overflow)
            } else {
                s.try_extend(&mut std::iter::repeat(wide(*v))).map(|()| Ret::Unit)
            }
        }
        Op::SetMax(c) => {
            s.set_max_stack_size(*c);
            Ok(Ret::Unit)
        }
        Op::Size => Ok(Ret::Num(s.size())),
        Op::IsEmpty => Ok(Ret::Bool(s.is_empty())),
        Op::IsFull => Ok(Ret::Bool(s.is_full())),
        Op::MaxSize => Ok(Ret::Num(s.max_stack_size())),
    });
    match r {
        Ok(Ok(r)) => r,
        Ok(Err(e)) => err_to_ret(e),
        Err(p) => Ret::Panic(p),
    }
}
fn wide_twin(run: &mut Run) -> u64 {
    let mut alpha: Vec<Op> = vec![Op::Push(1), Op::Push(2), Op::Pop, Op::Pop2, Op::Pop3, Op::Top, Op::Top2, Op::Top3, Op::Size, Op::IsEmpty, Op::IsFull];
    for k in 0..=3 {
        alpha.push(Op::Discard(k));
    }
    for l in [vec![3u8, 4], vec![5, 6, 7]] {
        alpha.push(Op::PushMany(l.clone()));
        alpha.push(Op::TryExtend(l.clone(), false));
        alpha.push(Op::TryExtendSlice(l.clone()));
        alpha.push(Op::TryExtend(l, true));
    }
    alpha.push(Op::PushManyHuge(1));
    alpha.push(Op::TryExtendEndless(8));
    for c in [0usize, 1, 2, 3, usize::MAX] {
        alpha.push(Op::SetMax(c));
    }
    let depth = if run.quick() { 3 } else { 4 };
    let n_ops = alpha.len();
    let total = (0..=depth).map(|d| n_ops.pow(d as u32)).sum::<usize>();
    let first: Vec<usize> = (0..n_ops).collect();
    let results = mcx::par_map(first.len(), |fi| {
        let mut n = 0u64;
        let mut viol: Option<(String, Vec<Op>)> = None;
        // all sequences of length 1..=depth starting with alpha[fi], by odometer
        let mut seq = vec![first[fi]];
        loop {
            // run the sequence on both stacks (capacity 3 to start with)
            let mut a: Stack<u8> = Stack::default();
            a.set_max_stack_size(3);
            let mut b: Stack<Wide> = Stack::default();
            b.set_max_stack_size(3);
            for (i, oi) in seq.iter().enumerate() {
                n += 1;
                let ra = apply_real(&mut a, &alpha[*oi]);
                let rb = apply_wide(&mut b, &alpha[*oi]);
                let same_contents = contents(&a) == contents(&b).iter().map(narrow).collect::<Vec<u8>>() && a.max_stack_size() == b.max_stack_size();
                if (ra != rb || !same_contents) && viol.is_none() {
                    viol = Some((format!("Stack<u8> returned {ra:?} with contents {:?}, Stack<Wide> returned {rb:?} with contents {:?}", contents(&a), contents(&b).iter().map(narrow).collect::<Vec<u8>>()), seq[..=i].iter().map(|x| alpha[*x].clone()).collect()));
                }
            }
            // next sequence: extend if possible, else increment
            if seq.len() < depth {
                seq.push(0);
                continue;
            }
            loop {
                let last = seq.len() - 1;
                if last == 0 {
                    seq.clear();
                    break;
                }
                if seq[last] + 1 < n_ops {
                    seq[last] += 1;
                    break;
                }
                seq.pop();
            }
            if seq.is_empty() {
                break;
            }
        }
        (n, viol)
    });
    let mut n = 0;
    for (k, v) in results {
        n += k;
        if let Some((what, ops)) = v {
            run.violation("stack/element-type", format!("after {:?}: {what}", ops.iter().map(|o| format!("{o:?}")).collect::<Vec<_>>()), json!({"check":"C04","wide":true,"ops":ops.iter().map(op_to_json).collect::<Vec<_>>()}));
        }
    }
    run.bound("element_type_twin", json!(format!("all {total} operation sequences of length <= {depth} over {n_ops} operations on Stack<u8> and Stack<Wide>")));
    n
}

/// Long stacks (sizes around 2^8, where a narrow counter would wrap, and bulk insertions of hundreds of
/// elements): every operation of a list applied to every (contents, maximum) start state of a family,
/// compared with the same reference as the BFS.
fn long_stacks(run: &mut Run) -> u64 {
    let quick = run.quick();
    let sizes: Vec<usize> = if quick { (8usize..=130).chain([254, 255, 256, 257, 300]).collect() } else { (8usize..=300).chain([511, 512, 513, 1000, 1009]).collect() };
    let mut n = 0u64;
    for &len in &sizes {
        let vals: Vec<u8> = (0..len).map(|i| (i % 251) as u8).collect();
        for max in [len.saturating_sub(1), len, len + 1, len + 2, len + 3, len + 300, usize::MAX] {
            let pre = stack_of::<u8>(vals.clone(), max);
            let big: Vec<u8> = (0..300usize).map(|i| (255 - i % 256) as u8).collect();
            let mut ops = vec![Op::Push(7), Op::Pop, Op::Pop2, Op::Pop3, Op::Top, Op::Top2, Op::Top3, Op::Size, Op::IsEmpty, Op::MaxSize, Op::IsFull];
            for k in [0usize, 1, 2, 3, 255, 256, 257, len - 1, len, len + 1] {
                ops.push(Op::Discard(k));
            }
            for l in [vec![9u8], vec![9, 8], vec![9, 8, 7], big.clone(), big[..255].to_vec(), big[..256].to_vec(), big[..257].to_vec()] {
                ops.push(Op::PushMany(l.clone()));
                ops.push(Op::TryExtend(l.clone(), false));
                ops.push(Op::TryExtendLoose(l.clone()));
                ops.push(Op::TryExtendSlice(l.clone()));
                ops.push(Op::TryExtend(l, true));
            }
            for c in [0usize, 255, 256, 257, len, len + 1] {
                ops.push(Op::SetMax(c));
            }
            for op in &ops {
                n += 1;
                let (post, _ret, problem) = step(&pre, op);
                if let Some(p) = problem {
                    let name = format!("{op:?}");
                    let name = name.split('(').next().unwrap_or("op").to_lowercase();
                    run.violation(
                        format!("stack/long/{name}"),
                        format!("stack of {len} elements (max {}) --{}--> {}", if max == usize::MAX { "unbounded".to_string() } else { max.to_string() }, { let s = format!("{op:?}"); s.chars().take(60).collect::<String>() }, p.chars().take(300).collect::<String>()),
                        json!({"check":"C04","long":{"len":len,"max":max.to_string()},"ops":[op_to_json(op)]}),
                    );
                }
                // a second operation from the state reached (two-step histories)
                for op2 in [Op::Pop3, Op::Top3, Op::Push(1), Op::Discard(2), Op::Size] {
                    n += 1;
                    if let (_, _, Some(p)) = step(&post, &op2) {
                        run.violation(
                            format!("stack/long/{}", format!("{op2:?}").split('(').next().unwrap_or("op").to_lowercase()),
                            format!("stack of {len} elements (max {max}) after {}: --{op2:?}--> {}", format!("{op:?}").chars().take(40).collect::<String>(), p.chars().take(300).collect::<String>()),
                            json!({"check":"C04","long":{"len":len,"max":max.to_string()},"ops":[op_to_json(op), op_to_json(&op2)]}),
                        );
                    }
                }
            }
        }
    }
    run.bound("long.sizes", json!(sizes));
    run.note("long.transitions", json!(n));
    n
}

pub fn run(run: &mut Run) {
    let (values, max_len, bulk) = if run.quick() {
        (vec![1u8, 2, 3], 7usize, 3usize)
    } else {
        (vec![1u8, 2, 3, 4], 8usize, 3usize)
    };
    let caps = vec![0usize, 1, 2, 3, 4, usize::MAX];
    let mk = || StackModel {
        values: values.clone(),
        max_len,
        bulk_len: bulk,
        caps: caps.clone(),
        transitions: AtomicU64::new(0),
        checked_ok: AtomicU64::new(0),
        violations: Mutex::new(BTreeMap::new()),
        outcome_kinds: Mutex::new(BTreeMap::new()),
    };
    let n_ops = mk().all_ops().len();
    // BFS twice with different thread counts; the unique-state counts must agree
    let c1 = mk().checker().threads(1).spawn_bfs().join();
    let c2 = mk().checker().threads(mcx::par::threads().min(8)).spawn_bfs().join();
    let (u1, u2) = (c1.unique_state_count(), c2.unique_state_count());
    if u1 != u2 {
        run.machinery(format!(
            "stateright unique-state counts differ between runs: {u1} vs {u2}"
        ));
    }
    if !c1.discoveries().is_empty() {
        run.violation(
            "stateright-invariant",
            "size()/contents invariant violated",
            json!({"check":"C04","ops":[]}),
        );
    }
    let m = c1.model();
    run.states = u1 as u64;
    run.transitions = m.transitions.load(Ordering::Relaxed);
    run.traces_validated = m.transitions.load(Ordering::Relaxed);
    run.evaluations = m.transitions.load(Ordering::Relaxed);
    let ln = long_stacks(run) + wide_twin(run);
    run.transitions += ln;
    run.traces_validated += ln;
    run.evaluations += ln;
    let kinds = m.outcome_kinds.lock().unwrap().clone();
    run.distinct_nontrivial = kinds.len() as u64;
    run.rule = "stateright BFS over all reachable (contents, max) states of the real Stack<u8>; every enabled operation is applied to a clone of every state and compared with the Vec+capacity reference on the same pre-state; plus long stacks (254..300 elements, thorough 126..1000; maxima around the size) x an operation list incl. bulk insertions of 255..300 elements, one and two steps deep; distinct_nontrivial = distinct (operation, outcome kind) pairs observed".into();
    run.bound("values", json!(values));
    run.bound("max_contents", json!(max_len));
    run.bound("bulk_list_len", json!(bulk));
    run.bound("capacities", json!(caps.iter().map(|c| c.to_string()).collect::<Vec<_>>()));
    run.bound("operations_per_state", json!(n_ops));
    run.note("max_depth", json!(c1.max_depth()));
    run.note("outcome_kinds", json!(kinds));
    run.note("second_run_unique_states", json!(u2));
    run.assumptions = vec![
        "stateright 0.31 BFS visits every reachable state (cross-checked by a second run with another thread count)".into(),
        "state identity = (contents bottom-first, max_stack_size): these are all the fields of Stack<T>".into(),
        "element type u8 in the BFS; a wide non-Copy element type is run in lock-step with u8 on all short operation sequences (the code is parametric in T)".into(),
    ];
    // vacuity guards
    for needed in [
        "push/overflow",
        "push_many/overflow",
        "try_extend/overflow",
        "pop2/underflow",
        "top3/underflow",
        "discard/underflow",
    ] {
        if !kinds.contains_key(needed) {
            run.machinery(format!("vacuity: outcome kind {needed} never reached"));
        }
    }
    run.sample(json!({"state": {"contents":[1,2], "max":"2"}, "op": op_to_json(&Op::PushMany(vec![3,1])), "expected": "Overflow, unchanged"}));
    run.sample(json!({"ops": [op_to_json(&Op::Push(1)), op_to_json(&Op::TryExtend(vec![2,3], true)), op_to_json(&Op::Top3)], "expected_return":[2,3,1]}));
    for (k, (what, replay)) in m.violations.lock().unwrap().iter() {
        run.violation(format!("stack/{k}"), what.clone(), replay.clone());
    }
    // also merge violations seen only by the second run (same space; should be identical)
    for (k, (what, replay)) in c2.model().violations.lock().unwrap().iter() {
        run.violation(format!("stack/{k}"), what.clone(), replay.clone());
    }
}

/// Replay an operation list from the empty default stack, printing expected vs observed.
pub fn replay(v: &Value) -> bool {
    let ops: Vec<Op> = v["ops"]
        .as_array()
        .map(|a| a.iter().filter_map(op_from_json).collect())
        .unwrap_or_default();
    let mut s: Stack<u8> = Stack::default();
    if let Some(len) = v["long"]["len"].as_u64() {
        let max = v["long"]["max"].as_str().and_then(|m| m.parse::<usize>().ok()).unwrap_or(usize::MAX);
        s = stack_of::<u8>((0..len as usize).map(|i| (i % 251) as u8).collect(), max);
        println!("start: stack of {len} elements, max {max}");
    }
    let mut ok = true;
    for op in &ops {
        let (post, ret, problem) = step(&s, op);
        println!(
            "{:?} -> {:?}; contents {:?} max {}",
            op,
            ret,
            contents(&post),
            post.max_stack_size()
        );
        if let Some(p) = problem {
            println!("MISMATCH: {p}");
            ok = false;
        }
        s = post;
    }
    let _ = stack_of::<u8>(vec![], 0);
    println!("{}", if ok { "replay: property held" } else { "replay: violation reproduced" });
    ok
}
