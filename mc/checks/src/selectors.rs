//! Shared machinery for the selector checks C06, C07, C08, C13 (engine E1).

use ec_core::individual::ec::EcIndividual;
use ec_core::operator::selector::dyn_weighted::DynWeightedError;
use ec_core::operator::selector::lexicase::LexicaseError;
use ec_core::operator::selector::tournament::TournamentSizeError;
use ec_core::operator::selector::{EmptyPopulation, Selector};
use ec_core::test_results::{Error as ErrRes, Score, TestResults};
use ec_core::weighted::error::{SelectionError, WeightedPairError};
use mcx::{Alphabet, ChoiceRng, Env};

pub type Res = TestResults<Score<i64>>;
pub type Ind = EcIndividual<u8, Res>;
pub type Pop = Vec<Ind>;
pub type ResE = TestResults<ErrRes<i64>>;
pub type IndE = EcIndividual<u8, ResE>;
pub type PopE = Vec<IndE>;

pub fn mk_pop(values: &[i64]) -> Pop {
    values
        .iter()
        .map(|v| EcIndividual::new(0u8, TestResults::from(vec![*v])))
        .collect()
}
pub fn mk_pop_matrix(rows: &[Vec<i64>]) -> Pop {
    rows.iter()
        .map(|r| EcIndividual::new(0u8, TestResults::from(r.clone())))
        .collect()
}
pub fn mk_pop_matrix_err(rows: &[Vec<i64>]) -> PopE {
    rows.iter()
        .map(|r| EcIndividual::new(0u8, TestResults::from(r.clone())))
        .collect()
}

#[derive(Clone, Copy, Debug, PartialEq, Eq, Hash, PartialOrd, Ord)]
pub enum ErrKind {
    Empty,
    TournamentSize,
    MissingCase,
    ZeroWeight,
    Other,
}

pub trait KindOf {
    fn kind(&self) -> ErrKind;
    /// the text of the innermost error (Debug where available, else Display)
    fn detail(&self) -> String {
        String::new()
    }
}
impl KindOf for EmptyPopulation {
    fn kind(&self) -> ErrKind {
        ErrKind::Empty
    }
}
impl KindOf for TournamentSizeError {
    fn kind(&self) -> ErrKind {
        ErrKind::TournamentSize
    }
    fn detail(&self) -> String {
        format!("{self:?}")
    }
}
impl KindOf for LexicaseError {
    fn kind(&self) -> ErrKind {
        match self {
            LexicaseError::EmptyPopulation(_) => ErrKind::Empty,
            LexicaseError::MissingTestCase { .. } => ErrKind::MissingCase,
        }
    }
    fn detail(&self) -> String {
        format!("{self:?}")
    }
}
impl<E: KindOf> KindOf for SelectionError<E> {
    fn kind(&self) -> ErrKind {
        match self {
            SelectionError::Selector(e) => e.kind(),
            SelectionError::ZeroWeight(_) => ErrKind::ZeroWeight,
        }
    }
    fn detail(&self) -> String {
        match self {
            SelectionError::Selector(e) => e.detail(),
            SelectionError::ZeroWeight(_) => String::new(),
        }
    }
}
impl<A: KindOf, B: KindOf> KindOf for WeightedPairError<A, B> {
    fn kind(&self) -> ErrKind {
        match self {
            WeightedPairError::A(a) => a.kind(),
            WeightedPairError::B(b) => b.kind(),
        }
    }
    fn detail(&self) -> String {
        match self {
            WeightedPairError::A(a) => a.detail(),
            WeightedPairError::B(b) => b.detail(),
        }
    }
}
pub fn kind_from_text(s: &str) -> ErrKind {
    if s.contains("empty population") {
        ErrKind::Empty
    } else if s.contains("Tournament size") {
        ErrKind::TournamentSize
    } else if s.contains("couldn't access test case") {
        ErrKind::MissingCase
    } else if s.contains("weight zero") || s.to_lowercase().contains("weight") {
        ErrKind::ZeroWeight
    } else {
        ErrKind::Other
    }
}
impl KindOf for DynWeightedError {
    fn kind(&self) -> ErrKind {
        match self {
            DynWeightedError::EmptyPopulation(_) => ErrKind::Empty,
            DynWeightedError::ZeroWeightSum(_) => ErrKind::ZeroWeight,
            DynWeightedError::Other(b) => kind_from_text(&b.to_string()),
        }
    }
    fn detail(&self) -> String {
        match self {
            DynWeightedError::Other(b) => b.to_string(),
            _ => String::new(),
        }
    }
}
impl KindOf for Box<dyn std::error::Error + Send + Sync> {
    fn kind(&self) -> ErrKind {
        kind_from_text(&self.to_string())
    }
    fn detail(&self) -> String {
        self.to_string()
    }
}
impl KindOf for std::convert::Infallible {
    fn kind(&self) -> ErrKind {
        ErrKind::Other
    }
}

#[derive(Clone, Debug, PartialEq, Eq, Hash, PartialOrd, Ord)]
pub enum SelObs {
    /// the result is `&population[i]` (pointer identity)
    Idx(usize),
    Err(ErrKind),
    /// Ok(r) but r is not an element of the population that was passed
    NotMember,
    Panic(String),
}

pub fn index_of<I>(pop: &[I], r: &I) -> Option<usize> {
    pop.iter().position(|x| std::ptr::eq(x, r))
}

thread_local! {
    /// Debug text of the error the last observed selection reported
    pub static LAST_SELECT_ERR: std::cell::RefCell<String> = const { std::cell::RefCell::new(String::new()) };
}
/// The details a reported selector error carries must be true of the call: a tournament-size error names the
/// population size `n` (and the tournament size is larger); a missing-test-case error names an index below the
/// configured count (`cases`, when known) that some individual indeed lacks (`min_results`, when known).
pub fn error_details_wrong(kind: ErrKind, n: usize, cases: Option<usize>, min_results: Option<usize>) -> Option<String> {
    let text = LAST_SELECT_ERR.with(|l| l.borrow().clone());
    // (field name of the Debug rendering, phrase of the Display rendering)
    let field = |names: [&str; 2]| -> Option<usize> {
        let (name, at) = names.iter().find_map(|n| text.find(n).map(|a| (*n, a)))?;
        let at = at + name.len();
        let digits: String = text[at..].chars().skip_while(|c| !c.is_ascii_digit()).take_while(|c| c.is_ascii_digit()).collect();
        digits.parse().ok()
    };
    match kind {
        ErrKind::TournamentSize => {
            let (t, p) = (field(["tournament_size", "Tournament size"])?, field(["population_size", "population size"])?);
            (p != n || t <= n).then(|| format!("the error {text} was reported for a population of {n}"))
        }
        ErrKind::MissingCase => {
            let (total, idx) = (field(["total_cases", "Expected"])?, field(["current_index", "at index"])?);
            let bad = idx >= total || cases.is_some_and(|c| c != total) || min_results.is_some_and(|m| idx < m);
            bad.then(|| format!("the error {text} was reported for {} configured cases{}", cases.map(|c| c.to_string()).unwrap_or_else(|| "?".into()), min_results.map(|m| format!(", every individual has at least {m} results")).unwrap_or_default()))
        }
        _ => None,
    }
}

pub fn observe_select<P, S>(s: &S, pop: &P, slice: &[P::Individual], env: &mut Env, alpha: Alphabet) -> SelObs
where
    P: ec_core::population::Population,
    S: Selector<P>,
    S::Error: KindOf,
{
    let mut rng = ChoiceRng::new(env, alpha);
    match mcx::guarded(|| s.select(pop, &mut rng)) {
        Ok(Ok(r)) => match index_of(slice, r) {
            Some(i) => SelObs::Idx(i),
            None => SelObs::NotMember,
        },
        Ok(Err(e)) => {
            LAST_SELECT_ERR.with(|l| *l.borrow_mut() = e.detail());
            SelObs::Err(e.kind())
        }
        Err(p) => SelObs::Panic(p),
    }
}

/// A selector that returns a fixed element and draws nothing (C13: the
/// delegation target is read off the result).
#[derive(Clone, Copy, Debug)]
pub struct Marker(pub usize);
thread_local! {
    /// the markers that were asked to select since the last `take_marker_calls` (C13: a combination
    /// delegates each selection to exactly one member)
    static MARKER_CALLS: std::cell::RefCell<Vec<usize>> = const { std::cell::RefCell::new(Vec::new()) };
}
pub fn take_marker_calls() -> Vec<usize> {
    MARKER_CALLS.with(|c| std::mem::take(&mut *c.borrow_mut()))
}
impl Selector<Pop> for Marker {
    type Error = EmptyPopulation;
    fn select<'pop, R: rand::Rng + ?Sized>(&self, population: &'pop Pop, _: &mut R) -> Result<&'pop Ind, Self::Error> {
        MARKER_CALLS.with(|c| c.borrow_mut().push(self.0));
        population.get(self.0).ok_or(EmptyPopulation)
    }
}

pub fn all_value_vectors(n: usize, values: &[i64]) -> Vec<Vec<i64>> {
    let mut out = vec![vec![]];
    for _ in 0..n {
        let mut next = vec![];
        for v in &out {
            for x in values {
                let mut w: Vec<i64> = v.clone();
                w.push(*x);
                next.push(w);
            }
        }
        out = next;
    }
    out
}
