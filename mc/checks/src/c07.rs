//! C07 — best, worst and tournament selection apply the intended pressure.
//! Engine E1 with exact rational laws on value classes.

use crate::selectors::*;
use ec_core::operator::selector::best::Best;
use ec_core::operator::selector::tournament::Tournament;
use ec_core::operator::selector::worst::Worst;
use mcx::{binom, explore, lcm_upto, Alphabet, Kind, Law, Ratio, Run};
use serde_json::{json, Value};
use std::num::NonZeroUsize;

const VALUES: [i64; 3] = [10, 20, 30];

struct Case {
    values: Vec<i64>,
    k: usize,
    /// 0: Tournament::new, 1: Tournament::of_size::<K>(), 2: Tournament::binary()
    ctor: u8,
    /// results are errors (lower is better) instead of scores
    errors: bool,
    /// every individual carries two per-case results [10 - v, 2v - 10] (total v): the order of the totals is
    /// the reverse of the lexicographic order of the per-case vectors
    two_case: bool,
    /// grid width when it is not lcm(1..n): binary tournaments on larger populations draw from the
    /// ranges n-1 and n only
    grid: Option<u32>,
}

fn mk_tournament(k: usize, ctor: u8) -> Tournament {
    match (ctor, k) {
        (2, 2) => Tournament::binary(),
        (1, 1) => Tournament::of_size::<1>(),
        (1, 2) => Tournament::of_size::<2>(),
        (1, 3) => Tournament::of_size::<3>(),
        (1, 4) => Tournament::of_size::<4>(),
        (1, 5) => Tournament::of_size::<5>(),
        _ => Tournament::new(NonZeroUsize::new(k).unwrap()),
    }
}

/// explore one (population, k); returns (leaves, violation)
fn tournament_case(c: &Case) -> (u64, u64, Option<(String, String)>, usize) {
    let n = c.values.len();
    // (two_case: odd positions carry three results of the same total: individuals need not have equally many)
    let rows: Vec<Vec<i64>> = c.values.iter().enumerate().map(|(i, v)| if !c.two_case { vec![*v] } else if i % 2 == 0 { vec![10 - v, 2 * v - 10] } else { vec![v - 3, 1, 2] }).collect();
    let pop = mk_pop_matrix(&rows);
    let pop_e = mk_pop_matrix_err(&rows);
    let errors = c.errors;
    // goodness: a score as it is, an error negated (lower is better)
    let g = move |v: i64| if errors { -v } else { v };
    let sel = mk_tournament(c.k, c.ctor);
    let m = c.grid.unwrap_or(lcm_upto(n as u128) as u32);
    let mut law: Law<i64> = Law::new();
    let mut pos_law: Law<usize> = Law::new();
    let mut bad: Option<String> = None;
    let mut max_draws = 0usize;
    let label0 = format!("{}={:?}{} k={}", if c.errors { "errors" } else { "values" }, c.values, if c.two_case { " (totals of two cases)" } else { "" }, c.k);
    // per-leaf consequence stated by the property: the winner is at least as good as k-1 other members.
    // Checked first on every stream with at most two non-default words (always terminates: beyond a
    // horizon the words come from the tail stream), so that a sampler that loops or repeats entrants is
    // reported before the exact law below is attempted
    if c.k <= n {
        let mut weak: Option<String> = None;
        mcx::explore_bounded_h(
            |env| if errors { observe_select(&sel, &pop_e, &pop_e, env, Alphabet::Grid(m)) } else { observe_select(&sel, &pop, &pop, env, Alphabet::Grid(m)) },
            |t, o| {
                if let SelObs::Idx(i) = o {
                    let others_not_better = c.values.iter().enumerate().filter(|(j, v)| *j != i && g(**v) <= g(c.values[i])).count();
                    if others_not_better + 1 < c.k && weak.is_none() {
                        weak = Some(format!("word choices {:?}: the winner (value {}) is at least as good as only {others_not_better} other members, a tournament of {} needs {}", t.iter().map(|x| x.pick).collect::<Vec<_>>(), c.values[i], c.k, c.k - 1));
                    }
                }
            },
            2,
            40,
            200_000,
        );
        if let Some(w) = weak {
            return (1, 0, Some((format!("tournament/weak-winner/k={}", c.k), format!("{label0}: {w}"))), 0);
        }
    }
    // a correct tournament of k makes exactly k range draws: lcm^k executions; far beyond that the subject
    // samples differently (e.g. with rejection) and the exact law is not attempted
    let expected_leaves = (m as u64).saturating_pow(c.k as u32);
    let stats = explore(
        |env| {
            let o = if errors { observe_select(&sel, &pop_e, &pop_e, env, Alphabet::Grid(m)) } else { observe_select(&sel, &pop, &pop, env, Alphabet::Grid(m)) };
            (o, env.signature())
        },
        |_, w, (o, sig)| {
            max_draws = max_draws.max(sig.len());
            if sig.iter().any(|k| *k != Kind::U32) && bad.is_none() {
                bad = Some(format!("draw signature {sig:?}: the Grid alphabet argument covers 32-bit range draws only"));
            }
            match o {
                SelObs::Idx(i) => {
                    law.add(c.values[i], w);
                    pos_law.add(i, w);
                }
                other => {
                    if bad.is_none() {
                        bad = Some(format!("unexpected result {other:?}"));
                    }
                }
            }
        },
        expected_leaves.saturating_mul(8).saturating_add(10_000).min(50_000_000),
    );
    let label = label0.clone();
    if let Some(d) = &stats.diverged {
        return (stats.leaves, stats.choice_points, Some((format!("tournament/nondeterministic/k={}", c.k), format!("{label}: {d}"))), law.mass.len());
    }
    if stats.capped || !stats.total_weight_is_one {
        return (stats.leaves, stats.choice_points, Some(("machinery/cap".into(), format!("{label}: exploration capped or weights do not sum to 1"))), 0);
    }
    if let Some(b) = bad {
        let key = if b.starts_with("draw signature") { "machinery/signature".to_string() } else { format!("tournament/result/k={}", c.k) };
        return (stats.leaves, stats.choice_points, Some((key, format!("{label}: {b}"))), 0);
    }
    // exact law on value classes
    let mut want: Law<i64> = Law::new();
    let total = binom(n as u128, c.k as u128);
    let mut classes: Vec<i64> = c.values.clone();
    classes.sort();
    classes.dedup();
    for v in classes {
        let le = c.values.iter().filter(|x| g(**x) <= g(v)).count() as u128;
        let lt = c.values.iter().filter(|x| g(**x) < g(v)).count() as u128;
        let num = binom(le, c.k as u128) - binom(lt, c.k as u128);
        want.add(v, Ratio::new(num, total));
    }
    if want != law {
        return (
            stats.leaves,
            stats.choice_points,
            Some((
                format!("tournament/law/n={n}/k={}", c.k),
                format!("{label}: winner-value law {} but a size-{} tournament over uniformly chosen distinct individuals gives {}", law.render(), c.k, want.render()),
            )),
            law.mass.len(),
        );
    }
    if c.k == 1 {
        let each = Ratio::new(1, n as u128);
        if pos_law.mass.len() != n || pos_law.mass.values().any(|p| *p != each) {
            return (
                stats.leaves,
                stats.choice_points,
                Some((format!("tournament/k1-uniform/n={n}"), format!("{label}: size-1 tournament position law {} is not uniform", pos_law.render()))),
                law.mass.len(),
            );
        }
    }
    (stats.leaves, stats.choice_points, None, law.mass.len())
}

fn permutations(v: &mut Vec<i64>, i: usize, out: &mut Vec<Vec<i64>>) {
    if i == v.len() {
        out.push(v.clone());
        return;
    }
    for j in i..v.len() {
        v.swap(i, j);
        permutations(v, i + 1, out);
        v.swap(i, j);
    }
}

pub fn run(run: &mut Run) {
    if let Err(e) = mcx::rng::calibrate() {
        run.machinery(format!("calibration failed: {e}"));
        return;
    }
    let quick = run.quick();
    // Best / Worst: every population of size 1..6 over 3 values
    let mut bw = 0u64;
    for n in 1..=6 {
        for values in all_value_vectors(n, &VALUES) {
            let pop = mk_pop(&values);
            let mx = *values.iter().max().unwrap();
            let mn = *values.iter().min().unwrap();
            for (name, want, obs) in [
                ("best", mx, {
                    let mut env = mcx::Env::new(vec![]);
                    let o = observe_select(&Best, &pop, &pop, &mut env, Alphabet::Grid(2));
                    (o, env.draws())
                }),
                ("worst", mn, {
                    let mut env = mcx::Env::new(vec![]);
                    let o = observe_select(&Worst, &pop, &pop, &mut env, Alphabet::Grid(2));
                    (o, env.draws())
                }),
                ("best(two cases)", mx, {
                    let p2 = mk_pop_matrix(&values.iter().enumerate().map(|(i, v)| if i % 2 == 0 { vec![10 - v, 2 * v - 10] } else { vec![v - 3, 1, 2] }).collect::<Vec<_>>());
                    let mut env = mcx::Env::new(vec![]);
                    let o = observe_select(&Best, &p2, &p2, &mut env, Alphabet::Grid(2));
                    (o, env.draws())
                }),
                ("worst(two cases)", mn, {
                    let p2 = mk_pop_matrix(&values.iter().enumerate().map(|(i, v)| if i % 2 == 1 { vec![10 - v, 2 * v - 10] } else { vec![v - 3, 1, 2] }).collect::<Vec<_>>());
                    let mut env = mcx::Env::new(vec![]);
                    let o = observe_select(&Worst, &p2, &p2, &mut env, Alphabet::Grid(2));
                    (o, env.draws())
                }),
                ("best(errors)", mn, {
                    let pe = mk_pop_matrix_err(&values.iter().map(|v| vec![*v]).collect::<Vec<_>>());
                    let mut env = mcx::Env::new(vec![]);
                    let o = observe_select(&Best, &pe, &pe, &mut env, Alphabet::Grid(2));
                    (o, env.draws())
                }),
                ("worst(errors)", mx, {
                    let pe = mk_pop_matrix_err(&values.iter().map(|v| vec![*v]).collect::<Vec<_>>());
                    let mut env = mcx::Env::new(vec![]);
                    let o = observe_select(&Worst, &pe, &pe, &mut env, Alphabet::Grid(2));
                    (o, env.draws())
                }),
            ] {
                bw += 1;
                let ok = matches!(obs.0, SelObs::Idx(i) if values[i] == want);
                if !ok {
                    run.violation(
                        format!("{name}/extremal"),
                        format!("{name} on values {values:?} returned {:?}, expected an individual of value {want}", obs.0),
                        json!({"check":"C07","scenario":name,"values":values}),
                    );
                }
            }
        }
    }
    // Tournament
    let mut cases = vec![];
    let max_n = if quick { 5 } else { 7 };
    // representative populations for the sizes / tournament sizes whose full product is too large:
    // all distinct (ascending, descending, shuffled), all equal, two and three value classes
    let family = |n: usize| -> Vec<Vec<i64>> {
        let asc: Vec<i64> = (1..=n as i64).collect();
        let desc: Vec<i64> = asc.iter().rev().copied().collect();
        let mut zig: Vec<i64> = vec![];
        for i in 0..n {
            zig.push(if i % 2 == 0 { (i / 2 + 1) as i64 } else { (n - i / 2) as i64 });
        }
        let two: Vec<i64> = (0..n).map(|i| if i < n / 2 { 1 } else { 2 }).collect();
        let two_rev: Vec<i64> = two.iter().rev().copied().collect();
        let three: Vec<i64> = (0..n).map(|i| (i % 3) as i64 + 1).collect();
        let one_best_last: Vec<i64> = (0..n).map(|i| if i + 1 == n { 2 } else { 1 }).collect();
        let one_best_first: Vec<i64> = (0..n).map(|i| if i == 0 { 2 } else { 1 }).collect();
        vec![asc, desc, zig, vec![1; n], two, two_rev, three, one_best_last, one_best_first]
    };
    for n in 1..=max_n {
        for k in 1..=n {
            // execution budget per case: lcm(1..n)^k leaves
            let leaves = (mcx::lcm_upto(n as u128) as f64).powi(k as i32);
            if leaves > if quick { 3.0e5 } else { 2.0e7 } {
                continue;
            }
            let full = n <= 4 || (n == 5 && k <= 3) || (!quick && n == 6 && k <= 2);
            if full {
                for values in all_value_vectors(n, &VALUES) {
                    cases.push(Case { values, k, ctor: 0, errors: false, two_case: false, grid: None });
                }
            }
            // every ordering of n distinct values (positions matter to a sampler, values to the law)
            if n <= 5 && leaves <= 3.0e5 {
                let mut perm: Vec<i64> = (1..=n as i64).collect();
                let mut all = vec![];
                permutations(&mut perm, 0, &mut all);
                for values in all {
                    if !full || n >= 4 {
                        cases.push(Case { values, k, ctor: 0, errors: false, two_case: false, grid: None });
                    }
                }
            }
            if !full {
                for values in family(n) {
                    cases.push(Case { values, k, ctor: 0, errors: false, two_case: false, grid: None });
                }
            }
        }
    }
    // binary tournaments (the common configuration) on larger populations: the grid n(n-1) resolves the two
    // range draws of a sampler of 2 distinct out of n exactly
    let max_binary = if quick { 24 } else { 48 };
    for n in (max_n + 1)..=max_binary {
        for values in family(n) {
            cases.push(Case { values, k: 2, ctor: if n % 2 == 0 { 2 } else { 0 }, errors: n % 3 == 0, two_case: false, grid: Some((n * (n - 1)) as u32) });
        }
    }
    cases.sort_by(|a, b| (a.values.len(), a.k, &a.values).cmp(&(b.values.len(), b.k, &b.values)));
    cases.dedup_by(|a, b| a.values == b.values && a.k == b.k);
    // the other constructors (const-generic size, binary) on the populations of up to 4
    let mut more = vec![];
    for c in cases.iter().filter(|c| c.values.len() <= 4) {
        more.push(Case { values: c.values.clone(), k: c.k, ctor: 1, errors: false, two_case: false, grid: None });
        more.push(Case { values: c.values.clone(), k: c.k, ctor: 0, errors: true, two_case: false, grid: None });
        more.push(Case { values: c.values.clone(), k: c.k, ctor: 0, errors: false, two_case: true, grid: None });
        more.push(Case { values: c.values.clone(), k: c.k, ctor: 0, errors: true, two_case: true, grid: None });
        if c.k == 2 {
            more.push(Case { values: c.values.clone(), k: 2, ctor: 2, errors: false, two_case: false, grid: None });
        }
    }
    cases.extend(more);
    let results = mcx::par_map(cases.len(), |i| tournament_case(&cases[i]));
    let mut nontrivial = 0u64;
    for (i, (leaves, cps, v, outcomes)) in results.into_iter().enumerate() {
        run.evaluations += leaves;
        run.transitions += cps;
        if outcomes > 1 {
            nontrivial += 1;
        }
        if let Some((k, w)) = v {
            if k.starts_with("machinery/") {
                run.machinery(w);
            } else {
                run.violation(k, w, json!({"check":"C07","scenario":"tournament","values":cases[i].values,"k":cases[i].k,"ctor":cases[i].ctor,"errors":cases[i].errors,"two_case":cases[i].two_case,"grid":cases[i].grid}));
            }
        }
    }
    crate::bigpop::run_family(run, crate::bigpop::BigMode::Order);
    crate::bigpop::binary_pair_law(run);
    run.states = cases.len() as u64 + bw;
    run.evaluations += bw;
    run.transitions += bw;
    run.traces_validated = run.evaluations;
    run.distinct_nontrivial = nontrivial;
    run.rule = "every population of size 1..n over 3 values (ties included) x every tournament size (Tournament::new; for n <= 4 also of_size::<K>(), binary(), individuals whose results are errors, lower is better, and individuals with two or three per-case results - not equally many - whose lexicographic order is the reverse of the order of their totals); Best/Worst likewise on scores and on errors; all grid word sequences explored on the real Tournament::select; the accumulated winner-value law is compared, as exact rationals, with [C(#<=v,k)-C(#<v,k)]/C(n,k); plus large populations (big.population_sizes, 10 structured populations): Best/Worst extremal, tournament sizes {1,2,3,7,11,12,16,17,31..33,64,65,162..164,n/65,n/64,n/3,n/2,n-2,n-1,n,n+1} with the every-stream consequences 'the winner is at least as good as k-1 other members' and 'at least k distinct individuals were compared' (individuals whose comparisons are recorded) on all streams of big.streams and the exact uniform law of the size-1 tournament; non-trivial = (population, k) scenarios whose law has more than one outcome".into();
    run.bound("max_population", json!(max_n));
    run.bound("tournament_sizes", json!("every k with lcm(1..n)^k executions within the per-case budget (3e5 quick, 2e7 thorough); full population product for n<=4, n=5 k<=3 (thorough n=6 k<=2); all orderings of distinct values for n<=5; a 9-member population family otherwise"));
    run.bound("binary_tournament_law_population_sizes", json!(format!("{}..={max_binary} (9-member population family, grid n(n-1))", max_n + 1)));
    run.bound("best_worst_population_sizes", json!("1..=6"));
    run.bound("alphabet", json!("Grid(lcm(1..n))"));
    run.assumptions = vec![
        "rand 0.9 samplers map grid cells to decisions as characterised by the calibration run at start-up".into(),
        "which of several equal individuals is returned is not compared (laws are on value classes)".into(),
    ];
    run.sample(json!({"values":[10,20,30,30],"k":2,"law":"P(10)=0, P(20)=1/6, P(30)=5/6"}));
    run.sample(json!({"values":[10,20,30],"k":1,"law":"each position 1/3"}));
}

pub fn replay(v: &Value) -> bool {
    if v["big"] == json!(true) {
        return crate::bigpop::replay(crate::bigpop::BigMode::Order, v);
    }
    let values: Vec<i64> = v["values"].as_array().map(|a| a.iter().filter_map(|x| x.as_i64()).collect()).unwrap_or_default();
    match v["scenario"].as_str() {
        Some("tournament") => {
            let k = v["k"].as_u64().unwrap_or(1) as usize;
            let (leaves, _, viol, _) = tournament_case(&Case { values: values.clone(), k, ctor: v["ctor"].as_u64().unwrap_or(0) as u8, errors: v["errors"].as_bool().unwrap_or(false), two_case: v["two_case"].as_bool().unwrap_or(false), grid: v["grid"].as_u64().map(|g| g as u32) });
            println!("tournament of size {k} on values {values:?}: {leaves} executions explored");
            match viol {
                Some((key, w)) => {
                    println!("MISMATCH [{key}]: {w}");
                    false
                }
                None => {
                    println!("replay: property held");
                    true
                }
            }
        }
        Some(name) => {
            let errors = name.contains("errors");
            let best = name.starts_with("best");
            let mut env = mcx::Env::new(vec![]);
            let o = if errors {
                let pe = mk_pop_matrix_err(&values.iter().map(|v| vec![*v]).collect::<Vec<_>>());
                if best { observe_select(&Best, &pe, &pe, &mut env, Alphabet::Grid(2)) } else { observe_select(&Worst, &pe, &pe, &mut env, Alphabet::Grid(2)) }
            } else {
                let pop = mk_pop(&values);
                if best { observe_select(&Best, &pop, &pop, &mut env, Alphabet::Grid(2)) } else { observe_select(&Worst, &pop, &pop, &mut env, Alphabet::Grid(2)) }
            };
            println!("{name} on {values:?} -> {o:?}");
            let want = if best != errors { values.iter().max() } else { values.iter().min() };
            matches!(o, SelObs::Idx(i) if Some(&values[i]) == want)
        }
        None => false,
    }
}
