//! C01 (reference oracle) and C02 (reference-free oracle) share the exploration
//! of the Push VM:  (a) stateright BFS over instruction sequences,  (b) the
//! boundary-state product,  (c) the interpreter level (in `interp.rs`).

use crate::pushref::*;
use crate::vm::*;
use mcx::Run;
use push::instruction::PushInstruction;
use push::push_vm::program::PushProgram;
use push::push_vm::push_state::PushState;
use push::push_vm::State;
use serde_json::{json, Value};
use stateright::{Checker, Model, Property};
use std::collections::BTreeMap;
use std::hash::{Hash, Hasher};
use std::sync::atomic::{AtomicU64, Ordering};
use std::sync::Mutex;

#[derive(Clone, Copy, PartialEq, Eq, Debug)]
pub enum Mode {
    C01,
    C02,
}

#[derive(Default, Clone, Debug)]
pub struct Stats {
    pub transitions: u64,
    /// instruction name -> [ok, skip, fatal]
    pub rows: BTreeMap<String, [u64; 3]>,
    pub states: u64,
}

impl Stats {
    pub fn merge(&mut self, o: &Stats) {
        self.transitions += o.transitions;
        self.states += o.states;
        for (k, v) in &o.rows {
            let e = self.rows.entry(k.clone()).or_default();
            for i in 0..3 {
                e[i] += v[i];
            }
        }
    }
    fn count(&mut self, name: &str, k: Kind) {
        let e = if let Some(e) = self.rows.get_mut(name) {
            e
        } else {
            self.rows.entry(name.to_string()).or_default()
        };
        e[match k {
            Kind::Ok => 0,
            Kind::Skip => 1,
            Kind::Fatal => 2,
        }] += 1;
    }
}

pub fn rstate_json(r: &RState) -> Value {
    json!({
        "exec": r.exec.iter().map(|p| format!("{p:?}")).collect::<Vec<_>>(),
        "int": r.int.iter().map(|i| i.to_string()).collect::<Vec<_>>(),
        "float": r.float.iter().map(|f| format!("{f:?}")).collect::<Vec<_>>(),
        "bool": r.boolean,
        "out": String::from_utf8_lossy(&r.out),
        "caps": r.caps.iter().map(|c| c.to_string()).collect::<Vec<_>>(),
    })
}

/// One checked `perform` on the real code.  Returns a violation (key, what) if any.
pub fn check_perform(
    mode: Mode,
    pre_real: &PushState,
    pre_ref: &RState,
    instr: &PushInstruction,
    name: &str,
    stats: &mut Stats,
) -> (Option<(String, String)>, Option<RealOutcome>) {
    stats.transitions += 1;
    let real = match mcx::guarded(|| instr.perform_on(pre_real.clone())) {
        Ok(r) => classify(r),
        Err(p) => {
            return (
                Some((
                    format!("perform/{name}/panic"),
                    format!("{name} panicked in state {}: {p}", rstate_json(pre_ref)),
                )),
                None,
            )
        }
    };
    stats.count(name, real.kind);
    if let Some(p) = &real.accessor_problem {
        return (Some((format!("perform/{name}/error-accessors"), format!("{name} in state {} failed with {}: {p}", rstate_json(pre_ref), real.error.clone().unwrap_or_default()))), Some(real));
    }
    match mode {
        Mode::C02 => {
            if real.kind != Kind::Ok && real.state != *pre_real {
                return (
                    Some((
                        format!("perform/{name}/state-changed-on-{:?}", real.kind),
                        format!(
                            "{name} failed ({:?}, {}) but the carried state differs from the state before: before {} after {}",
                            real.kind,
                            real.error.clone().unwrap_or_default(),
                            rstate_json(pre_ref),
                            rstate_json(&observe(&real.state))
                        ),
                    )),
                    Some(real),
                );
            }
            (None, Some(real))
        }
        Mode::C01 => {
            let adm = match ref_perform(pre_ref, instr) {
                Ok(a) => a,
                Err(e) => return (Some((format!("machinery/{name}"), e)), Some(real)),
            };
            if !matches_some(&real, &adm) {
                let exp: Vec<Value> = adm
                    .iter()
                    .map(|o| json!({"kind": format!("{:?}", o.kind), "state": rstate_json(&o.st)}))
                    .collect();
                return (
                    Some((
                        format!("perform/{name}"),
                        format!(
                            "{name} in state {} gave {:?} {} with state {}; the semantics admit {}",
                            rstate_json(pre_ref),
                            real.kind,
                            real.error.clone().unwrap_or_default(),
                            rstate_json(&observe(&real.state)),
                            Value::Array(exp)
                        ),
                    )),
                    Some(real),
                );
            }
            (None, Some(real))
        }
    }
}

/// announce to the hang watchdog: `instrs[sub]` is about to be performed in `pre`
pub fn announce(mode: Mode, pre: &RState, names: std::sync::Arc<Vec<String>>) {
    let st = pre.clone();
    mcx::watch::enter(Box::new(move |sub| {
        let name = names.get(sub).cloned().unwrap_or_default();
        (
            format!("perform/{name}/hang"),
            format!("{name} in state {}", rstate_json(&st)),
            json!({"check": format!("{mode:?}"), "kind": "perform", "state": rstate_json(&st), "state_full": rstate_ser(&st), "instruction": name}),
        )
    }));
}

pub trait PerformOn {
    fn perform_on(
        &self,
        s: PushState,
    ) -> Result<PushState, push::error::Error<PushState, push::instruction::instruction_error::PushInstructionError>>;
}
impl PerformOn for PushInstruction {
    fn perform_on(
        &self,
        s: PushState,
    ) -> Result<PushState, push::error::Error<PushState, push::instruction::instruction_error::PushInstructionError>>
    {
        // through the State trait's own entry point
        s.perform(&PushProgram::Instruction(self.clone()))
    }
}

fn seqs<T: Clone>(alpha: &[T], max_len: usize) -> Vec<Vec<T>> {
    let mut out = vec![vec![]];
    let mut layer: Vec<Vec<T>> = vec![vec![]];
    for _ in 0..max_len {
        let mut next = vec![];
        for l in &layer {
            for v in alpha {
                let mut l2 = l.clone();
                l2.push(v.clone());
                next.push(l2);
            }
        }
        out.extend(next.iter().cloned());
        layer = next;
    }
    out
}

pub fn cap_patterns(sizes: [usize; 4]) -> Vec<[usize; 4]> {
    let roomy = 8usize;
    let mut v = vec![[roomy; 4]];
    for i in 0..4 {
        let mut c = [roomy; 4];
        c[i] = sizes[i];
        v.push(c);
    }
    for i in 0..4 {
        let mut c = [roomy; 4];
        c[i] = sizes[i] + 1;
        v.push(c);
    }
    v.push(sizes);
    v
}

pub struct Alphabet {
    pub instrs: Vec<(String, PushInstruction)>,
}

pub fn instruction_alphabet(full: bool) -> Alphabet {
    let mut instrs: Vec<(String, PushInstruction)> = vec![];
    for i in all_instructions() {
        instrs.push((instr_name(&i), i));
    }
    for i in input_instructions() {
        instrs.push((format!("Input-{}", instr_name(&i)), i));
    }
    for i in literal_pushes(full) {
        let n = instr_name(&i);
        if !instrs.iter().any(|(m, _)| *m == n) {
            instrs.push((n, i));
        }
    }
    Alphabet { instrs }
}

/// (b) the boundary-state product
pub fn boundary_product(mode: Mode, run: &mut Run) -> Stats {
    let quick = run.quick();
    let ints: Vec<i64> = if quick {
        vec![0, -1, -3, i64::MIN, i64::MAX]
    } else {
        vec![0, 1, -1, -3, i64::MIN, i64::MAX]
    };
    let floats: Vec<f64> = if quick {
        vec![-0.0, 1.5, f64::NAN]
    } else {
        vec![0.0, -0.0, 1.5, f64::NAN, f64::NEG_INFINITY]
    };
    let execs: Vec<PushProgram> = vec![exec_items()[0].clone(), exec_items()[2].clone()];
    let int_seqs = seqs(&ints, 3);
    let float_seqs = seqs(&floats, 2);
    let bool_seqs = seqs(&[true, false], 2);
    let exec_seqs = seqs(&execs, 2);
    let alpha = instruction_alphabet(!quick);
    run.bound("b.int_values", json!(ints.iter().map(|i| i.to_string()).collect::<Vec<_>>()));
    run.bound("b.float_values", json!(floats.iter().map(|f| format!("{f:?}")).collect::<Vec<_>>()));
    run.bound("b.int_stack_len", json!(3));
    run.bound("b.float_bool_exec_stack_len", json!(2));
    run.bound("b.capacity_patterns", json!(10));
    run.bound("b.instructions", json!(alpha.instrs.len()));
    let names: std::sync::Arc<Vec<String>> = std::sync::Arc::new(alpha.instrs.iter().map(|(n, _)| n.clone()).collect());
    let shards: Vec<(usize, usize)> = (0..int_seqs.len())
        .flat_map(|i| (0..float_seqs.len()).map(move |f| (i, f)))
        .collect();
    let results = mcx::par_map(shards.len(), |k| {
        let (ii, fi) = shards[k];
        let mut st = Stats::default();
        let mut viols: Vec<(String, String, Value)> = vec![];
        for bs in &bool_seqs {
            for es in &exec_seqs {
                let base = RState {
                    exec: es.clone(),
                    int: int_seqs[ii].clone(),
                    float: float_seqs[fi].clone(),
                    boolean: bs.clone(),
                    out: vec![],
                    caps: [8; 4],
                    inputs: default_inputs(),
                };
                let real_base = make_real(&base, 100);
                for caps in cap_patterns(base.sizes()) {
                    let mut pre_ref = base.clone();
                    pre_ref.caps = caps;
                    let mut pre_real = real_base.clone();
                    set_caps(&mut pre_real, caps);
                    st.states += 1;
                    announce(mode, &pre_ref, names.clone());
                    for (ix, (name, instr)) in alpha.instrs.iter().enumerate() {
                        mcx::watch::step(ix);
                        let (v, _) = check_perform(mode, &pre_real, &pre_ref, instr, name, &mut st);
                        if let Some((key, what)) = v {
                            if viols.len() < 50 {
                                viols.push((
                                    key,
                                    what,
                                    json!({"check": format!("{mode:?}"), "kind": "perform", "state": rstate_json(&pre_ref), "state_full": rstate_ser(&pre_ref), "instruction": name}),
                                ));
                            }
                        }
                    }
                }
            }
        }
        (st, viols)
    });
    let mut total = Stats::default();
    for (st, viols) in results {
        total.merge(&st);
        for (k, w, r) in viols {
            run.violation(k, w, r);
        }
    }
    total
}

/// (d) operand value sweep: every int instruction on every ordered triple, every float
/// instruction on every ordered pair of a *wide* value alphabet (powers of two, the square and
/// cube roots of i64::MAX, the u32 boundary of exponents, halves of the extremes, subnormals,
/// the i64 boundary among floats, negative NaN, ...), on roomy stacks.  Complements (b), whose
/// value alphabet is small because it is multiplied with stack shapes and capacity patterns.
pub fn wide_ints(quick: bool) -> Vec<i64> {
    let mut v: Vec<i64> = vec![
        0, 1, -1, 2, -2, 3, -3, 4, 7, -7, 10, 62, 63, 64, 65,
        (1 << 31) - 1, 1 << 31, (1 << 32) - 1, 1 << 32, (1 << 32) + 1,
        2_097_151, 2_097_152, 3_037_000_499, 3_037_000_500, -3_037_000_500,
        i64::MAX, i64::MAX - 1, i64::MIN, i64::MIN + 1, i64::MAX / 2, i64::MAX / 2 + 1, i64::MIN / 2, i64::MIN / 2 - 1,
    ];
    if !quick {
        v.extend([5, -4, 9, 16, 31, 32, 33, 100, -100, 1 << 53, (1 << 53) + 1, 1 << 62, -(1 << 62), 4_294_967_297, 6_074_000_999, -(1 << 31), -(1 << 32)]);
    }
    v
}
pub fn wide_floats(quick: bool) -> Vec<f64> {
    let mut v: Vec<f64> = vec![
        0.0, -0.0, 1.0, -1.0, 1.5, -2.0, 0.5, 2.5, -2.5, 0.1, 0.2, 3.0,
        1e308, -1e308, f64::MAX, f64::MIN, f64::MIN_POSITIVE, 5e-324, -5e-324, 1e-320,
        f64::INFINITY, f64::NEG_INFINITY, f64::NAN, -f64::NAN,
        9.223372036854775e18, 9.223372036854776e18, -9.223372036854776e18, -9.223372036854778e18, 9007199254740993.0, 0.9999999999999999, -0.9999999999999999,
    ];
    if !quick {
        v.extend([1e-300, 1e300, -1e300, 123456.789, -7.25, 4503599627370496.5, 2147483648.5, -2147483649.5, f64::EPSILON, 1e19, -1e19]);
    }
    v
}
/// every power of two and its neighbours, their negatives, the powers of ten, and a few values without
/// structure: operands on which a shift, mask, digit or special-case shortcut would show
pub fn pattern_ints() -> Vec<i64> {
    let mut v: Vec<i64> = vec![];
    for k in 0..63u32 {
        let p = 1i64 << k;
        v.extend([p, p - 1, p + 1, -p, -p - 1, 1 - p]);
    }
    v.extend([i64::MIN, i64::MAX, i64::MIN + 1, i64::MAX - 1]);
    let mut t = 1i64;
    for _ in 0..19 {
        v.extend([t, -t, t - 1]);
        t = t.saturating_mul(10);
    }
    v.extend([12_345, 1_000_003, 3_037_000_499, 3_037_000_500, 6_700_417, 0x5555_5555_5555_5555, 0x3333_3333_3333_3333, -0x0123_4567_89ab_cdef, 600_851_475_143, 37, 1009]);
    v.sort();
    v.dedup();
    v
}
pub fn pattern_floats() -> Vec<f64> {
    let mut v: Vec<f64> = vec![];
    for k in (-1074i32..=1023).step_by(7).chain([-1074, -1023, -1022, -53, -52, -1, 0, 1, 31, 32, 52, 53, 62, 63, 64, 1023]) {
        let p = 2f64.powi(k);
        v.extend([p, -p]);
    }
    for k in [31i32, 32, 52, 53, 62, 63, 64] {
        let p = 2f64.powi(k);
        v.extend([p - 1.0, p + 1.0, -(p + 1.0), p * (1.0 - f64::EPSILON), p * (1.0 + f64::EPSILON), -p * (1.0 + f64::EPSILON), p + 0.5, p - 0.5]);
    }
    v.extend([0.1, 1.0 / 3.0, std::f64::consts::PI, std::f64::consts::E, 1e15, 1e16, 123456.789, -7.25, 0.5, 1.5, 2.5, -0.5, -1.5, f64::from_bits(0x7ff8_0000_0000_0001), f64::from_bits(0xfff0_0000_0000_0001)]);
    v.sort_by(|a, b| a.to_bits().cmp(&b.to_bits()));
    v.dedup_by(|a, b| a.to_bits() == b.to_bits());
    v
}

pub fn value_sweep(mode: Mode, run: &mut Run) -> Stats {
    let quick = run.quick();
    let ints = wide_ints(quick);
    let floats = wide_floats(quick);
    let alpha = instruction_alphabet(true);
    let int_instrs: Vec<&(String, PushInstruction)> = alpha.instrs.iter().filter(|(_, i)| matches!(i, PushInstruction::IntInstruction(_) | PushInstruction::BoolInstruction(_))).collect();
    let float_instrs: Vec<&(String, PushInstruction)> = alpha.instrs.iter().filter(|(_, i)| matches!(i, PushInstruction::FloatInstruction(_)) || format!("{i}").contains("FromFloat")).collect();
    run.bound("d.wide_int_values", json!(ints.len()));
    run.bound("d.wide_float_values", json!(floats.len()));
    run.bound("d.shape", json!("ints: all ordered triples (top, second, third); floats: all ordered pairs; each with both booleans on the bool stack; roomy capacities"));
    let int_names: std::sync::Arc<Vec<String>> = std::sync::Arc::new(int_instrs.iter().map(|(n, _)| n.clone()).collect());
    let float_names: std::sync::Arc<Vec<String>> = std::sync::Arc::new(float_instrs.iter().map(|(n, _)| n.clone()).collect());
    let one = |st: &mut Stats, viols: &mut Vec<(String, String, Value)>, base: &RState, instrs: &[&(String, PushInstruction)], names: &std::sync::Arc<Vec<String>>| {
        let real = make_real(base, 100);
        st.states += 1;
        announce(mode, base, names.clone());
        for (ix, (name, instr)) in instrs.iter().enumerate() {
            mcx::watch::step(ix);
            let (v, _) = check_perform(mode, &real, base, instr, name, st);
            if let Some((key, what)) = v {
                if viols.len() < 50 {
                    viols.push((key, what, json!({"check": format!("{mode:?}"), "kind": "perform", "state": rstate_json(base), "state_full": rstate_ser(base), "instruction": name})));
                }
            }
        }
    };
    let results = mcx::par_map(ints.len() + floats.len(), |k| {
        let mut st = Stats::default();
        let mut viols: Vec<(String, String, Value)> = vec![];
        let mut base = RState::empty([16; 4]);
        base.inputs = default_inputs();
        if k < ints.len() {
            let z = ints[k];
            for y in &ints {
                for x in &ints {
                    for b in [true, false] {
                        base.int = vec![z, *y, *x];
                        base.float = vec![floats[k % floats.len()]];
                        base.boolean = vec![b];
                        one(&mut st, &mut viols, &base, &int_instrs, &int_names);
                    }
                }
            }
        } else {
            let y = floats[k - ints.len()];
            for x in &floats {
                base.int = vec![ints[k % ints.len()]];
                base.float = vec![1.25, y, *x];
                base.boolean = vec![k % 2 == 0];
                one(&mut st, &mut viols, &base, &float_instrs, &float_names);
            }
        }
        mcx::watch::leave();
        (st, viols)
    });
    let mut total = Stats::default();
    for (st, viols) in results {
        total.merge(&st);
        for (k, w, r) in viols {
            run.violation(k, w, r);
        }
    }
    // all ordered pairs of the pattern values (third operand fixed), every int / bool instruction; likewise floats
    {
        let pints = pattern_ints();
        let pfloats = pattern_floats();
        let res2 = mcx::par_map(pints.len() + pfloats.len(), |k| {
            let mut st = Stats::default();
            let mut viols: Vec<(String, String, Value)> = vec![];
            let mut base = RState::empty([16; 4]);
            base.inputs = default_inputs();
            if k < pints.len() {
                let y = pints[k];
                for x in &pints {
                    base.int = vec![-5, y, *x];
                    base.float = vec![0.5];
                    base.boolean = vec![k % 2 == 0];
                    one(&mut st, &mut viols, &base, &int_instrs, &int_names);
                }
            } else {
                let y = pfloats[k - pints.len()];
                for x in &pfloats {
                    base.int = vec![3];
                    base.float = vec![1.25, y, *x];
                    base.boolean = vec![k % 2 == 0];
                    one(&mut st, &mut viols, &base, &float_instrs, &float_names);
                }
            }
            mcx::watch::leave();
            (st, viols)
        });
        for (st, viols) in res2 {
            total.merge(&st);
            for (k, w, r) in viols {
                run.violation(k, w, r);
            }
        }
        run.bound("d.pattern_int_values", json!(pints.len()));
        run.bound("d.pattern_float_values", json!(pfloats.len()));
    }
    run.note("d.states", json!(total.states));
    run.note("d.transitions", json!(total.transitions));
    total
}

/// `PrintChar<CHAR>` for characters the instruction enum has no variant for (the enum only carries
/// space, newline and period), performed directly; and `PrintString` with non-ASCII text.  The
/// printed output is text: the character's UTF-8 encoding is appended, nothing else changes.
macro_rules! print_chars {
    ($($c:literal),*) => {
        const PRINT_CHARS: &[char] = &[$($c),*];
        fn perform_print_char(c: char, s: PushState) -> Option<Result<PushState, push::error::Error<PushState, push::instruction::instruction_error::PushInstructionError>>> {
            use push::instruction::{printing::PrintChar, Instruction};
            match c {
                $($c => Some(PrintChar::<$c>::new().perform(s)),)*
                _ => None,
            }
        }
    };
}
print_chars!('x', '\0', '\t', '~', '\u{7f}', '\u{80}', '\u{e9}', '\u{ff}', '\u{100}', '\u{141}', '\u{3bb}', '\u{7ff}', '\u{800}', '\u{2192}', '\u{ffff}', '\u{10000}', '\u{1f600}', '\u{10ffff}');

fn print_pre_states() -> Vec<RState> {
    let mut v = vec![];
    for out in [&b""[..], b"ab", "\u{e9}\n".as_bytes()] {
        for caps in [[0usize; 4], [4; 4]] {
            let mut r = RState::empty(caps);
            r.out = out.to_vec();
            v.push(r.clone());
            if caps[0] > 0 {
                r.int = vec![5, -1];
                r.boolean = vec![true];
                r.float = vec![1.5];
                r.exec = vec![PushProgram::Block(vec![])];
                v.push(r);
            }
        }
    }
    v
}

fn check_print_char(c: char, pre: &RState) -> Option<(String, String)> {
    let real = make_real(pre, 100);
    let mut want = pre.clone();
    let mut buf = [0u8; 4];
    want.out.extend_from_slice(c.encode_utf8(&mut buf).as_bytes());
    let name = format!("PrintChar<{:?}>", c);
    match mcx::guarded(|| perform_print_char(c, real)) {
        Err(p) => Some((format!("perform/{name}/panic"), format!("{name} panicked in state {}: {p}", rstate_json(pre)))),
        Ok(None) => Some((format!("machinery/{name}"), format!("{name} is not in the list of characters"))),
        Ok(Some(r)) => {
            let o = classify(r);
            if o.kind != Kind::Ok || !real_matches(&o.state, &want) {
                Some((
                    format!("perform/{name}"),
                    format!(
                        "{name} in state {} gave {:?} with state {} (output bytes {:?}); printing appends the character's text: output bytes {:?}, stacks unchanged",
                        rstate_json(pre),
                        o.kind,
                        rstate_json(&observe(&o.state)),
                        observe_out(&o.state),
                        want.out
                    ),
                ))
            } else {
                None
            }
        }
    }
}

pub fn print_texts(mode: Mode, run: &mut Run) -> Stats {
    let mut st = Stats::default();
    let pres = print_pre_states();
    for c in PRINT_CHARS {
        for pre in &pres {
            st.transitions += 1;
            st.states += 1;
            if let Some((k, w)) = check_print_char(*c, pre) {
                if k.starts_with("machinery/") {
                    run.machinery(w);
                } else {
                    run.violation(k, w, json!({"check": format!("{mode:?}"), "kind": "print-char", "char": *c as u32, "state": rstate_json(pre), "state_full": rstate_ser(pre)}));
                }
            }
        }
    }
    let long: String = "\u{e9}\u{2192}z".repeat(3000);
    for text in ["", "\u{e9}", "\u{2192}\u{1f600}a", "a\nb\0c", long.as_str()] {
        let instr = PushInstruction::PrintString(push::instruction::printing::PrintString::new(text.to_string()));
        let name = format!("PrintString({})", if text.len() > 40 { "long" } else { text });
        for pre in &pres {
            st.states += 1;
            let real = make_real(pre, 100);
            let (v, _) = check_perform(mode, &real, pre, &instr, &name, &mut st);
            if let Some((k, w)) = v {
                let w: String = w.chars().take(600).collect();
                run.violation(k, w, json!({"check": format!("{mode:?}"), "kind": "perform", "state": rstate_json(pre), "state_full": rstate_ser(pre), "instruction": name}));
            }
        }
    }
    // reading the output is an observation: reading twice gives the same text, and a state whose output has been
    // read goes on printing after what it had (perform and run_to_completion on the very state that was read)
    {
        for first in ["", "17 then ", "\u{e9}"] {
            for limit in [1usize, 2, 5] {
                st.transitions += 1;
                let mut pre = RState::empty([8; 4]);
                pre.out = first.as_bytes().to_vec();
                pre.int = vec![7, -4];
                pre.exec = vec![
                    PushProgram::Instruction(PushInstruction::PrintString(push::instruction::printing::PrintString::new("done".to_string()))),
                    PushProgram::Instruction(PushInstruction::PrintNewline(push::instruction::printing::PrintNewline::new())),
                    PushProgram::Instruction(crate::interp::int_variant("Print").into()),
                ];
                let mut real = make_real(&pre, limit);
                let r1 = real.stdout_string().unwrap_or_default();
                let r2 = real.stdout_string().unwrap_or_default();
                let mut problem = (r1 != first || r2 != first).then(|| format!("the output was {first:?}; read twice it gave {r1:?} and {r2:?}"));
                if problem.is_none() {
                    // one instalment of `limit` steps, a read, and the rest
                    let want_full = format!("{first}-4\ndone");
                    match mcx::guarded(|| real.run_to_completion()) {
                        Ok(Ok(mut mid)) => {
                            let read_mid = mid.stdout_string().unwrap_or_default();
                            let again = mid.stdout_string().unwrap_or_default();
                            if !want_full.starts_with(&read_mid) || read_mid != again {
                                problem = Some(format!("after {limit} steps the output read {read_mid:?} and then {again:?}; the complete output is {want_full:?}"));
                            } else {
                                match mcx::guarded(|| mid.run_to_completion()) {
                                    Ok(Ok(mut end)) => {
                                        let got = end.stdout_string().unwrap_or_default();
                                        let exec_left = observe(&end).exec.len();
                                        // a second instalment of the same step limit: at most 2 * limit instructions ran
                                        let want: String = match (2 * limit).min(3) {
                                            1 => format!("{first}-4"),
                                            2 => format!("{first}-4\n"),
                                            _ => want_full.clone(),
                                        };
                                        if got != want {
                                            problem = Some(format!("output {read_mid:?} was read after the first {limit} steps; after {limit} more steps the output is {got:?}, expected {want:?} ({exec_left} items left)"));
                                        }
                                    }
                                    other => problem = Some(format!("the second instalment did not return a state: {:?}", other.map(|r| r.is_ok()))),
                                }
                            }
                        }
                        other => problem = Some(format!("the first instalment did not return a state: {:?}", other.map(|r| r.is_ok()))),
                    }
                }
                if let Some(w) = problem {
                    run.violation("output/read-is-an-observation".to_string(), format!("program [Int-Print, PrintNewline, PrintString(done)] on ints [7, -4], earlier output {first:?}, step limit {limit}: {w}"), json!({"check":"C01","kind":"print-read"}));
                }
            }
        }
    }
    run.bound("e.print_chars", json!(PRINT_CHARS.iter().map(|c| format!("U+{:04X}", *c as u32)).collect::<Vec<_>>()));
    st
}

/// The named constructors and conversions build the instruction of their name (a program written with them
/// is the program it reads as).  The expected variant is found by name among the enum's listed variants.
pub fn constructors(run: &mut Run) -> u64 {
    use push::instruction::{BoolInstruction, ExecInstruction, FloatInstruction, IntInstruction};
    use strum::IntoEnumIterator;
    fn by_name<I: IntoEnumIterator + std::fmt::Debug>(name: &str) -> Option<I> {
        I::iter().find(|i| {
            let d = format!("{i:?}");
            d == name || d.starts_with(&format!("{name}("))
        })
    }
    let mut n = 0u64;
    let mut check = |run: &mut Run, what: &str, built: PushInstruction, want: Option<PushInstruction>| {
        n += 1;
        match want {
            None => run.machinery(format!("constructor check: no listed variant for {what}")),
            Some(w) if w != built => run.violation(format!("constructor/{what}"), format!("{what} builds {built:?}, the instruction of that name is {w:?}"), json!({"check":"C01","kind":"constructor","what":what})),
            _ => {}
        }
    };
    macro_rules! named {
        ($ty:ident, $ctor:ident, $name:literal) => {
            check(run, concat!(stringify!($ty), "::", stringify!($ctor), "()"), $ty::$ctor().into(), by_name::<$ty>($name).map(Into::into));
        };
    }
    named!(IntInstruction, pop, "Pop");
    named!(IntInstruction, dup, "Dup");
    named!(IntInstruction, swap, "Swap");
    named!(IntInstruction, is_empty, "IsEmpty");
    named!(IntInstruction, stack_depth, "StackDepth");
    named!(IntInstruction, flush, "Flush");
    named!(IntInstruction, negate, "Negate");
    named!(IntInstruction, abs, "Abs");
    named!(IntInstruction, clamp, "Clamp");
    named!(FloatInstruction, pop, "Pop");
    named!(FloatInstruction, dup, "Dup");
    named!(FloatInstruction, swap, "Swap");
    named!(FloatInstruction, is_empty, "IsEmpty");
    named!(FloatInstruction, stack_depth, "StackDepth");
    named!(FloatInstruction, flush, "Flush");
    named!(ExecInstruction, noop, "Noop");
    named!(ExecInstruction, dup_block, "DupBlock");
    named!(ExecInstruction, when, "When");
    named!(ExecInstruction, unless, "Unless");
    named!(ExecInstruction, if_else, "IfElse");
    // literal constructors carry their value: all routes to "push v" agree, and performing one pushes v
    for v in [0i64, -1, 7, i64::MIN, i64::MAX] {
        let a: PushInstruction = IntInstruction::push(v).into();
        let b = PushInstruction::push_int(v);
        n += 1;
        let mut pre = RState::empty([4; 4]);
        pre.int = vec![1];
        let pushed = make_real(&pre, 10).perform(&PushProgram::Instruction(a.clone())).ok().map(|s| observe(&s).int);
        if a != b || !format!("{a:?}").contains(&format!("({v})")) || pushed != Some(vec![1, v]) {
            run.violation("constructor/int-push".to_string(), format!("IntInstruction::push({v}) = {a:?}, PushInstruction::push_int({v}) = {b:?}, performing the former on [1] gives {pushed:?}"), json!({"check":"C01","kind":"constructor","what":"int push"}));
        }
    }
    for v in [0.0f64, -0.0, 1.5, f64::INFINITY, f64::MIN_POSITIVE] {
        let a: PushInstruction = FloatInstruction::push(v).into();
        let b = PushInstruction::push_float(ordered_float::OrderedFloat(v));
        let c: PushInstruction = FloatInstruction::push_ordered_float(ordered_float::OrderedFloat(v)).into();
        n += 1;
        let pushed = make_real(&RState::empty([4; 4]), 10).perform(&PushProgram::Instruction(a.clone())).ok().map(|s| observe(&s).float);
        if a != b || a != c || pushed.as_ref().map(|f| f.len() == 1 && f[0].to_bits() == v.to_bits()) != Some(true) {
            run.violation("constructor/float-push".to_string(), format!("FloatInstruction::push({v:?}) = {a:?}, push_float = {b:?}, push_ordered_float = {c:?}, performing the first gives {pushed:?}"), json!({"check":"C01","kind":"constructor","what":"float push"}));
        }
    }
    for v in [true, false] {
        let a: PushInstruction = BoolInstruction::push(v).into();
        let b = PushInstruction::push_bool(v);
        n += 1;
        let pushed = make_real(&RState::empty([4; 4]), 10).perform(&PushProgram::Instruction(a.clone())).ok().map(|s| observe(&s).boolean);
        if a != b || pushed != Some(vec![v]) {
            run.violation("constructor/bool-push".to_string(), format!("BoolInstruction::push({v}) = {a:?}, push_bool = {b:?}, performing the former gives {pushed:?}"), json!({"check":"C01","kind":"constructor","what":"bool push"}));
        }
    }
    // a boxed instruction performs like the instruction
    {
        use push::instruction::{instruction_error::PushInstructionError, Instruction};
        let mut pre = RState::empty([4; 4]);
        pre.int = vec![5, 3];
        pre.boolean = vec![true];
        pre.float = vec![2.5];
        pre.inputs = default_inputs();
        for (name, i) in instruction_alphabet(false).instrs {
            n += 1;
            let boxed: Box<dyn Instruction<PushState, Error = PushInstructionError>> = Box::new(i.clone());
            let direct = classify(i.perform(make_real(&pre, 10)));
            let through = classify(boxed.perform(make_real(&pre, 10)));
            if direct.kind != through.kind || direct.state != through.state || direct.error != through.error {
                run.violation(format!("constructor/boxed/{name}"), format!("{name} performed through Box<dyn Instruction> gives {:?} {:?}, directly {:?} {:?}", through.kind, through.error, direct.kind, direct.error), json!({"check":"C01","kind":"constructor","what":"boxed"}));
            }
        }
    }
    n
}

/// Deep stacks: one of the four stacks holds d elements (d around 2^8 and 2^16, where a narrow counter or
/// index type would wrap), roomy and exactly full; every instruction of the full set.
pub fn deep_stacks(mode: Mode, run: &mut Run) -> Stats {
    let quick = run.quick();
    let depths: Vec<usize> = if quick { vec![255, 256, 257, 65_535, 65_536, 65_537] } else { vec![127, 128, 129, 255, 256, 257, 1000, 32_767, 32_768, 65_535, 65_536, 65_537, 70_001] };
    let alpha = instruction_alphabet(false);
    let names: std::sync::Arc<Vec<String>> = std::sync::Arc::new(alpha.instrs.iter().map(|(n, _)| n.clone()).collect());
    let mut shards: Vec<(usize, usize, bool)> = vec![];
    for d in &depths {
        for which in 0..4 {
            for tight in [false, true] {
                shards.push((*d, which, tight));
            }
        }
    }
    let results = mcx::par_map(shards.len(), |k| {
        let (d, which, tight) = shards[k];
        let mut st = Stats::default();
        let mut viols: Vec<(String, String, Value)> = vec![];
        let mut caps = [d + 8; 4];
        if tight {
            caps[which] = d;
        }
        let mut base = RState::empty(caps);
        base.inputs = default_inputs();
        base.int = vec![3, -2];
        base.float = vec![1.5, -0.5];
        base.boolean = vec![true, false];
        base.exec = vec![PushProgram::Instruction(PushInstruction::push_int(1))];
        match which {
            EXEC => base.exec = (0..d).map(|i| if i % 5 == 4 { PushProgram::Block(vec![]) } else { PushProgram::Instruction(PushInstruction::push_int(i as i64)) }).collect(),
            INT => base.int = (0..d as i64).map(|i| i % 7 - 3).collect(),
            FLOAT => base.float = (0..d).map(|i| (i % 5) as f64 - 1.5).collect(),
            _ => base.boolean = (0..d).map(|i| i % 3 == 0).collect(),
        }
        let real = make_real(&base, 100);
        st.states += 1;
        announce(mode, &base, names.clone());
        for (ix, (name, instr)) in alpha.instrs.iter().enumerate() {
            mcx::watch::step(ix);
            let (v, _) = check_perform(mode, &real, &base, instr, name, &mut st);
            if let Some((key, what)) = v {
                if viols.len() < 6 {
                    // the states are large: the message names the shape, the replay rebuilds it
                    let what: String = format!("{} stack of {d} elements ({}): {}", ["exec", "int", "float", "bool"][which], if tight { "exactly full" } else { "roomy" }, what.chars().take(300).collect::<String>());
                    viols.push((format!("{key}/deep"), what, json!({"check": format!("{mode:?}"), "kind": "deep", "d": d, "which": which, "tight": tight, "instruction": name})));
                }
            }
        }
        mcx::watch::leave();
        (st, viols)
    });
    let mut total = Stats::default();
    for (st, viols) in results {
        total.merge(&st);
        for (k, w, r) in viols {
            run.violation(k, w, r);
        }
    }
    run.bound("f.deep_stack_depths", json!(depths));
    total
}

/// Performing a *block* (the interpreter does this for every nested block): its items go onto the exec
/// stack, first item on top, all or nothing.  Every exec capacity 0..=5 x fill level x block length 0..=5.
pub fn block_performs(mode: Mode, run: &mut Run) -> Stats {
    let mut st = Stats::default();
    let item = |k: usize| -> PushProgram {
        if k % 3 == 2 {
            PushProgram::Block(vec![PushProgram::Instruction(PushInstruction::push_int(900 + k as i64))])
        } else {
            PushProgram::Instruction(PushInstruction::push_int(100 + k as i64))
        }
    };
    for cap in 0..=5usize {
        for fill in 0..=cap {
            for len in 0..=5usize {
                let mut pre = RState::empty([cap, 4, 4, 4]);
                pre.exec = (0..fill).map(|k| item(10 + k)).collect();
                pre.int = vec![1, 2];
                pre.boolean = vec![true];
                pre.out = b"x".to_vec();
                pre.inputs = default_inputs();
                let block: Vec<PushProgram> = (0..len).map(item).collect();
                let real = make_real(&pre, 100);
                st.transitions += 1;
                st.states += 1;
                let name = format!("Block of {len} items");
                let label = format!("performing a block of {len} items with {fill} of {cap} exec slots taken");
                let replay = json!({"check": format!("{mode:?}"), "kind": "block", "cap": cap, "fill": fill, "len": len});
                let before = real.clone();
                let r = match mcx::guarded(|| real.perform(&PushProgram::Block(block.clone()))) {
                    Ok(r) => classify(r),
                    Err(p) => {
                        run.violation(format!("perform/{name}/panic"), format!("{label}: panicked: {p}"), replay);
                        continue;
                    }
                };
                st.count("Block", r.kind);
                let fits = fill + len <= cap;
                if fits {
                    let mut want = pre.clone();
                    want.exec.extend(block.iter().rev().cloned());
                    if mode == Mode::C01 && (r.kind != Kind::Ok || !real_matches(&r.state, &want)) {
                        run.violation(format!("perform/{name}"), format!("{label}: {:?} {} with exec stack {:?}; expected the items on the exec stack, first item on top", r.kind, r.error.clone().unwrap_or_default(), observe(&r.state).exec), replay);
                    }
                } else {
                    if mode == Mode::C01 && r.kind != Kind::Fatal {
                        run.violation(format!("perform/{name}"), format!("{label}: {:?} {}; the block does not fit: a fatal overflow is due", r.kind, r.error.clone().unwrap_or_default()), replay.clone());
                    }
                    if r.kind != Kind::Ok && r.state != before {
                        run.violation(
                            format!("perform/{name}/state-changed-on-{:?}", r.kind),
                            format!("{label}: failed ({:?}, {}) but the carried state differs from the state before: exec stack before {:?}, after {:?}", r.kind, r.error.clone().unwrap_or_default(), pre.exec, observe(&r.state).exec),
                            replay,
                        );
                    }
                }
            }
        }
    }
    st
}

pub fn set_caps(s: &mut PushState, caps: [usize; 4]) {
    use push::push_vm::HasStack;
    s.stack_mut::<PushProgram>().set_max_stack_size(caps[EXEC]);
    s.stack_mut::<i64>().set_max_stack_size(caps[INT]);
    s.stack_mut::<OF>().set_max_stack_size(caps[FLOAT]);
    s.stack_mut::<bool>().set_max_stack_size(caps[BOOL]);
}

/// machine-readable form of a reference state (for --replay)
pub fn rstate_ser(r: &RState) -> Value {
    json!({
        "exec": r.exec.iter().map(prog_ser).collect::<Vec<_>>(),
        "int": r.int.iter().map(|i| i.to_string()).collect::<Vec<_>>(),
        "float": r.float.iter().map(|f| f.to_bits().to_string()).collect::<Vec<_>>(),
        "bool": r.boolean,
        "out": r.out,
        "caps": r.caps.iter().map(|c| c.to_string()).collect::<Vec<_>>(),
    })
}
pub fn rstate_de(v: &Value) -> Option<RState> {
    let strs = |k: &str| -> Vec<String> {
        v[k].as_array()
            .map(|a| a.iter().filter_map(|x| x.as_str().map(String::from)).collect())
            .unwrap_or_default()
    };
    let caps: Vec<usize> = strs("caps").iter().filter_map(|s| s.parse().ok()).collect();
    Some(RState {
        exec: v["exec"].as_array()?.iter().filter_map(prog_de).collect(),
        int: strs("int").iter().filter_map(|s| s.parse().ok()).collect(),
        float: strs("float")
            .iter()
            .filter_map(|s| s.parse::<u64>().ok().map(f64::from_bits))
            .collect(),
        boolean: v["bool"].as_array()?.iter().filter_map(|b| b.as_bool()).collect(),
        out: v["out"].as_array()?.iter().filter_map(|b| b.as_u64().map(|x| x as u8)).collect(),
        caps: [*caps.first()?, *caps.get(1)?, *caps.get(2)?, *caps.get(3)?],
        inputs: default_inputs(),
    })
}

/// Programs are serialised by instruction *name* looked up in the alphabet.
pub fn prog_ser(p: &PushProgram) -> Value {
    match p {
        PushProgram::Instruction(i) => json!(instr_name(i)),
        PushProgram::Block(b) => Value::Array(b.iter().map(prog_ser).collect()),
    }
}
pub fn prog_de(v: &Value) -> Option<PushProgram> {
    match v {
        Value::String(s) => lookup_instr(s).map(PushProgram::Instruction),
        Value::Array(a) => Some(PushProgram::Block(a.iter().filter_map(prog_de).collect())),
        _ => None,
    }
}
pub fn lookup_instr(name: &str) -> Option<PushInstruction> {
    let alpha = instruction_alphabet(true);
    let name = name.strip_prefix("Input-").unwrap_or(name);
    for (n, i) in &alpha.instrs {
        if n == name || instr_name(i) == name {
            return Some(i.clone());
        }
    }
    // literal pushes outside the alphabet: "Int-Push(5)" etc.
    if let Some(x) = name.strip_prefix("Int-Push(").and_then(|s| s.strip_suffix(')')) {
        return x.parse().ok().map(PushInstruction::push_int);
    }
    if let Some(x) = name.strip_prefix("Bool-Push(").and_then(|s| s.strip_suffix(')')) {
        return x.parse().ok().map(PushInstruction::push_bool);
    }
    if let Some(x) = name.strip_prefix("Float-Push(").and_then(|s| s.strip_suffix(')')) {
        return x
            .parse::<f64>()
            .ok()
            .map(|f| PushInstruction::push_float(ordered_float::OrderedFloat(f)));
    }
    if let Some(x) = name.strip_prefix("PrintString(").and_then(|s| s.strip_suffix(')')) {
        return Some(PushInstruction::PrintString(
            push::instruction::printing::PrintString::new(x.to_string()),
        ));
    }
    None
}

// ---------------------------------------------------------------- (a) stateright

#[derive(Clone, Debug)]
pub struct VmSt {
    pub real: PushState,
    pub depth: usize,
    pub hist: Vec<usize>,
    pub key: String,
}
impl PartialEq for VmSt {
    fn eq(&self, o: &VmSt) -> bool {
        // the derived equality of the real state as well: a field the observation does not show (one a
        // change might add) must not let two different machine states be merged
        self.key == o.key && self.depth == o.depth && self.real == o.real
    }
}
impl Eq for VmSt {}
impl Hash for VmSt {
    fn hash<H: Hasher>(&self, h: &mut H) {
        self.key.hash(h);
        self.depth.hash(h);
    }
}

pub struct VmModel {
    pub mode: Mode,
    pub alpha: Alphabet,
    pub max_depth: usize,
    pub max_contents: usize,
    pub init_caps: Vec<[usize; 4]>,
    pub stats: Mutex<Stats>,
    pub transitions: AtomicU64,
    pub viols: Mutex<Vec<(String, String, Value)>>,
}

impl Model for VmModel {
    type State = VmSt;
    type Action = usize;
    fn init_states(&self) -> Vec<VmSt> {
        self.init_caps
            .iter()
            .map(|c| {
                let mut r = RState::empty(*c);
                r.inputs = default_inputs();
                VmSt {
                    real: make_real(&r, 100),
                    depth: 0,
                    hist: vec![],
                    key: r.key(),
                }
            })
            .collect()
    }
    fn actions(&self, st: &VmSt, actions: &mut Vec<usize>) {
        if st.depth < self.max_depth {
            actions.extend(0..self.alpha.instrs.len());
        }
    }
    fn next_state(&self, st: &VmSt, a: usize) -> Option<VmSt> {
        let (name, instr) = &self.alpha.instrs[a];
        let mut pre_ref = observe(&st.real);
        pre_ref.inputs = default_inputs();
        let mut local = Stats::default();
        announce(self.mode, &pre_ref, std::sync::Arc::new(vec![name.clone()]));
        let (v, real) = check_perform(self.mode, &st.real, &pre_ref, instr, name, &mut local);
        mcx::watch::leave();
        self.transitions.fetch_add(1, Ordering::Relaxed);
        self.stats.lock().unwrap().merge(&local);
        let mut hist = st.hist.clone();
        hist.push(a);
        if let Some((key, what)) = v {
            let mut g = self.viols.lock().unwrap();
            if g.len() < 200 {
                let caps0 = self.init_caps.iter().position(|_| true);
                let _ = caps0;
                g.push((
                    key,
                    what,
                    json!({"check": format!("{:?}", self.mode), "kind": "sequence",
                           "state": rstate_json(&pre_ref), "state_full": rstate_ser(&pre_ref), "instruction": name,
                           "history": hist.iter().map(|i| self.alpha.instrs[*i].0.clone()).collect::<Vec<_>>()}),
                ));
            }
        }
        let real = real?;
        // after a fatal error the machine stops; after Ok/Skip it continues
        if real.kind == Kind::Fatal {
            return None;
        }
        let o = observe(&real.state);
        if o.sizes().iter().any(|n| *n > self.max_contents) {
            return None;
        }
        Some(VmSt {
            key: o.key(),
            real: real.state,
            depth: st.depth + 1,
            hist,
        })
    }
    fn properties(&self) -> Vec<Property<Self>> {
        vec![Property::always("stacks within their maxima", |_, st: &VmSt| {
            observe(&st.real).within_caps()
        })]
    }
}

pub fn transition_system(mode: Mode, run: &mut Run) -> Stats {
    let quick = run.quick();
    let depth = if quick { 2 } else { 3 };
    let mut init_caps = vec![[8usize; 4], [1; 4], [2; 4]];
    for i in 0..4 {
        for k in 0..=2 {
            let mut c = [8usize; 4];
            c[i] = k;
            init_caps.push(c);
        }
    }
    let mk = || VmModel {
        mode,
        alpha: instruction_alphabet(true),
        max_depth: depth,
        max_contents: 3,
        init_caps: init_caps.clone(),
        stats: Mutex::new(Stats::default()),
        transitions: AtomicU64::new(0),
        viols: Mutex::new(vec![]),
    };
    let c = mk().checker().threads(mcx::par::threads()).spawn_bfs().join();
    let m = c.model();
    let mut st = m.stats.lock().unwrap().clone();
    st.states = c.unique_state_count() as u64;
    if !c.discoveries().is_empty() {
        run.violation(
            "vm/stack-above-max",
            "a reachable VM state has a stack above its maximum",
            json!({"check": format!("{mode:?}"), "kind": "invariant"}),
        );
    }
    for (k, w, r) in m.viols.lock().unwrap().iter() {
        run.violation(k.clone(), w.clone(), r.clone());
    }
    run.bound("a.depth", json!(depth));
    run.bound("a.initial_capacity_vectors", json!(init_caps.len()));
    run.bound("a.max_contents_per_stack", json!(3));
    run.bound("a.actions_per_state", json!(m.alpha.instrs.len()));
    run.note("a.unique_states", json!(st.states));
    run.note("a.transitions", json!(st.transitions));
    run.note("a.max_depth_reached", json!(c.max_depth()));
    st
}

/// The rows every run must have exercised (vacuity guard).
pub fn vacuity(mode: Mode, rows: &BTreeMap<String, [u64; 3]>, run: &mut Run) {
    let mut never_ok = vec![];
    let mut fail_pairs = 0u64;
    for (name, c) in rows {
        if c[0] == 0 {
            never_ok.push(name.clone());
        }
        fail_pairs += u64::from(c[1] > 0) + u64::from(c[2] > 0);
    }
    if !never_ok.is_empty() {
        run.machinery(format!("vacuity: instructions never succeeded: {never_ok:?}"));
    }
    run.note("distinct_failing_instruction_kind_pairs", json!(fail_pairs));
    if mode == Mode::C02 && fail_pairs < 100 {
        run.machinery(format!("vacuity: only {fail_pairs} (instruction, fault kind) pairs reached"));
    }
}

pub fn replay(mode: Mode, v: &Value) -> bool {
    match v["kind"].as_str() {
        Some("perform") | Some("sequence") => {
            let Some(r) = rstate_de(&v["state_full"]) else {
                println!("cannot decode state");
                return false;
            };
            let name = v["instruction"].as_str().unwrap_or("");
            let Some(instr) = lookup_instr(name) else {
                println!("unknown instruction {name}");
                return false;
            };
            let real = make_real(&r, 100);
            let mut st = Stats::default();
            println!("state: {}", rstate_json(&r));
            println!("instruction: {name}");
            let (viol, out) = check_perform(mode, &real, &r, &instr, name, &mut st);
            if let Some(o) = out {
                println!("observed: {:?} {} -> {}", o.kind, o.error.unwrap_or_default(), rstate_json(&observe(&o.state)));
            }
            if mode == Mode::C01 {
                if let Ok(a) = ref_perform(&r, &instr) {
                    for o in a {
                        println!("admissible: {:?} -> {}", o.kind, rstate_json(&o.st));
                    }
                }
            }
            match viol {
                Some((k, w)) => {
                    println!("MISMATCH [{k}]: {w}");
                    println!("replay: violation reproduced");
                    false
                }
                None => {
                    println!("replay: property held");
                    true
                }
            }
        }
        Some("print-read") => {
            let mut r = Run::new("C01", "quick");
            print_texts(mode, &mut r);
            let g = r.violations.lock().unwrap();
            for (k, x) in g.iter() {
                println!("MISMATCH [{k}]: {}", x.what);
            }
            if g.is_empty() {
                println!("replay: property held");
            }
            g.is_empty()
        }
        Some("constructor") => {
            let mut r = Run::new("C01", "quick");
            constructors(&mut r);
            let g = r.violations.lock().unwrap();
            for (k, x) in g.iter() {
                println!("MISMATCH [{k}]: {}", x.what);
            }
            if g.is_empty() {
                println!("replay: property held");
            }
            g.is_empty()
        }
        Some("deep") => {
            let mut r = Run::new(&format!("{mode:?}"), "quick");
            deep_stacks(mode, &mut r);
            let g = r.violations.lock().unwrap();
            for (k, x) in g.iter() {
                println!("MISMATCH [{k}]: {}", x.what);
            }
            if g.is_empty() {
                println!("replay: property held");
            }
            g.is_empty()
        }
        Some("block") => {
            let mut r = Run::new(&format!("{mode:?}"), "quick");
            block_performs(mode, &mut r);
            let g = r.violations.lock().unwrap();
            for (k, x) in g.iter() {
                println!("MISMATCH [{k}]: {}", x.what);
            }
            if g.is_empty() {
                println!("replay: property held");
            }
            g.is_empty()
        }
        Some("print-char") => {
            let (Some(r), Some(c)) = (rstate_de(&v["state_full"]), v["char"].as_u64().and_then(|c| char::from_u32(c as u32))) else {
                println!("cannot decode state or character");
                return false;
            };
            println!("state: {}", rstate_json(&r));
            println!("instruction: PrintChar<{c:?}>");
            match check_print_char(c, &r) {
                Some((k, w)) => {
                    println!("MISMATCH [{k}]: {w}");
                    println!("replay: violation reproduced");
                    false
                }
                None => {
                    println!("replay: property held");
                    true
                }
            }
        }
        Some("run") => crate::interp::replay_run(mode, v),
        _ => {
            println!("unknown replay kind");
            false
        }
    }
}

pub fn run(mode: Mode, run: &mut Run) {
    let quick = run.quick();
    // one instruction, or one short program under one step limit, takes microseconds; 60 s without
    // returning is reported as a hang of the subject
    mcx::watch::start(&run.property, &run.tier, std::time::Duration::from_secs(60));
    let b = boundary_product(mode, run);
    let a = transition_system(mode, run);
    let mut d = value_sweep(mode, run);
    if mode == Mode::C01 {
        let e = print_texts(mode, run);
        d.merge(&e);
        let k = constructors(run);
        d.transitions += k;
    }
    {
        let e = block_performs(mode, run);
        d.merge(&e);
        let e = deep_stacks(mode, run);
        d.merge(&e);
    }
    let mut rows = b.rows.clone();
    for (k, v) in a.rows.iter().chain(d.rows.iter()) {
        let e = rows.entry(k.clone()).or_default();
        for i in 0..3 {
            e[i] += v[i];
        }
    }
    vacuity(mode, &rows, run);
    let mut transitions = a.transitions + b.transitions + d.transitions;
    let mut states = a.states + b.states + d.states;
    let mut evaluations = transitions;
    if mode == Mode::C01 {
        let (max_len, max_limit) = if quick { (4, 8) } else { (5, 12) };
        let caps_list = [1usize, 2, 3, 8];
        let c = crate::interp::genome_sweep(mode, run, max_len, max_limit, &caps_list);
        let (pairs, pair_runs) = crate::interp::pair_sweep(mode, run);
        run.bound("c.max_genome_len", json!(max_len));
        run.bound("c.gene_alphabet", json!(crate::interp::gene_alphabet().iter().map(crate::interp::gene_name).collect::<Vec<_>>()));
        run.bound("c.step_limits", json!(format!("0..={max_limit}")));
        run.bound("c.capacities", json!(caps_list));
        run.note("c.programs", json!(c.programs));
        run.note("c.runs", json!(c.runs));
        run.note("c.runs_undecided_by_pop_cap", json!(c.undecided));
        run.note("c.admissible_aborted_finals", json!(c.aborted_runs));
        run.note("c.admissible_truncated_finals", json!(c.truncated_runs));
        run.note("c.distinct_final_states", json!(c.distinct_final_states));
        run.note("c.instruction_pairs", json!(pairs));
        run.note("c.pair_runs", json!(pair_runs));
        transitions += c.runs + pair_runs;
        evaluations += c.runs + pair_runs;
        states += c.distinct_final_states;
        if c.aborted_runs == 0 || c.truncated_runs == 0 {
            run.machinery("vacuity: interpreter sweep reached no aborted or no truncated run");
        }
    } else {
        let (n_cases, n_runs) = crate::c02::continuation_check(run);
        run.note("continuation.failing_cases", json!(n_cases));
        run.note("continuation.runs", json!(n_runs));
        transitions += n_runs;
        evaluations += n_runs;
    }
    run.states = states;
    run.transitions = transitions;
    run.traces_validated = transitions;
    run.evaluations = evaluations;
    let nontrivial: u64 = rows.values().map(|c| c.iter().filter(|x| **x > 0).count() as u64).sum();
    run.distinct_nontrivial = nontrivial;
    run.note("rows", json!(rows.iter().map(|(k, v)| (k.clone(), json!({"ok": v[0], "skip": v[1], "fatal": v[2]}))).collect::<serde_json::Map<_, _>>()));
    run.rule = match mode {
        Mode::C01 => "every instruction applied (real Instruction::perform / State::perform) in every state of the boundary family x 10 capacity patterns and in every state of a stateright BFS over instruction sequences; every genome over the gene alphabet up to the length bound run by the real run_to_completion under every step limit and capacity; each result compared with the set PushRef admits; PrintChar<C> for 18 characters of every UTF-8 length performed directly and PrintString with non-ASCII text; blocks performed directly; every instruction on stacks of 255..257 and 65535..65537 elements (roomy and exactly full). distinct_nontrivial = (instruction, outcome kind) pairs reached".into(),
        Mode::C02 => "same exploration as C01 with a reference-free oracle: whenever perform returns Err(e), e.state() == the state before (full PushState equality); plus run_to_completion([i] ++ Q) == run_to_completion(Q) for every recoverably failing (state, i) of a family and every continuation Q. distinct_nontrivial = (instruction, outcome kind) pairs reached".into(),
    };
    run.assumptions = vec![
        "value alphabets contain the arithmetic boundaries (0, +-1, -3, i64::MIN/MAX; +-0.0, NaN, +-inf); instructions are uniform in their operands elsewhere".into(),
        "PushRef (Appendix A of DESIGN.md) is the meaning of 'the instruction semantics prescribe'; tolerance sets of DESIGN section 3 apply".into(),
        "stateright BFS visits every state reachable within the depth bound".into(),
    ];
    let mut ex = RState::empty([8, 8, 8, 8]);
    ex.int = vec![7, -3];
    run.sample(json!({"state": rstate_json(&ex), "instruction": "Int-LessThan", "expected": "both ints removed, true pushed (top -3 < second 7)"}));
    ex.caps = [8, 8, 8, 0];
    run.sample(json!({"state": rstate_json(&ex), "instruction": "Int-IsOdd", "expected": "fatal overflow (bool stack full), state unchanged"}));
    run.sample(json!({"genome": "Bool-Push(true) Exec-IfElse Int-Push(3) Close Int-Print", "step_limits": "0..=8", "capacities": [1, 2, 3, 8]}));
}
