//! C06 — selectors return a member of the given population or a documented error.
//! Engine E1: every selector configuration x every population of size 0..n x
//! every word sequence; oracle: pointer identity with an element of the
//! population passed, or an error the configuration admits; never a panic.

use crate::selectors::*;
use ec_core::operator::selector::best::Best;
use ec_core::operator::selector::dyn_weighted::DynWeighted;
use ec_core::operator::selector::lexicase::Lexicase;
use ec_core::operator::selector::random::Random;
use ec_core::operator::selector::tournament::Tournament;
use ec_core::operator::selector::worst::Worst;
use ec_core::operator::selector::{DynSelector, Select, Selector};
use ec_core::operator::Operator;
use ec_core::weighted::weighted_pair::WeightedPair;
use ec_core::weighted::with_weighted_item::WithWeightedItem;
use ec_core::weighted::Weighted;
use mcx::{explore, Alphabet, ChoiceRng, Env, Run};
use serde_json::{json, Value};
use std::collections::BTreeSet;
use std::num::NonZeroUsize;

type Runner = Box<dyn Fn(&Pop, &mut Env, Alphabet) -> SelObs + Send + Sync>;

pub struct Config {
    pub name: String,
    pub run: Runner,
    /// error kinds the configuration admits for a population of size n
    pub admits: Box<dyn Fn(usize) -> BTreeSet<ErrKind> + Send + Sync>,
    /// may the configuration return a member for a population of size n?
    pub member_ok: Box<dyn Fn(usize) -> bool + Send + Sync>,
    /// the word alphabet adequate for this configuration
    pub alpha: AlphaKind,
    /// also explore on the alphabet with the extreme words
    pub extreme_pass: bool,
}

#[derive(Clone, Copy, Debug)]
pub enum AlphaKind {
    /// only range draws (choose, choose_multiple, Bernoulli)
    Ranges,
    /// only shuffles
    Shuffles,
    /// both kinds of draws may occur
    Both,
}

pub fn alphabet_for(kind: AlphaKind, n: usize) -> Alphabet {
    match kind {
        AlphaKind::Ranges => Alphabet::Grid(12),
        AlphaKind::Shuffles => Alphabet::Rep { r: 479_001_600, k: 24 },
        AlphaKind::Both => {
            if n <= 3 {
                Alphabet::Mixed { m: 6, r: 479_001_600, k: 6 }
            } else {
                Alphabet::Mixed { m: 12, r: 479_001_600, k: 24 }
            }
        }
    }
}

fn direct<S>(s: S) -> Runner
where
    S: Selector<Pop> + Send + Sync + 'static,
    S::Error: KindOf,
{
    Box::new(move |pop, env, a| observe_select(&s, pop, pop, env, a))
}
fn by_ref<S>(s: S) -> Runner
where
    S: Selector<Pop> + Send + Sync + 'static,
    S::Error: KindOf,
{
    Box::new(move |pop, env, a| observe_select(&&s, pop, pop, env, a))
}
fn via_select<S>(s: S) -> Runner
where
    S: Selector<Pop> + Send + Sync + 'static,
    S::Error: KindOf,
{
    Box::new(move |pop, env, a| {
        let op = Select::new(&s);
        let mut rng = ChoiceRng::new(env, a);
        match mcx::guarded(|| op.apply(pop, &mut rng)) {
            Ok(Ok(r)) => index_of(pop, r).map(SelObs::Idx).unwrap_or(SelObs::NotMember),
            Ok(Err(e)) => {
                LAST_SELECT_ERR.with(|l| *l.borrow_mut() = e.detail());
                SelObs::Err(e.kind())
            }
            Err(p) => SelObs::Panic(p),
        }
    })
}
fn erased<S>(s: S) -> Runner
where
    S: Selector<Pop> + Send + Sync + 'static,
    S::Error: std::error::Error + Send + Sync + 'static,
{
    let b: Box<dyn DynSelector<Pop> + Send + Sync> = Box::new(s);
    Box::new(move |pop, env, a| observe_select(&b, pop, pop, env, a))
}

fn set(k: &[ErrKind]) -> BTreeSet<ErrKind> {
    k.iter().copied().collect()
}

#[derive(Clone, Copy, Debug, PartialEq, Eq)]
enum Leaf {
    Best,
    Worst,
    Random,
    Tour(usize),
    /// Tournament::of_size::<K>() (K = 1..3) / Tournament::binary() (K = 0)
    TourOf(usize),
    Lex(usize),
}
const RESULTS_PER_INDIVIDUAL: usize = 2;

fn leaf_admits(l: Leaf, n: usize) -> BTreeSet<ErrKind> {
    match l {
        Leaf::Best | Leaf::Worst | Leaf::Random => {
            if n == 0 {
                set(&[ErrKind::Empty])
            } else {
                set(&[])
            }
        }
        Leaf::Tour(k) | Leaf::TourOf(k) => {
            let k = if k == 0 { 2 } else { k };
            if k > n {
                set(&[ErrKind::TournamentSize])
            } else {
                set(&[])
            }
        }
        Leaf::Lex(c) => {
            if n == 0 {
                set(&[ErrKind::Empty])
            } else if c > RESULTS_PER_INDIVIDUAL {
                // whether a stream runs into the missing case depends on the case order
                set(&[ErrKind::MissingCase])
            } else {
                set(&[])
            }
        }
    }
}
fn leaf_member(l: Leaf, n: usize) -> bool {
    match l {
        Leaf::Best | Leaf::Worst | Leaf::Random | Leaf::Lex(_) => n > 0,
        Leaf::Tour(k) => k <= n,
        Leaf::TourOf(k) => (if k == 0 { 2 } else { k }) <= n,
    }
}

macro_rules! with_leaf {
    ($l:expr, $f:ident) => {
        match $l {
            Leaf::Best => $f(Best),
            Leaf::Worst => $f(Worst),
            Leaf::Random => $f(Random),
            Leaf::Tour(k) => $f(Tournament::new(NonZeroUsize::new(k).unwrap())),
            Leaf::TourOf(0) => $f(Tournament::binary()),
            Leaf::TourOf(1) => $f(Tournament::of_size::<1>()),
            Leaf::TourOf(2) => $f(Tournament::of_size::<2>()),
            Leaf::TourOf(_) => $f(Tournament::of_size::<3>()),
            Leaf::Lex(c) => $f(Lexicase::new(c)),
        }
    };
}

pub fn leaf_configs(max_n: usize) -> Vec<Config> {
    let mut leaves = vec![Leaf::Best, Leaf::Worst, Leaf::Random];
    for k in 1..=max_n + 1 {
        leaves.push(Leaf::Tour(k));
    }
    for k in 0..=3 {
        leaves.push(Leaf::TourOf(k));
    }
    for c in 0..=3 {
        leaves.push(Leaf::Lex(c));
    }
    let mut out = vec![];
    for l in leaves {
        for (wrap, runner) in [
            ("", with_leaf!(l, direct)),
            ("&", with_leaf!(l, by_ref)),
            ("Select:", with_leaf!(l, via_select)),
            ("dyn:", with_leaf!(l, erased)),
        ] {
            out.push(Config {
                name: format!("{wrap}{l:?}"),
                run: runner,
                admits: Box::new(move |n| leaf_admits(l, n)),
                member_ok: Box::new(move |n| leaf_member(l, n)),
                alpha: if matches!(l, Leaf::Lex(_)) { AlphaKind::Shuffles } else { AlphaKind::Ranges },
                extreme_pass: true,
            });
        }
        // a lone Weighted
        for w in [0u32, 1] {
            let runner: Runner = match l {
                Leaf::Best => direct(Weighted::new(Best, w)),
                Leaf::Worst => direct(Weighted::new(Worst, w)),
                Leaf::Random => direct(Weighted::new(Random, w)),
                Leaf::Tour(k) => direct(Weighted::new(Tournament::new(NonZeroUsize::new(k).unwrap()), w)),
                Leaf::TourOf(0) => direct(Weighted::new(Tournament::binary(), w)),
                Leaf::TourOf(1) => direct(Weighted::new(Tournament::of_size::<1>(), w)),
                Leaf::TourOf(2) => direct(Weighted::new(Tournament::of_size::<2>(), w)),
                Leaf::TourOf(_) => direct(Weighted::new(Tournament::of_size::<3>(), w)),
                Leaf::Lex(c) => direct(Weighted::new(Lexicase::new(c), w)),
            };
            out.push(Config {
                name: format!("Weighted({l:?},{w})"),
                run: runner,
                admits: Box::new(move |n| if w == 0 { set(&[ErrKind::ZeroWeight]) } else { leaf_admits(l, n) }),
                member_ok: Box::new(move |n| w != 0 && leaf_member(l, n)),
                alpha: if matches!(l, Leaf::Lex(_)) { AlphaKind::Shuffles } else { AlphaKind::Ranges },
                extreme_pass: false,
            });
        }
    }
    out
}

const MEMBERS: [Leaf; 4] = [Leaf::Best, Leaf::Random, Leaf::Tour(2), Leaf::Lex(1)];

fn combo_oracles(k: usize, w: Vec<u32>) -> (Box<dyn Fn(usize) -> BTreeSet<ErrKind> + Send + Sync>, Box<dyn Fn(usize) -> bool + Send + Sync>) {
    let w2 = w.clone();
    (
        Box::new(move |n| {
            if w.iter().all(|x| *x == 0) {
                return set(&[ErrKind::ZeroWeight]);
            }
            let mut s = BTreeSet::new();
            for i in 0..k {
                if w[i] > 0 {
                    s.extend(leaf_admits(MEMBERS[i], n));
                }
            }
            s
        }),
        Box::new(move |n| (0..k).any(|i| w2[i] > 0 && leaf_member(MEMBERS[i], n))),
    )
}

pub fn combo_configs(quick: bool) -> Vec<Config> {
    let ws: Vec<i64> = vec![0, 1, 2];
    let mut out = vec![];
    let t2 = || Tournament::new(NonZeroUsize::new(2).unwrap());
    for k in 2..=4usize {
        for wv in all_value_vectors(k, &ws) {
            let w: Vec<u32> = wv.iter().map(|x| *x as u32).collect();
            if quick && k == 4 && w.iter().filter(|x| **x == 2).count() > 1 {
                continue;
            }
            let mk = |name: &str, run: Runner, w: &Vec<u32>| {
                let (admits, member_ok) = combo_oracles(k, w.clone());
                Config { name: format!("{name}{w:?}"), run, admits, member_ok, alpha: if k == 4 { AlphaKind::Both } else { AlphaKind::Ranges }, extreme_pass: false }
            };
            match k {
                2 => {
                    let p = WeightedPair::new(Weighted::new(Best, w[0]), Weighted::new(Random, w[1])).unwrap();
                    out.push(mk("Pair", direct(p), &w));
                    let p = Weighted::new(Best, w[0]).with_item_and_weight(Random, w[1]).unwrap();
                    out.push(mk("dyn:Pair", erased(p), &w));
                }
                3 => {
                    let p = Weighted::new(Best, w[0]).with_item_and_weight(Random, w[1]).with_item_and_weight(t2(), w[2]).unwrap();
                    out.push(mk("L3", direct(p), &w));
                    let inner = WeightedPair::new(Weighted::new(Random, w[1]), Weighted::new(t2(), w[2])).unwrap();
                    let p = WeightedPair::new(Weighted::new(Best, w[0]), inner).unwrap();
                    out.push(mk("R3", by_ref(p), &w));
                }
                _ => {
                    let a = WeightedPair::new(Weighted::new(Best, w[0]), Weighted::new(Random, w[1])).unwrap();
                    let b = WeightedPair::new(Weighted::new(t2(), w[2]), Weighted::new(Lexicase::new(1), w[3])).unwrap();
                    out.push(mk("Bal4", direct(WeightedPair::new(a, b).unwrap()), &w));
                    let p = Weighted::new(Best, w[0])
                        .with_item_and_weight(Random, w[1])
                        .with_item_and_weight(t2(), w[2])
                        .with_item_and_weight(Lexicase::new(1), w[3])
                        .unwrap();
                    out.push(mk("Select:L4", via_select(p), &w));
                }
            }
        }
    }
    // one member carries the whole weight (every value 1..=200 and a few large ones), the partner none: a
    // member on every stream, the extreme words included; the zero-weight error is not admissible
    for w in (1u32..=200).chain([1009, 65_537, (1 << 24) + 1, (1u32 << 31) + 1, 3_000_000_019, u32::MAX]) {
        for (name, wv) in [("Pair", vec![w, 0]), ("Pair", vec![0, w])] {
            let p = WeightedPair::new(Weighted::new(Best, wv[0]), Weighted::new(Random, wv[1])).unwrap();
            let (admits, member_ok) = combo_oracles(2, wv.clone());
            out.push(Config { name: format!("{name}{wv:?}"), run: direct(p), admits, member_ok, alpha: AlphaKind::Ranges, extreme_pass: true });
        }
        if w >= 2 {
            let wv = vec![w / 3 + 1, w - (w / 3 + 1), 0];
            let p = Weighted::new(Best, wv[0]).with_item_and_weight(Random, wv[1]).with_item_and_weight(t2(), wv[2]).unwrap();
            let (admits, member_ok) = combo_oracles(3, wv.clone());
            out.push(Config { name: format!("L3{wv:?}"), run: direct(p), admits, member_ok, alpha: AlphaKind::Ranges, extreme_pass: true });
        }
    }
    // the dynamic list
    for k in 1..=3usize {
        for wv in all_value_vectors(k, &ws) {
            let w: Vec<u32> = wv.iter().map(|x| *x as u32).collect();
            let mut d: DynWeighted<Pop> = DynWeighted::new(Best, w[0] as usize);
            if k >= 2 {
                d = d.with_selector(Random, w[1] as usize);
            }
            if k >= 3 {
                d = d.with_selector(t2(), w[2] as usize);
            }
            let (admits, member_ok) = combo_oracles(k, w.clone());
            out.push(Config { name: format!("DynWeighted{w:?}"), run: direct(d), admits, member_ok, alpha: AlphaKind::Ranges, extreme_pass: false });
        }
    }
    // the dynamic list used between its building steps: a selection (from a throw-away stream) after every
    // `with_selector`, then the observed one; what a value reports must follow from what it holds *now*
    for k in 2..=3usize {
        for wv in all_value_vectors(k, &ws) {
            let w: Vec<u32> = wv.iter().map(|x| *x as u32).collect();
            let (admits, member_ok) = combo_oracles(k, w.clone());
            let w2 = w.clone();
            out.push(Config {
                name: format!("DynWeighted-stepwise{w:?}"),
                run: Box::new(move |pop, env, a| {
                    let mut tape = mcx::TapeRng::default();
                    let mut d: DynWeighted<Pop> = DynWeighted::new(Best, w2[0] as usize);
                    let _ = mcx::guarded(|| d.select(pop, &mut tape).is_ok());
                    d = d.with_selector(Random, w2[1] as usize);
                    if w2.len() >= 3 {
                        let _ = mcx::guarded(|| d.select(pop, &mut tape).is_ok());
                        d = d.with_selector(t2(), w2[2] as usize);
                    }
                    observe_select(&d, pop, pop, env, a)
                }),
                admits,
                member_ok,
                alpha: AlphaKind::Ranges,
                extreme_pass: false,
            });
        }
    }
    // weights whose total does not fit in usize (stepwise built): no documented error covers it, so any
    // error or any member is accepted -- but never a panic
    for (name, w) in [("huge1", vec![usize::MAX, 1]), ("huge2", vec![usize::MAX, usize::MAX]), ("huge3", vec![usize::MAX / 2 + 1, usize::MAX / 2 + 1, 1]), ("huge4", vec![1, usize::MAX])] {
        let mut d: DynWeighted<Pop> = DynWeighted::new(Best, w[0]);
        for x in &w[1..] {
            d = d.with_selector(Worst, *x);
        }
        out.push(Config {
            name: format!("DynWeighted/{name}"),
            run: direct(d),
            admits: Box::new(|_| set(&[ErrKind::Empty, ErrKind::ZeroWeight, ErrKind::Other, ErrKind::TournamentSize, ErrKind::MissingCase])),
            member_ok: Box::new(|n| n > 0),
            alpha: AlphaKind::Ranges,
            extreme_pass: false,
        });
    }
    out
}

pub fn pop_of(values: &[i64]) -> Pop {
    let rows: Vec<Vec<i64>> = values.iter().map(|v| vec![*v, (v * 7) % 3]).collect();
    mk_pop_matrix(&rows)
}

/// the same configuration on the alphabet that also contains the extreme words 0 and all-ones
fn extreme_alphabet(kind: AlphaKind) -> Alphabet {
    match kind {
        AlphaKind::Ranges => Alphabet::Ext(6),
        AlphaKind::Shuffles | AlphaKind::Both => Alphabet::Mixed { m: 6, r: 479_001_600, k: 6 },
    }
}

/// explore one (configuration, population)
fn scenario(c: &Config, values: &[i64]) -> (u64, u64, Option<(String, String)>, usize, bool) {
    let a = scenario_on(c, values, alphabet_for(c.alpha, values.len()));
    // (leaf configurations only: weighted combinations sample through rand's rejection loop, which the
    // all-zero word never leaves, so their trees on this alphabet are cut by the horizon anyway)
    if a.2.is_some() || values.len() > 3 || values.is_empty() || !c.extreme_pass {
        return a;
    }
    let b = scenario_on(c, values, extreme_alphabet(c.alpha));
    (a.0 + b.0, a.1 + b.1, b.2, a.3.max(b.3), a.4 || b.4)
}

fn scenario_on(c: &Config, values: &[i64], alpha: Alphabet) -> (u64, u64, Option<(String, String)>, usize, bool) {
    let n = values.len();
    let pop = pop_of(values);
    let admits = (c.admits)(n);
    let member_ok = (c.member_ok)(n);
    let mut outcomes: BTreeSet<SelObs> = BTreeSet::new();
    let mut bad: Option<(String, String)> = None;
    let label = format!("{} on values {values:?}", c.name);
    let st = explore(
        |env| {
            env.horizon = if matches!(alpha, Alphabet::Ext(_)) || c.extreme_pass && matches!(alpha, Alphabet::Mixed { m: 6, .. }) { 5 } else { 8 };
            (c.run)(&pop, env, alpha)
        },
        |_, _, o| {
            let ok = match &o {
                SelObs::Idx(_) => member_ok,
                SelObs::Err(k) => admits.contains(k),
                SelObs::NotMember | SelObs::Panic(_) => false,
            };
            if let (true, SelObs::Err(k), true) = (ok, &o, bad.is_none()) {
                // what the error says must be true of this call (every individual here has two results)
                if let Some(w) = error_details_wrong(*k, n, None, Some(2)) {
                    bad = Some((format!("select/error-details/{}", c.name.split('[').next().unwrap_or("")), format!("{label}: {w}")));
                }
            }
            if !ok && bad.is_none() {
                let kind = match &o {
                    SelObs::Idx(_) => "member-where-error-is-due",
                    SelObs::Err(_) => "undocumented-error",
                    SelObs::NotMember => "not-a-member",
                    SelObs::Panic(_) => "panic",
                };
                bad = Some((
                    format!("select/{kind}/{}", c.name.split('[').next().unwrap_or("")),
                    format!("{label}: result {o:?}; admissible: {} errors {admits:?}", if member_ok { "a member of the population or" } else { "only" }),
                ));
            }
            outcomes.insert(o);
        },
        3_000_000,
    );
    if std::env::var("VERIF_DEBUG").is_ok() {
        eprintln!("{label}: leaves {} capped {} beyond {}", st.leaves, st.capped, st.beyond_horizon);
    }
    if let Some(d) = &st.diverged {
        return (st.leaves, st.choice_points, Some((format!("select/nondeterministic/{}", c.name), format!("{label}: {d}"))), outcomes.len(), st.capped);
    }
    (st.leaves, st.choice_points, bad, outcomes.len(), st.capped)
}


/// Lexicase on *ragged* populations: every individual has its own number of results (0..=3), so a
/// missing case may strike at the first candidate, at a later candidate that is still in the running,
/// or not at all, depending on the case order.  Oracle: a member, or `MissingTestCase` -- admissible
/// only when the configured case count exceeds the result count of some individual -- never a panic.
fn ragged_rows(max_len: usize) -> Vec<Vec<i64>> {
    let mut rows: Vec<Vec<i64>> = vec![];
    for len in 0..=max_len {
        rows.extend(all_value_vectors(len, &[1, 2]));
    }
    rows
}
/// Does *every* ordering of the cases 0..c run into a result that a still-alive candidate lacks?  Computed
/// with the most lenient filtering (stop as soon as one candidate is left); an implementation that looks at
/// more cases only meets more missing results.  When this holds, no reading of lexicase selection can
/// return a member without ignoring a missing result.
pub fn missing_result_certain(rows: &[Vec<i64>], c: usize) -> bool {
    if rows.is_empty() || c == 0 {
        return false;
    }
    let mut order: Vec<usize> = (0..c).collect();
    loop {
        let mut cand: Vec<usize> = (0..rows.len()).collect();
        let mut hit = false;
        for &case in &order {
            if cand.len() <= 1 {
                break;
            }
            if cand.iter().any(|i| rows[*i].len() <= case) {
                hit = true;
                break;
            }
            let best = cand.iter().map(|i| rows[*i][case]).max().unwrap();
            cand.retain(|i| rows[*i][case] == best);
        }
        if !hit {
            return false;
        }
        // next permutation
        let mut i = order.len();
        loop {
            if i < 2 {
                return true;
            }
            if order[i - 2] < order[i - 1] {
                break;
            }
            i -= 1;
        }
        let mut j = order.len() - 1;
        while order[j] <= order[i - 2] {
            j -= 1;
        }
        order.swap(i - 2, j);
        order[i - 1..].reverse();
    }
}

fn ragged_scenario(rows: &[Vec<i64>], c: usize, erased_form: bool) -> (u64, u64, Option<(String, String)>, usize) {
    let pop = mk_pop_matrix(rows);
    let n = rows.len();
    let min_len = rows.iter().map(|r| r.len()).min().unwrap_or(0);
    let alpha = Alphabet::Rep { r: 479_001_600, k: 24 };
    let mut outcomes: BTreeSet<SelObs> = BTreeSet::new();
    let mut bad: Option<(String, String)> = None;
    let certain = missing_result_certain(rows, c);
    let lex = Lexicase::new(c);
    let boxed: Box<dyn DynSelector<Pop> + Send + Sync> = Box::new(Lexicase::new(c));
    let st = explore(
        |env| {
            env.horizon = 8;
            if erased_form {
                observe_select(&boxed, &pop, &pop, env, alpha)
            } else {
                observe_select(&lex, &pop, &pop, env, alpha)
            }
        },
        |_, _, o| {
            let ok = match &o {
                SelObs::Idx(_) => n > 0 && !certain,
                SelObs::Err(ErrKind::Empty) => n == 0,
                SelObs::Err(ErrKind::MissingCase) => c > min_len,
                _ => false,
            };
            if let (true, SelObs::Err(k), true) = (ok, &o, bad.is_none()) {
                if let Some(w) = error_details_wrong(*k, n, Some(c), Some(min_len)) {
                    bad = Some(("select/error-details/ragged-Lex".to_string(), format!("{}Lexicase({c}) on individuals with results {rows:?}: {w}", if erased_form { "dyn:" } else { "" })));
                }
            }
            if !ok && bad.is_none() {
                let kind = match &o {
                    SelObs::Idx(_) => "member-where-error-is-due",
                    SelObs::Err(_) => "undocumented-error",
                    SelObs::NotMember => "not-a-member",
                    SelObs::Panic(_) => "panic",
                };
                bad = Some((
                    format!("select/{kind}/ragged-Lex"),
                    format!("{}Lexicase({c}) on individuals with results {rows:?}: result {o:?}; admissible: {}{}", if erased_form { "dyn:" } else { "" }, if certain { "MissingTestCase only (every ordering of the cases meets a result that a remaining candidate lacks)" } else { "a member" }, if c > min_len && !certain { " or MissingTestCase" } else { "" }),
                ));
            }
            outcomes.insert(o);
        },
        3_000_000,
    );
    (st.leaves, st.choice_points, bad, outcomes.len())
}
pub fn ragged_lexicase(run: &mut Run) {
    let quick = run.quick();
    let rows = ragged_rows(3);
    let max_n = if quick { 3 } else { 4 };
    let mut pops: Vec<Vec<Vec<i64>>> = vec![];
    for n in 1..=max_n {
        // all ordered n-tuples of rows (n = 4: only result lengths <= 2 to keep it bounded)
        let pool: Vec<&Vec<i64>> = if n == 4 { rows.iter().filter(|r| r.len() <= 2).collect() } else { rows.iter().collect() };
        let mut idx = vec![0usize; n];
        loop {
            pops.push(idx.iter().map(|i| pool[*i].clone()).collect());
            let mut k = 0;
            while k < n {
                idx[k] += 1;
                if idx[k] < pool.len() {
                    break;
                }
                idx[k] = 0;
                k += 1;
            }
            if k == n {
                break;
            }
        }
    }
    let jobs: Vec<(usize, usize, bool)> = (0..pops.len()).flat_map(|p| (0..=3usize).flat_map(move |c| [(p, c, false), (p, c, true)])).collect();
    let results = mcx::par_map(jobs.len(), |j| ragged_scenario(&pops[jobs[j].0], jobs[j].1, jobs[j].2));
    let mut nontrivial = 0u64;
    let mut with_error = 0u64;
    for (j, (leaves, cps, v, outcomes)) in results.into_iter().enumerate() {
        run.evaluations += leaves;
        run.transitions += cps;
        if outcomes > 1 {
            nontrivial += 1;
        }
        let (p, c, _) = jobs[j];
        if pops[p].iter().any(|r| r.len() < c) {
            with_error += 1;
        }
        if let Some((k, w)) = v {
            run.violation(k, w, json!({"check":"C06","ragged":pops[p],"cases":c,"erased":jobs[j].2}));
        }
    }
    run.states += jobs.len() as u64;
    run.distinct_nontrivial += nontrivial;
    run.note("ragged.scenarios", json!(jobs.len()));
    run.note("ragged.scenarios_with_a_short_individual", json!(with_error));
    run.bound("ragged.max_population", json!(max_n));
    run.bound("ragged.results_per_individual", json!("0..=3 over values {1,2}, chosen per individual"));
}

pub fn run(run: &mut Run) {
    let quick = run.quick();
    let max_n = if quick { 3 } else { 4 };
    let mut configs = leaf_configs(max_n);
    configs.extend(combo_configs(quick));
    let mut pops: Vec<Vec<i64>> = vec![];
    for n in 0..=max_n {
        pops.extend(all_value_vectors(n, &[1, 2, 3]));
    }
    let big4: Vec<Vec<i64>> = vec![vec![1, 1, 1, 1], vec![1, 2, 3, 1], vec![3, 2, 1, 2], vec![2, 2, 3, 3], vec![1, 3, 3, 3]];
    let jobs: Vec<(usize, usize)> = (0..configs.len())
        .flat_map(|c| (0..pops.len()).map(move |p| (c, p)))
        .filter(|(c, p)| !(matches!(configs[*c].alpha, AlphaKind::Both) && pops[*p].len() == 4 && !big4.contains(&pops[*p])))
        .collect();
    let results = mcx::par_map(jobs.len(), |j| scenario(&configs[jobs[j].0], &pops[jobs[j].1]));
    let mut nontrivial = 0;
    let mut capped = 0u64;
    for (j, (leaves, cps, v, outcomes, cap)) in results.into_iter().enumerate() {
        run.evaluations += leaves;
        run.transitions += cps;
        if outcomes > 1 {
            nontrivial += 1;
        }
        if cap {
            capped += 1;
        }
        if let Some((k, w)) = v {
            run.violation(k, w, json!({"check":"C06","config":configs[jobs[j].0].name,"values":pops[jobs[j].1]}));
        }
    }
    if capped > 0 {
        run.cap_hit(format!("{capped} scenarios stopped at 3,000,000 executions"));
    }
    run.states = jobs.len() as u64;
    run.distinct_nontrivial = nontrivial;
    ragged_lexicase(run);
    crate::bigpop::run_family(run, crate::bigpop::BigMode::Member);
    run.traces_validated = run.evaluations;
    run.rule = "every selector configuration (Best, Worst, Random, Tournament(1..n+1), Lexicase(0..3 cases, 2 results available), lone Weighted, WeightedPair nestings of 2..4 real selectors, DynWeighted lists of 1..3 (also with a selection made after every building step); direct, behind &, through Select, and type-erased) x every population of size 0..n over 3 values x every word sequence of the mixed Grid(12)+Rep(12!,24) alphabet, and (n <= 3) of the alphabets that add the extreme words 0 and all-ones; plus Lexicase(0..3), direct and erased, on every ragged population (each individual with its own 0..3 results); plus large populations (big.population_sizes, 10 structured populations) for Best, Worst, Random, Lexicase(2), Lexicase(3) with one individual a result short (all tied: MissingTestCase is certain) and tournaments of sizes {1,2,3,7,11,12,16,17,31..33,64,65,162..164,n/65,n/64,n/3,n/2,n-2,n-1,n,n+1} on all streams of big.streams: a member or the documented tournament-size error; a reported error's details are true of the call (population size of a tournament-size error; index and count of a missing-test-case error); non-trivial = scenarios with more than one distinct outcome".into();
    run.bound("max_population", json!(max_n));
    run.bound("configurations", json!(configs.len()));
    run.bound("populations", json!(pops.len()));
    run.assumptions = vec!["the mixed alphabet reaches every decision of range draws with range dividing 12 and every permutation of up to 4 shuffled items; leaf weights are not used by this check".into()];
    run.sample(json!({"config":"Tour(3)","values":[1,1],"expected":"TournamentSizeError"}));
    run.sample(json!({"config":"Bal4[0, 1, 2, 0]","values":[2,3,1],"expected":"a member (pointer-identical) of the population"}));
}

pub fn replay(v: &Value) -> bool {
    if v["big"] == json!(true) {
        return crate::bigpop::replay(crate::bigpop::BigMode::Member, v);
    }
    if let Some(rows) = v["ragged"].as_array() {
        let rows: Vec<Vec<i64>> = rows.iter().map(|r| r.as_array().map(|a| a.iter().filter_map(|x| x.as_i64()).collect()).unwrap_or_default()).collect();
        let c = v["cases"].as_u64().unwrap_or(0) as usize;
        let (leaves, _, viol, outcomes) = ragged_scenario(&rows, c, v["erased"].as_bool().unwrap_or(false));
        println!("Lexicase({c}) on results {rows:?}: {leaves} executions, {outcomes} distinct outcomes");
        return match viol {
            Some((k, w)) => {
                println!("MISMATCH [{k}]: {w}");
                false
            }
            None => {
                println!("replay: property held");
                true
            }
        };
    }
    let name = v["config"].as_str().unwrap_or("");
    let values: Vec<i64> = v["values"].as_array().map(|a| a.iter().filter_map(|x| x.as_i64()).collect()).unwrap_or_default();
    let mut configs = leaf_configs(4);
    configs.extend(combo_configs(false));
    let Some(c) = configs.iter().find(|c| c.name == name) else {
        println!("unknown configuration {name}");
        return false;
    };
    let (leaves, _, viol, outcomes, _) = scenario(c, &values);
    println!("{name} on {values:?}: {leaves} executions, {outcomes} distinct outcomes");
    match viol {
        Some((k, w)) => {
            println!("MISMATCH [{k}]: {w}");
            false
        }
        None => {
            println!("replay: property held");
            true
        }
    }
}
