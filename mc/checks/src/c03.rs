//! C03 — program evaluation is total and bounded; only stack overflow aborts it.
//! Engine E3 over growth programs x capacities x step limits, each run on the
//! real `run_to_completion`; intrinsic (reference-free) bounds plus agreement of
//! the result kind/state with the set `PushRef` admits.  The sweep runs in a
//! child process so that an abort or a hang of the subject is a verdict about
//! the subject, not a crash of the checker.

use crate::c01::{rstate_json, Mode};
use crate::interp::{exec_variant, gene_name, int_variant, localise, run_real, run_replay_json, RealFinal};
use crate::pushref::*;
use crate::vm::*;
use mcx::Run;
use push::genome::plushy::{Plushy, PushGene};
use push::instruction::printing::PrintString;
use push::instruction::{ExecInstruction, IntInstruction, PushInstruction};
use push::push_vm::program::PushProgram;
use serde_json::{json, Value};
use std::io::Write;

pub fn growth_alphabet() -> Vec<PushGene> {
    let i = |x: PushInstruction| PushGene::Instruction(x);
    vec![
        i(ExecInstruction::dup_block().into()),
        i(exec_variant("Dup").into()),
        i(exec_variant("Swap").into()),
        i(exec_variant("Flush").into()),
        i(exec_variant("StackDepth").into()),
        i(ExecInstruction::if_else().into()),
        i(ExecInstruction::when().into()),
        PushGene::Close,
        i(PushInstruction::push_int(3)),
        i(PushInstruction::push_bool(true)),
        i(int_variant("Dup").into()),
        i(int_variant("StackDepth").into()),
        i(IntInstruction::Multiply.into()),
        i(IntInstruction::Square.into()),
        i(IntInstruction::Power.into()),
        i(PushInstruction::PrintString(PrintString::new("x".into()))),
    ]
}

pub fn cap_configs() -> Vec<[usize; 4]> {
    let mut v = vec![[8usize; 4]];
    for c in 0..=4usize {
        v.push([c; 4]);
    }
    for s in 0..4 {
        for c in 0..=4usize {
            let mut k = [8usize; 4];
            k[s] = c;
            v.push(k);
        }
    }
    v
}

/// One case: intrinsic bounds + admissibility.  Returns (key, what) on violation.
pub fn check_case(r: &RState, limit: usize, label: &str, undecided: &mut u64) -> Option<(String, String)> {
    let real = run_real(r, limit);
    let (state, aborted) = match &real {
        RealFinal::Done(s) => (s, false),
        RealFinal::Aborted(s, _) => (s, true),
        RealFinal::Panic(p) => {
            return Some((
                format!("panic/{label}"),
                format!("program [{label}] caps {:?} limit {limit} panicked: {p}", r.caps),
            ))
        }
    };
    let o = observe(state);
    // no stack above its maximum, in returned and carried states alike
    if !o.within_caps() {
        return Some((
            format!("above-max/{label}"),
            format!("program [{label}] caps {:?} limit {limit}: a stack exceeds its maximum: {}", r.caps, rstate_json(&o)),
        ));
    }
    // at most `limit` instruction steps: every PrintString("x") that ran left an x
    let xs = o.out.iter().filter(|b| **b == b'x').count();
    if xs > limit {
        return Some((
            format!("steps/{label}"),
            format!("program [{label}] limit {limit}: {xs} print instructions ran"),
        ));
    }
    if limit == 0 && (aborted || o != *r) {
        return Some((
            format!("limit0/{label}"),
            format!("program [{label}]: step limit 0 did not return the input unchanged: {}", rstate_json(&o)),
        ));
    }
    // result kind (error iff a push would exceed a capacity) and final state
    let mut undec = false;
    let adm = match admissible_finals(r, limit, 4 * limit + 32, &mut undec) {
        Ok(a) => a,
        Err(e) => return Some((format!("machinery/{label}"), e)),
    };
    if undec {
        *undecided += 1;
        return None;
    }
    let ok = match &real {
        RealFinal::Done(s) => adm.iter().any(|f| matches!(f, Final::Done(t) if real_matches(s, t))),
        RealFinal::Aborted(s, _) => adm.iter().any(|f| matches!(f, Final::Aborted(t) if real_matches(s, t))),
        RealFinal::Panic(_) => false,
    };
    if !ok {
        let kind_ok = adm.iter().any(|f| matches!(f, Final::Aborted(_)) == aborted);
        let key = if kind_ok {
            localise(r, limit, label)
        } else if aborted {
            format!("aborted-without-overflow/{label}")
        } else {
            format!("overflow-not-reported/{label}")
        };
        return Some((
            key,
            format!(
                "program [{label}] caps {:?} limit {limit} ended as {} {}; the semantics admit {}",
                r.caps,
                if aborted { "Err" } else { "Ok" },
                rstate_json(&o),
                Value::Array(adm.iter().map(crate::interp::final_json).collect())
            ),
        ));
    }
    None
}

fn shard_prefixes(n: usize) -> Vec<Vec<usize>> {
    let mut v = vec![vec![]];
    for a in 0..n {
        for b in 0..n {
            v.push(vec![a, b]);
        }
    }
    v
}

struct ShardOut {
    programs: u64,
    runs: u64,
    undecided: u64,
    aborted: u64,
    truncated: u64,
    viols: Vec<(String, String, Value)>,
}

fn run_shard(prefix: &[usize], max_len: usize, max_limit: usize, verbose: bool) -> ShardOut {
    let alpha = growth_alphabet();
    let n = alpha.len();
    let caps_all = cap_configs();
    let mut out = ShardOut {
        programs: 0,
        runs: 0,
        undecided: 0,
        aborted: 0,
        truncated: 0,
        viols: vec![],
    };
    let mut visit = |g: &[usize]| {
        let genes: Vec<PushGene> = g.iter().map(|i| alpha[*i].clone()).collect();
        let label: String = genes.iter().map(gene_name).collect::<Vec<_>>().join(" ");
        let program: Vec<PushProgram> = Vec::<PushProgram>::from(Plushy::new(genes));
        out.programs += 1;
        // the per-stack capacity configurations only for shorter programs (cost)
        let caps_list: &[[usize; 4]] = &caps_all[..];
        for caps in caps_list {
            if program.len() > caps[EXEC] {
                continue;
            }
            let mut r = RState::empty(*caps);
            r.inputs = default_inputs();
            r.exec = program.iter().rev().cloned().collect();
            for limit in 0..=max_limit {
                if verbose {
                    println!("case: [{label}] caps {caps:?} limit {limit}");
                    let _ = std::io::stdout().flush();
                }
                out.runs += 1;
                if let Some((k, w)) = check_case(&r, limit, &label, &mut out.undecided) {
                    if out.viols.len() < 10 {
                        out.viols.push((k, w, run_replay_json(Mode::C01, &r, limit, &label)));
                    }
                }
                if limit == max_limit {
                    match run_real(&r, limit) {
                        RealFinal::Aborted(..) => out.aborted += 1,
                        RealFinal::Done(s) => {
                            if !observe(&s).exec.is_empty() {
                                out.truncated += 1
                            }
                        }
                        _ => {}
                    }
                }
            }
        }
    };
    if prefix.is_empty() {
        visit(&[]);
        for a in 0..n {
            visit(&[a]);
        }
    } else if max_len >= 2 {
        fn go(n: usize, cur: &mut Vec<usize>, max_len: usize, f: &mut impl FnMut(&[usize])) {
            f(cur);
            if cur.len() == max_len {
                return;
            }
            for g in 0..n {
                cur.push(g);
                go(n, cur, max_len, f);
                cur.pop();
            }
        }
        let mut cur = prefix.to_vec();
        go(n, &mut cur, max_len, &mut visit);
    }
    out
}

fn bounds(quick: bool) -> (usize, usize) {
    if quick {
        (4, 10)
    } else {
        (5, 20)
    }
}

/// The child: runs the whole sweep, prints one JSON line of results.
pub fn child(tier: &str) {
    let quick = tier != "thorough";
    let (max_len, max_limit) = bounds(quick);
    let shards = shard_prefixes(growth_alphabet().len());
    let results = mcx::par_map(shards.len(), |k| {
        // announce the shard so that the parent can name it if the process dies
        {
            let mut o = std::io::stdout().lock();
            let _ = writeln!(o, "SHARD-START {k}");
        }
        let r = run_shard(&shards[k], max_len, max_limit, false);
        {
            let mut o = std::io::stdout().lock();
            let _ = writeln!(o, "SHARD-END {k}");
        }
        r
    });
    let mut tot = json!({"programs":0u64,"runs":0u64,"undecided":0u64,"aborted":0u64,"truncated":0u64});
    let mut viols = vec![];
    for r in results {
        for (k, v) in [("programs", r.programs), ("runs", r.runs), ("undecided", r.undecided), ("aborted", r.aborted), ("truncated", r.truncated)] {
            tot[k] = json!(tot[k].as_u64().unwrap() + v);
        }
        for (k, w, rp) in r.viols {
            viols.push(json!({"key": k, "what": w, "replay": rp}));
        }
    }
    // deep nesting smoke guard (not a verdict about unbounded depth)
    let depth = 2000usize;
    let mut genes: Vec<PushGene> = vec![];
    for _ in 0..depth {
        genes.push(PushGene::Instruction(ExecInstruction::dup_block().into()));
    }
    genes.push(PushGene::Instruction(PushInstruction::push_int(1)));
    let program: Vec<PushProgram> = Vec::<PushProgram>::from(Plushy::new(genes));
    let mut r = RState::empty([4096; 4]);
    r.exec = program.iter().rev().cloned().collect();
    let deep_ok = matches!(run_real(&r, 10_000), RealFinal::Done(_) | RealFinal::Aborted(..));
    tot["deep_nesting_smoke_ok"] = json!(deep_ok);
    tot["violations"] = Value::Array(viols);
    println!("RESULT {}", tot);
}

pub fn run(run: &mut Run) {
    let quick = run.quick();
    let (max_len, max_limit) = bounds(quick);
    let exe = std::env::current_exe().expect("current exe");
    let wall_cap = if quick { 300 } else { 3600 };
    let mut child = std::process::Command::new(exe)
        .args(["C03-child", "--tier", &run.tier])
        .stdout(std::process::Stdio::piped())
        .stderr(std::process::Stdio::null())
        .spawn()
        .expect("spawn child");
    let stdout = child.stdout.take().unwrap();
    let (tx, rx) = std::sync::mpsc::channel::<String>();
    std::thread::spawn(move || {
        use std::io::BufRead;
        for line in std::io::BufReader::new(stdout).lines().map_while(Result::ok) {
            if tx.send(line).is_err() {
                break;
            }
        }
    });
    let start = std::time::Instant::now();
    let mut open: std::collections::BTreeSet<usize> = Default::default();
    let mut result: Option<Value> = None;
    let mut hung = false;
    loop {
        match rx.recv_timeout(std::time::Duration::from_millis(200)) {
            Ok(line) => {
                if let Some(k) = line.strip_prefix("SHARD-START ") {
                    open.insert(k.trim().parse().unwrap_or(0));
                } else if let Some(k) = line.strip_prefix("SHARD-END ") {
                    open.remove(&k.trim().parse().unwrap_or(0));
                } else if let Some(j) = line.strip_prefix("RESULT ") {
                    result = serde_json::from_str(j).ok();
                }
            }
            Err(std::sync::mpsc::RecvTimeoutError::Timeout) => {
                if start.elapsed().as_secs() > wall_cap {
                    hung = true;
                    let _ = child.kill();
                    break;
                }
            }
            Err(std::sync::mpsc::RecvTimeoutError::Disconnected) => break,
        }
    }
    let status = child.wait().ok();
    run.bound("max_genome_len", json!(max_len));
    run.bound("step_limits", json!(format!("0..={max_limit}")));
    run.bound("capacity_configurations", json!(cap_configs().len()));
    run.bound("gene_alphabet", json!(growth_alphabet().iter().map(gene_name).collect::<Vec<_>>()));
    run.rule = "all genomes up to the length bound over the growth alphabet (block duplication, exec dup/swap/flush, conditionals, squaring/power chains, output), every capacity 0..4 globally and per stack, every step limit; each run on the real run_to_completion in a child process; non-trivial = runs whose admissible result is an abort or a truncation by the limit".into();
    run.assumptions = vec![
        "PushRef + tolerance sets decide which result kinds are admissible".into(),
        "unbounded nesting depth is a resource limit outside any enumerable bound (DESIGN C03); a depth-2000 run is a smoke guard only".into(),
    ];
    if hung {
        let shards = shard_prefixes(growth_alphabet().len());
        let k = open.iter().next().copied().unwrap_or(0);
        run.violation(
            format!("hang/shard-{k}"),
            format!("evaluation did not return within {wall_cap}s (open shards {:?}, first prefix {:?})", open, shards.get(k)),
            json!({"check":"C03","kind":"shard","shard":k,"tier":run.tier}),
        );
        return;
    }
    let Some(res) = result else {
        let k = open.iter().next().copied().unwrap_or(0);
        run.violation(
            format!("process-abort/shard-{k}"),
            format!("the evaluation process died ({status:?}) while shards {open:?} were running (stack overflow, abort or allocation failure in the subject)"),
            json!({"check":"C03","kind":"shard","shard":k,"tier":run.tier}),
        );
        return;
    };
    run.evaluations = res["runs"].as_u64().unwrap_or(0);
    run.transitions = run.evaluations;
    run.traces_validated = run.evaluations;
    run.states = res["programs"].as_u64().unwrap_or(0);
    run.distinct_nontrivial = res["aborted"].as_u64().unwrap_or(0) + res["truncated"].as_u64().unwrap_or(0);
    run.note("programs", res["programs"].clone());
    run.note("runs_undecided_by_pop_cap", res["undecided"].clone());
    run.note("programs_aborting_at_max_limit", res["aborted"].clone());
    run.note("programs_truncated_at_max_limit", res["truncated"].clone());
    run.note("deep_nesting_smoke_ok", res["deep_nesting_smoke_ok"].clone());
    if res["deep_nesting_smoke_ok"] != json!(true) {
        run.violation("deep-nesting-2000", "a 2000-deep nested program did not evaluate", json!({"check":"C03","kind":"deep"}));
    }
    if res["aborted"].as_u64().unwrap_or(0) == 0 || res["truncated"].as_u64().unwrap_or(0) == 0 {
        run.machinery("vacuity: no aborting or no truncated program in the sweep");
    }
    for v in res["violations"].as_array().cloned().unwrap_or_default() {
        let k = v["key"].as_str().unwrap_or("?").to_string();
        let w = v["what"].as_str().unwrap_or("?").to_string();
        if k.starts_with("machinery/") {
            run.machinery(w);
        } else {
            run.violation(k, w, v["replay"].clone());
        }
    }
    run.sample(json!({"genome": "Exec-DupBlock Exec-Dup Close", "caps": [2, 2, 2, 2], "limits": format!("0..={max_limit}"), "expected": "fatal overflow of the exec stack once the copies exceed 2"}));
    run.sample(json!({"genome": "Int-Push(3) Int-Square Int-Square Int-Square Int-Square", "expected": "last squarings overflow i64 and are skipped; evaluation returns Ok"}));
}

pub fn replay(v: &Value) -> bool {
    match v["kind"].as_str() {
        Some("run") => crate::interp::replay_run(Mode::C01, v),
        Some("shard") => {
            let k = v["shard"].as_u64().unwrap_or(0) as usize;
            let quick = v["tier"].as_str() != Some("thorough");
            let (max_len, max_limit) = bounds(quick);
            let shards = shard_prefixes(growth_alphabet().len());
            println!("re-running shard {k} (prefix {:?}) case by case; the last case printed is the one that does not return", shards[k]);
            let r = run_shard(&shards[k], max_len, max_limit, true);
            println!("shard finished: {} runs, {} violations", r.runs, r.viols.len());
            r.viols.is_empty()
        }
        _ => false,
    }
}
