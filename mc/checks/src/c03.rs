//! C03 — program evaluation is total and bounded; only stack overflow aborts it.
//! Engine E3 over growth programs x capacities x step limits, each run on the
//! real `run_to_completion`; intrinsic (reference-free) bounds plus agreement of
//! the result kind/state with the set `PushRef` admits.  The sweep runs in a
//! child process so that an abort or a hang of the subject is a verdict about
//! the subject, not a crash of the checker.

use crate::c01::{rstate_json, Mode};
use crate::interp::{exec_variant, gene_name, int_variant, localise, run_real, run_replay_json, RealFinal};
use crate::pushref::*;
use crate::vm::*;
use mcx::Run;
use push::genome::plushy::{Plushy, PushGene};
use push::instruction::printing::PrintString;
use push::instruction::{ExecInstruction, IntInstruction, PushInstruction};
use push::push_vm::program::PushProgram;
use serde_json::{json, Value};
use std::io::Write;

pub fn growth_alphabet() -> Vec<PushGene> {
    let i = |x: PushInstruction| PushGene::Instruction(x);
    vec![
        i(ExecInstruction::dup_block().into()),
        i(exec_variant("Dup").into()),
        i(exec_variant("Swap").into()),
        i(exec_variant("Flush").into()),
        i(exec_variant("StackDepth").into()),
        i(ExecInstruction::if_else().into()),
        i(ExecInstruction::when().into()),
        PushGene::Close,
        i(PushInstruction::push_int(3)),
        i(PushInstruction::push_bool(true)),
        i(int_variant("Dup").into()),
        i(int_variant("StackDepth").into()),
        i(IntInstruction::Multiply.into()),
        i(IntInstruction::Square.into()),
        i(IntInstruction::Power.into()),
        i(PushInstruction::PrintString(PrintString::new("x".into()))),
    ]
}

pub fn cap_configs() -> Vec<[usize; 4]> {
    let mut v = vec![[8usize; 4]];
    for c in 0..=4usize {
        v.push([c; 4]);
    }
    for s in 0..4 {
        for c in 0..=4usize {
            let mut k = [8usize; 4];
            k[s] = c;
            v.push(k);
        }
    }
    v
}

/// One case: intrinsic bounds + admissibility.  Returns (key, what) on violation.
pub fn check_case(r: &RState, limit: usize, label: &str, undecided: &mut u64) -> Option<(String, String)> {
    check_case_with_cap(r, limit, label, undecided, 4 * limit + 32)
}
pub fn check_case_with_cap(r: &RState, limit: usize, label: &str, undecided: &mut u64, pop_cap: usize) -> Option<(String, String)> {
    let real = run_real(r, limit);
    let (state, aborted) = match &real {
        RealFinal::Done(s) => (s, false),
        RealFinal::Aborted(s, _) => (s, true),
        RealFinal::Panic(p) => {
            return Some((
                format!("panic/{label}"),
                format!("program [{label}] caps {:?} limit {limit} panicked: {p}", r.caps),
            ))
        }
    };
    let o = observe(state);
    // no stack above its maximum, in returned and carried states alike
    if !o.within_caps() {
        return Some((
            format!("above-max/{label}"),
            format!("program [{label}] caps {:?} limit {limit}: a stack exceeds its maximum: {}", r.caps, rstate_json(&o)),
        ));
    }
    // at most `limit` instruction steps: every PrintString("x") that ran left an x
    let xs = o.out.iter().filter(|b| **b == b'x').count();
    if xs > limit {
        return Some((
            format!("steps/{label}"),
            format!("program [{label}] limit {limit}: {xs} print instructions ran"),
        ));
    }
    if limit == 0 && (aborted || o != *r) {
        return Some((
            format!("limit0/{label}"),
            format!("program [{label}]: step limit 0 did not return the input unchanged: {}", rstate_json(&o)),
        ));
    }
    // result kind (error iff a push would exceed a capacity) and final state
    let mut undec = false;
    let adm = match admissible_finals(r, limit, pop_cap, &mut undec) {
        Ok(a) => a,
        Err(e) => return Some((format!("machinery/{label}"), e)),
    };
    if undec {
        *undecided += 1;
        return None;
    }
    let ok = match &real {
        RealFinal::Done(s) => adm.iter().any(|f| matches!(f, Final::Done(t) if real_matches(s, t))),
        RealFinal::Aborted(s, _) => adm.iter().any(|f| matches!(f, Final::Aborted(t) if real_matches(s, t))),
        RealFinal::Panic(_) => false,
    };
    if !ok {
        let kind_ok = adm.iter().any(|f| matches!(f, Final::Aborted(_)) == aborted);
        let key = if kind_ok {
            localise(r, limit, label)
        } else if aborted {
            format!("aborted-without-overflow/{label}")
        } else {
            format!("overflow-not-reported/{label}")
        };
        return Some((
            key,
            format!(
                "program [{label}] caps {:?} limit {limit} ended as {} {}; the semantics admit {}",
                r.caps,
                if aborted { "Err" } else { "Ok" },
                rstate_json(&o),
                Value::Array(adm.iter().map(crate::interp::final_json).collect())
            ),
        ));
    }
    None
}

fn shard_prefixes(n: usize) -> Vec<Vec<usize>> {
    let mut v = vec![vec![]];
    for a in 0..n {
        for b in 0..n {
            v.push(vec![a, b]);
        }
    }
    v
}

struct ShardOut {
    programs: u64,
    runs: u64,
    undecided: u64,
    aborted: u64,
    truncated: u64,
    viols: Vec<(String, String, Value)>,
}

fn run_shard(prefix: &[usize], max_len: usize, max_limit: usize, verbose: bool) -> ShardOut {
    let alpha = growth_alphabet();
    let n = alpha.len();
    let caps_all = cap_configs();
    let mut out = ShardOut {
        programs: 0,
        runs: 0,
        undecided: 0,
        aborted: 0,
        truncated: 0,
        viols: vec![],
    };
    let mut visit = |g: &[usize]| {
        let genes: Vec<PushGene> = g.iter().map(|i| alpha[*i].clone()).collect();
        let label: String = genes.iter().map(gene_name).collect::<Vec<_>>().join(" ");
        let program: Vec<PushProgram> = Vec::<PushProgram>::from(Plushy::new(genes));
        out.programs += 1;
        // the per-stack capacity configurations only for shorter programs (cost)
        let caps_list: &[[usize; 4]] = &caps_all[..];
        for caps in caps_list {
            if program.len() > caps[EXEC] {
                continue;
            }
            let mut r = RState::empty(*caps);
            r.inputs = default_inputs();
            r.exec = program.iter().rev().cloned().collect();
            for limit in 0..=max_limit {
                if verbose {
                    println!("case: [{label}] caps {caps:?} limit {limit}");
                    let _ = std::io::stdout().flush();
                }
                out.runs += 1;
                if let Some((k, w)) = check_case(&r, limit, &label, &mut out.undecided) {
                    if out.viols.len() < 10 {
                        out.viols.push((k, w, run_replay_json(Mode::C01, &r, limit, &label)));
                    }
                }
                if limit == max_limit {
                    match run_real(&r, limit) {
                        RealFinal::Aborted(..) => out.aborted += 1,
                        RealFinal::Done(s) => {
                            if !observe(&s).exec.is_empty() {
                                out.truncated += 1
                            }
                        }
                        _ => {}
                    }
                }
            }
        }
    };
    if prefix.is_empty() {
        visit(&[]);
        for a in 0..n {
            visit(&[a]);
        }
    } else if max_len >= 2 {
        fn go(n: usize, cur: &mut Vec<usize>, max_len: usize, f: &mut impl FnMut(&[usize])) {
            f(cur);
            if cur.len() == max_len {
                return;
            }
            for g in 0..n {
                cur.push(g);
                go(n, cur, max_len, f);
                cur.pop();
            }
        }
        let mut cur = prefix.to_vec();
        go(n, &mut cur, max_len, &mut visit);
    }
    out
}

fn bounds(quick: bool) -> (usize, usize) {
    if quick {
        (4, 10)
    } else {
        (5, 20)
    }
}

/// The child: runs the whole sweep, prints one JSON line of results.
pub fn child(tier: &str) {
    let quick = tier != "thorough";
    // a case that does not return is handed to the parent as one line and ends this process
    mcx::watch::start_with(
        "C03",
        tier,
        std::time::Duration::from_secs(60),
        Some(Box::new(|key, what, replay| {
            let mut o = std::io::stdout().lock();
            let _ = writeln!(o, "HANG {}", json!({"key": key, "what": what, "replay": replay}));
            let _ = o.flush();
        })),
    );
    let (max_len, max_limit) = bounds(quick);
    let shards = shard_prefixes(growth_alphabet().len());
    let results = mcx::par_map(shards.len(), |k| {
        // announce the shard so that the parent can name it if the process dies
        {
            let mut o = std::io::stdout().lock();
            let _ = writeln!(o, "SHARD-START {k}");
        }
        let r = run_shard(&shards[k], max_len, max_limit, false);
        {
            let mut o = std::io::stdout().lock();
            let _ = writeln!(o, "SHARD-END {k}");
        }
        r
    });
    let mut tot = json!({"programs":0u64,"runs":0u64,"undecided":0u64,"aborted":0u64,"truncated":0u64});
    let mut viols = vec![];
    for r in results {
        for (k, v) in [("programs", r.programs), ("runs", r.runs), ("undecided", r.undecided), ("aborted", r.aborted), ("truncated", r.truncated)] {
            tot[k] = json!(tot[k].as_u64().unwrap() + v);
        }
        for (k, w, rp) in r.viols {
            viols.push(json!({"key": k, "what": w, "replay": rp}));
        }
    }
    // deep-nesting family: d nested conditional blocks, d dense up to 300 and around powers of two,
    // run under the step limits around every phase boundary, compared with the reference exactly
    let depths = crate::c05::deep_depths(quick).into_iter().filter(|d| *d <= 1026).collect::<Vec<_>>();
    let deep = mcx::par::par_map_big(depths.len(), 4usize << 30, |k| {
        let d = depths[k];
        let mut runs = 0u64;
        let mut undecided = 0u64;
        let mut viols: Vec<(String, String, Value)> = vec![];
        for kind in ["when-true", "unless-false", "ifelse-true", "when-false"] {
            let mut genes: Vec<PushGene> = vec![];
            for _ in 0..d {
                let (b, op): (bool, PushInstruction) = match kind {
                    "when-true" => (true, ExecInstruction::when().into()),
                    "unless-false" => (false, ExecInstruction::unless().into()),
                    "ifelse-true" => (true, ExecInstruction::if_else().into()),
                    _ => (false, ExecInstruction::when().into()),
                };
                genes.push(PushGene::Instruction(PushInstruction::push_bool(b)));
                genes.push(PushGene::Instruction(op));
            }
            genes.push(PushGene::Instruction(PushInstruction::push_int(1)));
            genes.push(PushGene::Instruction(PushInstruction::PrintString(PrintString::new("x".into()))));
            let program: Vec<PushProgram> = Vec::<PushProgram>::from(Plushy::new(genes));
            let label = format!("deep/{kind}/d={d}");
            for caps in [[usize::MAX; 4], [4, 1, 1, 1], [3, 1, 1, 1]] {
                if program.len() > caps[EXEC] {
                    continue;
                }
                let mut r = RState::empty(caps);
                r.exec = program.iter().rev().cloned().collect();
                let total = 3 * d + 2;
                let mut limits = vec![0usize, 1, 2, 3, 4, total.saturating_sub(3), total - 2, total - 1, total, total + 1, 1_000_000];
                limits.dedup();
                for limit in limits {
                    runs += 1;
                    let mut u = 0u64;
                    if let Some((k, w)) = check_case_with_cap(&r, limit, &label, &mut u, total + 8) {
                        if viols.len() < 2 {
                            let w: String = w.chars().take(600).collect();
                            viols.push((if k.starts_with("interp/") { format!("interp/{label}") } else { k }, w, json!({"check":"C03","kind":"deep","deep_kind":kind,"depth":d,"caps":caps.iter().map(|c| c.to_string()).collect::<Vec<_>>(),"limit":limit})));
                        }
                    }
                    undecided += u;
                }
            }
        }
        (runs, undecided, viols)
    });
    let mut deep_runs = 0u64;
    let mut deep_undecided = 0u64;
    for (r, u, v) in deep {
        deep_runs += r;
        deep_undecided += u;
        for (k, w, rp) in v {
            viols.push(json!({"key": k, "what": w, "replay": rp}));
        }
    }
    // long runs: step limits and program lengths around 2^8 and 2^16 (a narrow step counter or index
    // would wrap there), on a flat program and on a bounded loop (exec dup of a block that ends in exec dup)
    {
        let flat_lens: Vec<usize> = if quick { (9usize..=70).chain([97, 255, 256, 257, 300]).collect() } else { (9usize..=300).chain([1009, 65535, 65536, 65537]).collect() };
        let limits: Vec<usize> = vec![0, 1, 36, 37, 38, 96, 97, 98, 254, 255, 256, 257, 258, 299, 300, 301, 511, 512, 513, 1008, 1009, 1010, 65534, 65535, 65536, 65537, 65538, 1_000_000];
        let mut jobs: Vec<(RState, usize, String)> = vec![];
        for &n in &flat_lens {
            let mut r = RState::empty([usize::MAX; 4]);
            r.exec = (0..n).rev().map(|i| PushProgram::Instruction(PushInstruction::push_int(i as i64))).collect();
            for &l in &limits {
                jobs.push((r.clone(), l, format!("long/flat/n={n}")));
            }
            // the same with a tight int stack: the overflow must strike at exactly the configured maximum
            for cap in [254usize, 255, 256, 257] {
                let mut t = r.clone();
                t.caps[INT] = cap;
                jobs.push((t, 1_000_000, format!("long/flat-cap/n={n}")));
            }
        }
        let body = PushProgram::Block(vec![
            PushProgram::Instruction(PushInstruction::PrintString(PrintString::new("x".into()))),
            PushProgram::Instruction(exec_variant("Dup").into()),
        ]);
        for caps in [[usize::MAX; 4], [3, 1, 1, 1], [4, 0, 0, 0]] {
            let mut r = RState::empty(caps);
            r.exec = vec![body.clone(), PushProgram::Instruction(exec_variant("Dup").into())];
            for &l in &limits {
                if l <= 70_000 {
                    jobs.push((r.clone(), l, "long/loop".to_string()));
                }
            }
        }
        let results = mcx::par_map(jobs.len(), |i| {
            let (r, limit, label) = &jobs[i];
            let want = match ref_run_long(r, *limit) {
                Ok(w) => w,
                Err(e) => return Some((format!("machinery/{label}"), e, json!({}))),
            };
            let real = run_real(r, *limit);
            let ok = match (&real, &want) {
                (RealFinal::Done(s), Final::Done(t)) => real_matches(s, t),
                (RealFinal::Aborted(s, _), Final::Aborted(t)) => {
                    // the carried state: failing item popped or not
                    let mut u = t.clone();
                    real_matches(s, t) || {
                        if let Some(PushProgram::Instruction(_)) | Some(PushProgram::Block(_)) = observe(s).exec.last() {
                            u.exec = observe(s).exec;
                            real_matches(s, &u) && u.exec.len() == t.exec.len() + 1
                        } else {
                            false
                        }
                    }
                }
                _ => false,
            };
            if ok {
                return None;
            }
            let obs = match &real {
                RealFinal::Done(s) => {
                    let o = observe(s);
                    format!("Ok, {} ints, {} exec items, {} output bytes", o.int.len(), o.exec.len(), o.out.len())
                }
                RealFinal::Aborted(s, m) => {
                    let o = observe(s);
                    format!("Err({m}), {} ints, {} exec items", o.int.len(), o.exec.len())
                }
                RealFinal::Panic(p) => format!("PANIC {p}"),
            };
            let exp = match &want {
                Final::Done(t) => format!("Ok, {} ints, {} exec items, {} output bytes", t.int.len(), t.exec.len(), t.out.len()),
                Final::Aborted(t) => format!("Err(overflow), {} ints, {} exec items", t.int.len(), t.exec.len()),
            };
            Some((format!("interp/{label}"), format!("{label} caps {:?} step limit {limit}: ended as {obs}; the semantics prescribe {exp}", r.caps.iter().map(|c| if *c == usize::MAX { "max".to_string() } else { c.to_string() }).collect::<Vec<_>>()), json!({"check":"C03","kind":"long","label":label,"limit":limit})))
        });
        let mut n = 0u64;
        for r in results {
            n += 1;
            if let Some((k, w, rp)) = r {
                viols.push(json!({"key": k, "what": w, "replay": rp}));
            }
        }
        tot["long_runs"] = json!(n);
    }
    // extreme numeric values: every int/bool/float instruction on every ordered operand triple / pair of
    // the wide value alphabet (shared with C01(d)): must return, must not panic, result as the semantics admit
    {
        let mut tmp = Run::new("C03", tier);
        let st = crate::c01::value_sweep(Mode::C01, &mut tmp);
        tot["value_sweep_transitions"] = json!(st.transitions);
        for (k, v) in tmp.violations.lock().unwrap().iter() {
            viols.push(json!({"key": k, "what": v.what, "replay": v.replay}));
        }
    }
    tot["deep_runs"] = json!(deep_runs);
    tot["deep_undecided"] = json!(deep_undecided);
    tot["deep_depths"] = json!(depths.len());
    tot["deep_max_depth"] = json!(depths.iter().max().copied().unwrap_or(0));
    tot["violations"] = Value::Array(viols);
    println!("RESULT {}", tot);
}

pub fn run(run: &mut Run) {
    let quick = run.quick();
    let (max_len, max_limit) = bounds(quick);
    let exe = std::env::current_exe().expect("current exe");
    let wall_cap = if quick { 300 } else { 3600 };
    let mut child = std::process::Command::new(exe)
        .args(["C03-child", "--tier", &run.tier])
        .stdout(std::process::Stdio::piped())
        .stderr(std::process::Stdio::null())
        .spawn()
        .expect("spawn child");
    let stdout = child.stdout.take().unwrap();
    let (tx, rx) = std::sync::mpsc::channel::<String>();
    std::thread::spawn(move || {
        use std::io::BufRead;
        for line in std::io::BufReader::new(stdout).lines().map_while(Result::ok) {
            if tx.send(line).is_err() {
                break;
            }
        }
    });
    let start = std::time::Instant::now();
    let mut open: std::collections::BTreeSet<usize> = Default::default();
    let mut result: Option<Value> = None;
    let mut hung = false;
    let mut hang_case: Option<Value> = None;
    loop {
        match rx.recv_timeout(std::time::Duration::from_millis(200)) {
            Ok(line) => {
                if let Some(k) = line.strip_prefix("SHARD-START ") {
                    open.insert(k.trim().parse().unwrap_or(0));
                } else if let Some(k) = line.strip_prefix("SHARD-END ") {
                    open.remove(&k.trim().parse().unwrap_or(0));
                } else if let Some(j) = line.strip_prefix("RESULT ") {
                    result = serde_json::from_str(j).ok();
                } else if let Some(j) = line.strip_prefix("HANG ") {
                    hang_case = serde_json::from_str(j).ok();
                }
            }
            Err(std::sync::mpsc::RecvTimeoutError::Timeout) => {
                if start.elapsed().as_secs() > wall_cap {
                    hung = true;
                    let _ = child.kill();
                    break;
                }
            }
            Err(std::sync::mpsc::RecvTimeoutError::Disconnected) => break,
        }
    }
    let status = child.wait().ok();
    run.bound("max_genome_len", json!(max_len));
    run.bound("step_limits", json!(format!("0..={max_limit}")));
    run.bound("capacity_configurations", json!(cap_configs().len()));
    run.bound("gene_alphabet", json!(growth_alphabet().iter().map(gene_name).collect::<Vec<_>>()));
    run.rule = "all genomes up to the length bound over the growth alphabet (block duplication, exec dup/swap/flush, conditionals, squaring/power chains, output), every capacity 0..4 globally and per stack, every step limit; each run on the real run_to_completion in a child process; plus the deep-nesting family and the wide operand value sweep (every int/bool/float instruction on all ordered triples/pairs of 33 ints / 31 floats) under a hang watchdog; non-trivial = runs whose admissible result is an abort or a truncation by the limit".into();
    run.assumptions = vec![
        "PushRef + tolerance sets decide which result kinds are admissible".into(),
        "nesting depth: every depth 8..=300 and the neighbourhoods of 512 and 1024 (thorough: 4096) are run exactly; beyond that the recursion of the subject's parser/Clone/Drop is a resource limit outside any enumerable bound (DESIGN C03)".into(),
    ];
    if let Some(h) = hang_case {
        run.violation(
            h["key"].as_str().unwrap_or("hang").to_string(),
            h["what"].as_str().unwrap_or("a case did not return").to_string(),
            h["replay"].clone(),
        );
        return;
    }
    if hung {
        let shards = shard_prefixes(growth_alphabet().len());
        let k = open.iter().next().copied().unwrap_or(0);
        run.violation(
            format!("hang/shard-{k}"),
            format!("evaluation did not return within {wall_cap}s (open shards {:?}, first prefix {:?})", open, shards.get(k)),
            json!({"check":"C03","kind":"shard","shard":k,"tier":run.tier}),
        );
        return;
    }
    let Some(res) = result else {
        let k = open.iter().next().copied().unwrap_or(0);
        run.violation(
            format!("process-abort/shard-{k}"),
            format!("the evaluation process died ({status:?}) while shards {open:?} were running (stack overflow, abort or allocation failure in the subject)"),
            json!({"check":"C03","kind":"shard","shard":k,"tier":run.tier}),
        );
        return;
    };
    run.evaluations = res["runs"].as_u64().unwrap_or(0);
    run.transitions = run.evaluations;
    run.traces_validated = run.evaluations;
    run.states = res["programs"].as_u64().unwrap_or(0);
    run.distinct_nontrivial = res["aborted"].as_u64().unwrap_or(0) + res["truncated"].as_u64().unwrap_or(0);
    run.note("programs", res["programs"].clone());
    run.note("runs_undecided_by_pop_cap", res["undecided"].clone());
    run.note("programs_aborting_at_max_limit", res["aborted"].clone());
    run.note("programs_truncated_at_max_limit", res["truncated"].clone());
    run.note("value_sweep.transitions", res["value_sweep_transitions"].clone());
    run.evaluations += res["value_sweep_transitions"].as_u64().unwrap_or(0);
    run.note("long.runs", res["long_runs"].clone());
    run.evaluations += res["long_runs"].as_u64().unwrap_or(0);
    run.bound("long.step_limits", json!("0, 1, 254..258, 299..301, 511..513, 65534..65538, 10^6 on flat programs of 255..300 (thorough ..65537) literal pushes and on a bounded exec-dup loop"));
    run.note("deep.runs", res["deep_runs"].clone());
    run.note("deep.undecided", res["deep_undecided"].clone());
    run.note("deep.depths", res["deep_depths"].clone());
    run.bound("deep.max_nesting_depth", res["deep_max_depth"].clone());
    run.evaluations += res["deep_runs"].as_u64().unwrap_or(0);
    run.transitions = run.evaluations;
    run.traces_validated = run.evaluations;
    if res["deep_undecided"].as_u64().unwrap_or(0) > 0 {
        run.machinery("deep-nesting family: the reference did not finish within its step cap");
    }
    if res["aborted"].as_u64().unwrap_or(0) == 0 || res["truncated"].as_u64().unwrap_or(0) == 0 {
        run.machinery("vacuity: no aborting or no truncated program in the sweep");
    }
    for v in res["violations"].as_array().cloned().unwrap_or_default() {
        let k = v["key"].as_str().unwrap_or("?").to_string();
        let w = v["what"].as_str().unwrap_or("?").to_string();
        if k.starts_with("machinery/") {
            run.machinery(w);
        } else {
            run.violation(k, w, v["replay"].clone());
        }
    }
    run.sample(json!({"genome": "Exec-DupBlock Exec-Dup Close", "caps": [2, 2, 2, 2], "limits": format!("0..={max_limit}"), "expected": "fatal overflow of the exec stack once the copies exceed 2"}));
    run.sample(json!({"genome": "Int-Push(3) Int-Square Int-Square Int-Square Int-Square", "expected": "last squarings overflow i64 and are skipped; evaluation returns Ok"}));
}

pub fn replay(v: &Value) -> bool {
    match v["kind"].as_str() {
        Some("run") => crate::interp::replay_run(Mode::C01, v),
        Some("perform") => crate::c01::replay(Mode::C01, v),
        Some("deep") => {
            let d = v["depth"].as_u64().unwrap_or(0) as usize;
            let kind = v["deep_kind"].as_str().unwrap_or("when-true").to_string();
            let caps: Vec<usize> = v["caps"].as_array().map(|a| a.iter().filter_map(|x| x.as_str().and_then(|s| s.parse().ok())).collect()).unwrap_or_default();
            let limit = v["limit"].as_u64().unwrap_or(0) as usize;
            let h = std::thread::Builder::new().stack_size(4usize << 30).spawn(move || {
                let mut genes: Vec<PushGene> = vec![];
                for _ in 0..d {
                    let (b, op): (bool, PushInstruction) = match kind.as_str() {
                        "when-true" => (true, ExecInstruction::when().into()),
                        "unless-false" => (false, ExecInstruction::unless().into()),
                        "ifelse-true" => (true, ExecInstruction::if_else().into()),
                        _ => (false, ExecInstruction::when().into()),
                    };
                    genes.push(PushGene::Instruction(PushInstruction::push_bool(b)));
                    genes.push(PushGene::Instruction(op));
                }
                genes.push(PushGene::Instruction(PushInstruction::push_int(1)));
                genes.push(PushGene::Instruction(PushInstruction::PrintString(PrintString::new("x".into()))));
                let program: Vec<PushProgram> = Vec::<PushProgram>::from(Plushy::new(genes));
                let mut r = RState::empty([caps[0], caps[1], caps[2], caps[3]]);
                r.exec = program.iter().rev().cloned().collect();
                let mut u = 0;
                match check_case_with_cap(&r, limit, &format!("deep/{kind}/d={d}"), &mut u, 3 * d + 10) {
                    Some((k, w)) => {
                        println!("MISMATCH [{k}]: {}", w.chars().take(1500).collect::<String>());
                        false
                    }
                    None => {
                        println!("replay: property held");
                        true
                    }
                }
            });
            h.ok().and_then(|h| h.join().ok()).unwrap_or(false)
        }
        Some("shard") => {
            let k = v["shard"].as_u64().unwrap_or(0) as usize;
            let quick = v["tier"].as_str() != Some("thorough");
            let (max_len, max_limit) = bounds(quick);
            let shards = shard_prefixes(growth_alphabet().len());
            println!("re-running shard {k} (prefix {:?}) case by case; the last case printed is the one that does not return", shards[k]);
            let r = run_shard(&shards[k], max_len, max_limit, true);
            println!("shard finished: {} runs, {} violations", r.runs, r.viols.len());
            r.viols.is_empty()
        }
        _ => false,
    }
}
