//! C11 — mutation keeps genome structure: flips stay in place, UMAD only
//! inserts/deletes.  Engine E1, structural oracle on every leaf (no law).

use ec_core::operator::mutator::{Mutate, Mutator};
use ec_core::operator::Operator;
use ec_linear::genome::bitstring::Bitstring;
use ec_linear::genome::vector::Vector;
use ec_linear::mutator::umad::Umad;
use ec_linear::mutator::with_one_over_length::WithOneOverLength;
use ec_linear::mutator::with_rate::WithRate;
use mcx::{explore, explore_bounded, Alphabet, ChoiceRng, Env, Run};
use push::genome::plushy::{Plushy, PushGene};
use push::instruction::PushInstruction;
use rand::distr::Distribution;
use rand::Rng;
use serde_json::{json, Value};
use std::cell::Cell;
use std::collections::BTreeSet;

/// a bit that remembers where it started
#[derive(Clone, Copy, Debug, PartialEq, Eq, PartialOrd, Ord)]
pub struct TagBit {
    pub pos: usize,
    pub val: bool,
}
impl std::ops::Not for TagBit {
    type Output = TagBit;
    fn not(self) -> TagBit {
        TagBit { pos: self.pos, val: !self.val }
    }
}

/// genes of the UMAD scenarios: parent genes carry their position, new genes a
/// serial number and the generator's choice
#[derive(Clone, Copy, Debug, PartialEq, Eq, PartialOrd, Ord)]
pub enum Gene {
    Old(usize),
    New { serial: usize, choice: usize },
}

/// generator over a disjoint alphabet of `g` genes; numbers its products
pub struct TagGen {
    pub g: usize,
    pub serial: Cell<usize>,
}
impl Distribution<Gene> for TagGen {
    fn sample<R: Rng + ?Sized>(&self, rng: &mut R) -> Gene {
        let s = self.serial.get();
        self.serial.set(s + 1);
        Gene::New { serial: s, choice: rng.random_range(0..self.g) }
    }
}
impl Distribution<bool> for TagGen {
    fn sample<R: Rng + ?Sized>(&self, rng: &mut R) -> bool {
        self.serial.set(self.serial.get() + 1);
        rng.random_range(0..self.g) == 0
    }
}
impl Distribution<PushGene> for TagGen {
    fn sample<R: Rng + ?Sized>(&self, rng: &mut R) -> PushGene {
        let s = self.serial.get();
        self.serial.set(s + 1);
        let c = rng.random_range(0..self.g);
        PushGene::Instruction(PushInstruction::push_int(NEW_BASE + 10 * s as i64 + c as i64))
    }
}

/// the user-defined genome of `GenomeKind::Queue`
#[derive(Clone, Debug, PartialEq)]
pub struct Queue {
    genes: std::collections::VecDeque<Gene>,
}
impl ec_core::genome::Genome for Queue {
    type Gene = Gene;
}
impl ec_linear::genome::Linear for Queue {
    fn size(&self) -> usize {
        self.genes.len()
    }
    fn gene_mut(&mut self, index: usize) -> Option<&mut Gene> {
        self.genes.get_mut(index)
    }
}
pub struct Drain(std::collections::VecDeque<Gene>);
impl Iterator for Drain {
    type Item = Gene;
    fn next(&mut self) -> Option<Gene> {
        self.0.pop_front()
    }
}
impl IntoIterator for Queue {
    type Item = Gene;
    type IntoIter = Drain;
    fn into_iter(self) -> Drain {
        Drain(self.genes)
    }
}
impl FromIterator<Gene> for Queue {
    fn from_iter<I: IntoIterator<Item = Gene>>(iter: I) -> Self {
        Queue { genes: iter.into_iter().collect() }
    }
}

#[derive(Clone, Copy, Debug, PartialEq, Eq)]
pub enum UmadKind {
    /// `Umad::new(a, d, gen)`: the empty-genome rate is the addition rate
    Plain,
    /// `new_with_empty_rate(a, e, d, gen)`
    EmptyRate(u32, u32),
    /// `new_without_empty`
    WithoutEmpty,
}

pub fn mk_umad<G>(kind: UmadKind, a: f64, d: f64, gen: G) -> Umad<G> {
    match kind {
        UmadKind::Plain => Umad::new(a, d, gen),
        UmadKind::EmptyRate(n, dn) => Umad::new_with_empty_rate(a, n as f64 / dn as f64, d, gen),
        UmadKind::WithoutEmpty => Umad::new_without_empty(a, d, gen),
    }
}

#[derive(Clone, Copy, Debug, PartialEq, Eq)]
pub enum GenomeKind {
    /// a genome type of the user's own: a queue whose iterator implements `next` only (no size hint, no
    /// exact size) - `Linear`, `IntoIterator` and `FromIterator` are all the mutators may rely on
    Queue,
    Vector,
    Plushy,
    Bits,
    /// Plushy parents whose even positions are close markers (which carry no identity: an output close
    /// is attributed to the earliest parent close not yet passed)
    PlushyClose,
}

/// run UMAD on a parent of length l; output as Gene sequence (Bits: only the length is meaningful)
pub fn umad_once(gk: GenomeKind, kind: UmadKind, a: f64, d: f64, g: usize, l: usize, env: &mut Env, alpha: Alphabet, via_operator: bool) -> Result<(Vec<Gene>, usize), String> {
    let gen = TagGen { g, serial: Cell::new(0) };
    let mut rng = ChoiceRng::new(env, alpha);
    mcx::guarded(|| match gk {
        GenomeKind::Queue => {
            let m = mk_umad(kind, a, d, &gen);
            let parent: Queue = (0..l).map(Gene::Old).collect();
            let out = if via_operator { Mutate::new(&m).apply(parent, &mut rng).unwrap() } else { m.mutate(parent, &mut rng).unwrap() };
            (out.genes.into_iter().collect(), gen.serial.get())
        }
        GenomeKind::Vector => {
            let m = mk_umad(kind, a, d, &gen);
            // (odd lengths: held in a buffer with spare capacity)
            let parent: Vector<Gene> = if l % 2 == 1 { Vector { genes: spare(&(0..l).map(Gene::Old).collect::<Vec<_>>()) } } else { (0..l).map(Gene::Old).collect() };
            let out = if via_operator { Mutate::new(&m).apply(parent, &mut rng).unwrap() } else { m.mutate(parent, &mut rng).unwrap() };
            (out.genes, gen.serial.get())
        }
        GenomeKind::Plushy => {
            let m = mk_umad(kind, a, d, &gen);
            let parent: Plushy = (0..l).map(|i| PushGene::Instruction(PushInstruction::push_int(i as i64))).collect();
            let out = (&m).mutate(parent, &mut rng).unwrap();
            let genes = out
                .get_genes()
                .iter()
                .map(|pg| match pg {
                    PushGene::Instruction(PushInstruction::IntInstruction(ii)) => {
                        let s = format!("{ii}");
                        let v: i64 = s.trim_start_matches("Push(").trim_end_matches(')').parse().unwrap_or(-1);
                        if v >= NEW_BASE {
                            Gene::New { serial: ((v - NEW_BASE) / 10) as usize, choice: ((v - NEW_BASE) % 10) as usize }
                        } else if v >= 0 {
                            Gene::Old(v as usize)
                        } else {
                            Gene::New { serial: usize::MAX, choice: usize::MAX }
                        }
                    }
                    _ => Gene::New { serial: usize::MAX, choice: usize::MAX },
                })
                .collect();
            (genes, gen.serial.get())
        }
        GenomeKind::PlushyClose => {
            let m = mk_umad(kind, a, d, &gen);
            let parent: Plushy = (0..l).map(|i| if i % 2 == 0 { PushGene::Close } else { PushGene::Instruction(PushInstruction::push_int(i as i64)) }).collect();
            let out = (&m).mutate(parent, &mut rng).unwrap();
            let genes = out
                .get_genes()
                .iter()
                .map(|pg| match pg {
                    // anonymous: attributed to a parent close by the judge (`resolve_closes`)
                    PushGene::Close => Gene::Old(ANON),
                    PushGene::Instruction(PushInstruction::IntInstruction(ii)) => {
                        let s = format!("{ii}");
                        let v: i64 = s.trim_start_matches("Push(").trim_end_matches(')').parse().unwrap_or(-1);
                        if v >= NEW_BASE {
                            Gene::New { serial: ((v - NEW_BASE) / 10) as usize, choice: ((v - NEW_BASE) % 10) as usize }
                        } else if v >= 0 {
                            Gene::Old(v as usize)
                        } else {
                            Gene::New { serial: usize::MAX, choice: usize::MAX }
                        }
                    }
                    _ => Gene::New { serial: usize::MAX, choice: usize::MAX },
                })
                .collect();
            (genes, gen.serial.get())
        }
        GenomeKind::Bits => {
            let m = mk_umad(kind, a, d, &gen);
            let parent = Bitstring { bits: vec![true; l] };
            let out = m.mutate(parent, &mut rng).unwrap();
            // bits carry no identity: report only the count as anonymous genes
            ((0..out.bits.len()).map(|_| Gene::Old(usize::MAX)).collect(), gen.serial.get())
        }
    })
}

/// marker of an output close gene that has not been attributed to a parent position yet
pub const ANON: usize = usize::MAX - 7;

/// Close markers carry no identity.  The output is structurally valid iff *some* attribution of its
/// closes to the parent's closes (the even positions), increasing from left to right, passes the
/// structural oracle; the first failure is reported if none does.
pub fn resolve_closes(out: &[Gene], produced: usize, l: usize, kind: UmadKind, a: (u32, u32), d: (u32, u32), g: usize) -> Option<(&'static str, String)> {
    let slots: Vec<usize> = out.iter().enumerate().filter(|(_, x)| **x == Gene::Old(ANON)).map(|(i, _)| i).collect();
    if slots.is_empty() {
        return umad_structure(out, produced, l, kind, a, d, g);
    }
    let evens: Vec<usize> = (0..l).filter(|i| i % 2 == 0).collect();
    if slots.len() > evens.len() {
        return Some(("foreign-gene", format!("output has {} close markers, the parent only {}", slots.len(), evens.len())));
    }
    let mut first_err: Option<(&'static str, String)> = None;
    // all increasing choices of slots.len() parent closes
    let mut pick: Vec<usize> = (0..slots.len()).collect();
    loop {
        let mut cand: Vec<Gene> = out.to_vec();
        for (k, s) in slots.iter().enumerate() {
            cand[*s] = Gene::Old(evens[pick[k]]);
        }
        match umad_structure(&cand, produced, l, kind, a, d, g) {
            None => return None,
            Some(e) => {
                if first_err.is_none() {
                    first_err = Some((e.0, format!("{} (close markers shown as attributed to the earliest parent closes)", e.1)));
                }
            }
        }
        // next combination
        let mut i = slots.len();
        loop {
            if i == 0 {
                return first_err;
            }
            i -= 1;
            if pick[i] < evens.len() - (slots.len() - i) {
                pick[i] += 1;
                for j in i + 1..slots.len() {
                    pick[j] = pick[j - 1] + 1;
                }
                break;
            }
        }
    }
}

/// structural oracle for one UMAD output
pub fn umad_structure(out: &[Gene], produced: usize, l: usize, kind: UmadKind, a: (u32, u32), d: (u32, u32), g: usize) -> Option<(&'static str, String)> {
    let is0 = |r: (u32, u32)| r.0 == 0;
    let is1 = |r: (u32, u32)| r.0 == r.1;
    // every new gene carries a generator tag
    let mut seen_serials = BTreeSet::new();
    for x in out {
        if let Gene::New { serial, choice } = x {
            if *serial == usize::MAX || *choice >= g || *serial >= produced {
                return Some(("foreign-gene", format!("output {out:?} contains a gene that is neither a parent gene nor a product of the gene generator")));
            }
            if !seen_serials.insert(*serial) {
                return Some(("duplicated-new-gene", format!("output {out:?} uses one generated gene twice")));
            }
        }
    }
    if l == 0 {
        let news = out.len();
        if out.iter().any(|x| matches!(x, Gene::Old(_))) || news > 1 {
            return Some(("empty-parent", format!("empty parent gave {out:?}")));
        }
        match kind {
            UmadKind::WithoutEmpty if news != 0 => return Some(("empty-parent-disabled", format!("empty-genome addition disabled but output is {out:?}"))),
            UmadKind::EmptyRate(n, dn) if n == dn && news != 1 => return Some(("empty-parent-rate1", format!("empty rate 1 but output is {out:?}"))),
            UmadKind::EmptyRate(0, _) if news != 0 => return Some(("empty-parent-rate0", format!("empty rate 0 but output is {out:?}"))),
            UmadKind::Plain if is1(a) && news != 1 => return Some(("empty-parent-rate1", format!("addition rate 1 but empty parent gave {out:?}"))),
            UmadKind::Plain if is0(a) && news != 0 => return Some(("empty-parent-rate0", format!("addition rate 0 but empty parent gave {out:?}"))),
            _ => {}
        }
        return None;
    }
    // survivors in original order; at most one new gene after each parent position, none before the first
    let mut last_old: Option<usize> = None;
    let mut news_since_old = 0usize;
    let mut first = true;
    // the position a new gene belongs to is that of the parent gene it follows; deleted parents
    // leave their new gene behind, so between two survivors i < j up to j - i new genes may sit
    let mut budget = 0usize; // new genes still allowed before the next survivor
    let mut prev_index: isize = -1;
    for x in out {
        match x {
            Gene::Old(i) => {
                if let Some(p) = last_old {
                    if *i <= p {
                        return Some(("order", format!("parent genes out of order or repeated in {out:?}")));
                    }
                }
                if *i >= l {
                    return Some(("foreign-gene", format!("unknown parent gene in {out:?}")));
                }
                // new genes seen since the previous survivor belong to parent positions prev_index+1 .. i-1 (deleted ones) or prev_index itself
                let allowed = (*i as isize - prev_index - 1) as usize + usize::from(prev_index >= 0);
                if news_since_old > allowed {
                    return Some(("too-many-insertions", format!("more than one new gene per parent position in {out:?}")));
                }
                let _ = budget;
                budget = 0;
                last_old = Some(*i);
                prev_index = *i as isize;
                news_since_old = 0;
                first = false;
            }
            Gene::New { .. } => {
                news_since_old += 1;
                let _ = first;
            }
        }
    }
    let allowed_tail = (l as isize - prev_index - 1) as usize + usize::from(prev_index >= 0);
    if news_since_old > allowed_tail {
        return Some(("too-many-insertions", format!("more than one new gene per parent position in {out:?}")));
    }
    let olds = out.iter().filter(|x| matches!(x, Gene::Old(_))).count();
    let news = out.len() - olds;
    if news > l {
        return Some(("too-many-insertions", format!("{news} new genes for {l} parent genes in {out:?}")));
    }
    if is0(a) && is0(d) && (olds != l || news != 0) {
        return Some(("rate0-identity", format!("rates (0,0) but output {out:?}")));
    }
    if is0(a) && news != 0 {
        return Some(("addition-rate0", format!("addition rate 0 but output {out:?} has new genes")));
    }
    if is0(d) && olds != l {
        return Some(("deletion-rate0", format!("deletion rate 0 but a parent gene is missing in {out:?}")));
    }
    if is1(d) && !out.is_empty() {
        return Some(("deletion-rate1", format!("deletion rate 1 but output {out:?} is not empty")));
    }
    if is1(a) && is0(d) {
        let want: Vec<bool> = (0..2 * l).map(|i| i % 2 == 0).collect();
        let got: Vec<bool> = out.iter().map(|x| matches!(x, Gene::Old(_))).collect();
        if want != got {
            return Some(("add1-del0", format!("rates (1,0): every parent gene must be followed by exactly one new gene, got {out:?}")));
        }
    }
    None
}

fn rate(r: (u32, u32)) -> f64 {
    r.0 as f64 / r.1 as f64
}

pub fn umad_case(gk: GenomeKind, kind: UmadKind, a: (u32, u32), d: (u32, u32), g: usize, l: usize, m: u32, via: bool) -> (u64, u64, Option<(String, String)>, usize) {
    let label = format!("UMAD {kind:?} on {gk:?} a={}/{} d={}/{} generator size {g} parent length {l}", a.0, a.1, d.0, d.1);
    let alpha = alphabet_of(m);
    let mut bad: Option<(String, String)> = None;
    let mut outs: BTreeSet<Vec<Gene>> = BTreeSet::new();
    let mut kept = vec![false; l];
    let mut gone = vec![false; l];
    let st = explore(
        |env| umad_once(gk, kind, rate(a), rate(d), g, l, env, alpha, via),
        |_, _, r| match r {
            Err(p) => {
                if bad.is_none() {
                    bad = Some(("umad/panic".into(), format!("{label}: panicked: {p}")));
                }
            }
            Ok((out, produced)) => {
                if gk == GenomeKind::Bits {
                    // structure is invisible on bare bits: length bounds only
                    let n = out.len();
                    let viol = if n > 2 * l.max(1) - usize::from(l == 0) && !(l == 0 && n <= 1) {
                        Some(("umad/bits-length", format!("{label}: output length {n}")))
                    } else if d.0 == d.1 && l > 0 && n != 0 {
                        Some(("umad/deletion-rate1", format!("{label}: output length {n}")))
                    } else if l > 0 && a.0 == 0 && d.0 == 0 && n != l {
                        Some(("umad/rate0-identity", format!("{label}: output length {n}")))
                    } else {
                        None
                    };
                    if let (Some((k, w)), true) = (viol, bad.is_none()) {
                        bad = Some((k.to_string(), w));
                    }
                    outs.insert(out);
                    return;
                }
                if let Some((k, w)) = resolve_closes(&out, produced, l, kind, a, d, g) {
                    if bad.is_none() {
                        bad = Some((format!("umad/{k}"), format!("{label}: {w}")));
                    }
                }
                if gk == GenomeKind::PlushyClose {
                    // instruction genes by identity; close markers by count (all kept / not all kept)
                    for i in (0..l).filter(|i| i % 2 == 1) {
                        if out.contains(&Gene::Old(i)) {
                            kept[i] = true;
                        } else {
                            gone[i] = true;
                        }
                    }
                    let closes = out.iter().filter(|x| **x == Gene::Old(ANON)).count();
                    let parent_closes = l.div_ceil(2);
                    for i in (0..l).filter(|i| i % 2 == 0) {
                        if closes == parent_closes {
                            kept[i] = true;
                        }
                        if closes == 0 {
                            gone[i] = true;
                        }
                    }
                } else {
                    for i in 0..l {
                        if out.contains(&Gene::Old(i)) {
                            kept[i] = true;
                        } else {
                            gone[i] = true;
                        }
                    }
                }
                outs.insert(out);
            }
        },
        20_000_000,
    );
    // support: with a deletion rate strictly between 0 and 1 every parent gene survives on some stream
    // and is deleted on some stream
    if bad.is_none() && gk != GenomeKind::Bits && d.0 > 0 && d.0 < d.1 && st.diverged.is_none() && !st.capped {
        let never_kept: Vec<usize> = (0..l).filter(|i| !kept[*i]).collect();
        let never_gone: Vec<usize> = (0..l).filter(|i| !gone[*i]).collect();
        if !never_kept.is_empty() || !never_gone.is_empty() {
            bad = Some(("umad/support".into(), format!("{label}: over all streams parent positions {never_kept:?} never survive and positions {never_gone:?} are never deleted")));
        }
    }
    if let Some(dv) = &st.diverged {
        return (st.leaves, st.choice_points, Some(("umad/nondeterministic".into(), format!("{label}: {dv}"))), outs.len());
    }
    if st.capped {
        return (st.leaves, st.choice_points, Some(("machinery/cap".into(), format!("{label}: capped"))), outs.len());
    }
    (st.leaves, st.choice_points, bad, outs.len())
}

/// One `Umad` value used twice: on an empty and on a non-empty parent, in either order (the empty-genome
/// rate and the addition rate are different parameters; a value that remembers which of them it used first,
/// or anything else about the first parent, shows on the second).  Both outputs are judged by the
/// structural oracle for their own parent.
pub fn umad_reuse_case(a: (u32, u32), e: (u32, u32), d: (u32, u32), l: usize, empty_first: bool, m: u32) -> (u64, u64, Option<(String, String)>, usize) {
    let kind = UmadKind::EmptyRate(e.0, e.1);
    let label = format!("one Umad::new_with_empty_rate(a={}/{}, empty={}/{}, d={}/{}) value used on {}", a.0, a.1, e.0, e.1, d.0, d.1, if empty_first { format!("an empty parent, then a parent of {l}") } else { format!("a parent of {l}, then an empty parent") });
    let alpha = alphabet_of(m);
    let g = 2usize;
    let mut bad: Option<(String, String)> = None;
    let mut outs: BTreeSet<(Vec<Gene>, Vec<Gene>)> = BTreeSet::new();
    let scenario = |env: &mut Env| {
        let gen = TagGen { g, serial: Cell::new(0) };
        let mut rng = ChoiceRng::new(env, alpha);
        mcx::guarded(|| {
            let um = mk_umad(kind, rate(a), rate(d), &gen);
            let lens = if empty_first { [0, l] } else { [l, 0] };
            let mut res = vec![];
            for len in lens {
                let before = gen.serial.get();
                let parent: Vector<Gene> = (0..len).map(Gene::Old).collect();
                let out = um.mutate(parent, &mut rng).unwrap();
                // serials are counted per application
                let genes: Vec<Gene> = out
                    .genes
                    .into_iter()
                    .map(|x| match x {
                        Gene::New { serial, choice } if serial >= before && serial != usize::MAX => Gene::New { serial: serial - before, choice },
                        Gene::New { .. } => Gene::New { serial: usize::MAX, choice: usize::MAX },
                        o => o,
                    })
                    .collect();
                res.push((genes, gen.serial.get() - before, len));
            }
            res
        })
    };
    let mut visit = |r: Result<Vec<(Vec<Gene>, usize, usize)>, String>| match r {
        Err(p) => {
            if bad.is_none() {
                bad = Some(("umad-reused/panic".into(), format!("{label}: panicked: {p}")));
            }
        }
        Ok(res) => {
            for (which, (out, produced, len)) in res.iter().enumerate() {
                if let Some((k, w)) = umad_structure(out, *produced, *len, kind, a, d, g) {
                    if bad.is_none() {
                        bad = Some((format!("umad-reused/{k}"), format!("{label}: the {} application (parent of {len}): {w}", if which == 0 { "first" } else { "second" })));
                    }
                }
            }
            outs.insert((res[0].0.clone(), res[1].0.clone()));
        }
    };
    // short parents: the whole tree; longer ones: every stream with at most one non-default word
    let st = if l <= 2 { explore(scenario, |_, _, r| visit(r), 20_000_000) } else { mcx::explore_bounded(scenario, |_, r| visit(r), 1, 200_000) };
    if let Some(dv) = &st.diverged {
        return (st.leaves, st.choice_points, Some(("umad/nondeterministic".into(), format!("{label}: {dv}"))), outs.len());
    }
    drop(visit);
    if st.capped {
        return (st.leaves, st.choice_points, Some(("machinery/cap".into(), format!("{label}: capped"))), outs.len());
    }
    (st.leaves, st.choice_points, bad, outs.len())
}

/// Long parents (around 64, 128, 256 genes, where a word-sized mask, a `u8` index or a fixed buffer
/// would run out): every stream with at most `dev` non-default words over the grid plus the extreme
/// words; the structural oracle on every leaf, and over all leaves every parent position must be seen
/// both kept and deleted and (a > 0) an insertion must be seen after every parent position.
pub fn umad_long_case(gk: GenomeKind, a: (u32, u32), d: (u32, u32), l: usize, dev: usize) -> (u64, u64, Option<(String, String)>, usize) {
    let label = format!("UMAD on {gk:?} a={}/{} d={}/{} parent length {l} (long)", a.0, a.1, d.0, d.1);
    let mut bad: Option<(String, String)> = None;
    let mut kept = vec![false; l];
    let mut deleted = vec![false; l];
    let mut inserted_after = vec![false; l];
    // beyond 600 genes only the first 24 words deviate (the tail stream decides the rest): per-leaf oracle only
    let huge = l > 600;
    let st = mcx::explore_bounded_h(
        |env| umad_once(gk, UmadKind::Plain, rate(a), rate(d), 2, l, env, Alphabet::Ext(2), false),
        |_, r| match r {
            Err(p) => {
                if bad.is_none() {
                    bad = Some(("umad/panic".into(), format!("{label}: panicked: {p}")));
                }
            }
            Ok((out, produced)) => {
                if let Some((k, w)) = umad_structure(&out, produced, l, UmadKind::Plain, a, d, 2) {
                    if bad.is_none() {
                        let w: String = w.chars().take(600).collect();
                        bad = Some((format!("umad/{k}"), format!("{label}: {w}")));
                    }
                }
                let mut present = vec![false; l];
                let mut last_old: Option<usize> = None;
                for g in &out {
                    match g {
                        Gene::Old(i) if *i < l => {
                            present[*i] = true;
                            last_old = Some(*i);
                        }
                        Gene::New { .. } => {
                            // a new gene directly after a surviving parent gene i counts for position i; after a
                            // deleted one it cannot be attributed and is ignored here
                            if let Some(i) = last_old {
                                inserted_after[i] = true;
                            }
                            last_old = None;
                        }
                        _ => {}
                    }
                }
                for i in 0..l {
                    if present[i] {
                        kept[i] = true;
                    } else {
                        deleted[i] = true;
                    }
                }
            }
        },
        dev,
        if huge { 24 } else { usize::MAX },
        5_000_000,
    );
    if st.capped {
        return (st.leaves, st.choice_points, Some(("machinery/cap".into(), format!("{label}: capped"))), 0);
    }
    if huge {
        return (st.leaves, st.choice_points, bad, 2);
    }
    if bad.is_none() && d.0 > 0 && d.0 < d.1 {
        let never_kept: Vec<usize> = (0..l).filter(|i| !kept[*i]).collect();
        let never_deleted: Vec<usize> = (0..l).filter(|i| !deleted[*i]).collect();
        if !never_kept.is_empty() || !never_deleted.is_empty() {
            bad = Some(("umad/long-support".into(), format!("{label}: over all explored streams positions {:?} are never kept and positions {:?} never deleted", &never_kept[..never_kept.len().min(6)], &never_deleted[..never_deleted.len().min(6)])));
        }
    }
    // (judged where nothing is deleted, so that every new gene can be attributed to the parent position it follows)
    if bad.is_none() && a.0 > 0 && d.0 == 0 {
        let never: Vec<usize> = (0..l).filter(|i| !inserted_after[*i]).collect();
        if !never.is_empty() {
            bad = Some(("umad/long-support".into(), format!("{label}: over all explored streams no new gene is ever inserted after positions {:?}", &never[..never.len().min(6)])));
        }
    }
    (st.leaves, st.choice_points, bad, 2)
}

#[derive(Clone, Copy, Debug, PartialEq, Eq)]
pub enum FlipKind {
    VecTag,
    VectorTag,
    Bits,
    VecTagViaMutate,
    /// the same genomes held in buffers with spare capacity (as they are after an earlier mutation or
    /// a collect through a non-exact-size iterator): length, not capacity, is the genome's size
    VecSpare,
    VectorSpare,
    BitsSpare,
}
fn spare<T: Clone>(v: &[T]) -> Vec<T> {
    let mut out = Vec::with_capacity(v.len() + 7);
    out.extend(v.iter().cloned());
    out
}

/// flips: returns Some(mask) (true = flipped) or an error description
pub fn flip_once(fk: FlipKind, one_over_len: bool, rate: f32, l: usize, env: &mut Env, alpha: Alphabet) -> Result<Result<Vec<bool>, String>, String> {
    let mut rng = ChoiceRng::new(env, alpha);
    let parent: Vec<TagBit> = (0..l).map(|i| TagBit { pos: i, val: i % 2 == 0 }).collect();
    let judge = |out: Vec<TagBit>| -> Result<Vec<bool>, String> {
        if out.len() != l {
            return Err(format!("length {} instead of {l}", out.len()));
        }
        let mut mask = vec![];
        for (i, b) in out.iter().enumerate() {
            if b.pos != i {
                return Err(format!("gene {i} of the output is the parent's gene {}", b.pos));
            }
            mask.push(b.val != parent[i].val);
        }
        Ok(mask)
    };
    mcx::guarded(|| match (fk, one_over_len) {
        (FlipKind::VecTag, false) => judge(WithRate::new(rate).mutate(parent.clone(), &mut rng).unwrap()),
        (FlipKind::VecTag, true) => WithOneOverLength.mutate(parent.clone(), &mut rng).map_err(|e| format!("{e}")).and_then(judge),
        (FlipKind::VecTagViaMutate, false) => judge(Mutate::new(&WithRate::new(rate)).apply(parent.clone(), &mut rng).unwrap()),
        (FlipKind::VecTagViaMutate, true) => Mutate::new(WithOneOverLength).apply(parent.clone(), &mut rng).map_err(|e| format!("{e}")).and_then(judge),
        (FlipKind::VectorTag, false) => judge(WithRate::new(rate).mutate(Vector { genes: parent.clone() }, &mut rng).unwrap().genes),
        (FlipKind::VectorTag, true) => WithOneOverLength.mutate(Vector { genes: parent.clone() }, &mut rng).map_err(|e| format!("{e}")).and_then(|v| judge(v.genes)),
        (FlipKind::VecSpare, false) => judge(WithRate::new(rate).mutate(spare(&parent), &mut rng).unwrap()),
        (FlipKind::VecSpare, true) => WithOneOverLength.mutate(spare(&parent), &mut rng).map_err(|e| format!("{e}")).and_then(judge),
        (FlipKind::VectorSpare, false) => judge(WithRate::new(rate).mutate(Vector { genes: spare(&parent) }, &mut rng).unwrap().genes),
        (FlipKind::VectorSpare, true) => WithOneOverLength.mutate(Vector { genes: spare(&parent) }, &mut rng).map_err(|e| format!("{e}")).and_then(|v| judge(v.genes)),
        (FlipKind::Bits | FlipKind::BitsSpare, ool) => {
            let p = Bitstring { bits: if fk == FlipKind::BitsSpare { spare(&parent.iter().map(|b| b.val).collect::<Vec<bool>>()) } else { parent.iter().map(|b| b.val).collect() } };
            let out = if ool { WithOneOverLength.mutate(p, &mut rng).map_err(|e| format!("{e}"))? } else { WithRate::new(rate).mutate(p, &mut rng).unwrap() };
            if out.bits.len() != l {
                return Err(format!("length {} instead of {l}", out.bits.len()));
            }
            Ok(out.bits.iter().zip(&parent).map(|(o, p)| *o != p.val).collect())
        }
    })
}

pub fn flip_case(fk: FlipKind, ool: bool, r: (u32, u32), l: usize, m: u32) -> (u64, u64, Option<(String, String)>, usize) {
    let name = if ool { "with_one_over_length" } else { "with_rate" };
    let label = format!("{name} {fk:?} rate {}/{} length {l}", r.0, r.1);
    let mut bad: Option<(String, String)> = None;
    let mut masks: BTreeSet<Vec<bool>> = BTreeSet::new();
    let st = explore(
        |env| flip_once(fk, ool, r.0 as f32 / r.1 as f32, l, env, alphabet_of(m)),
        |_, _, o| {
            let v = match o {
                Err(p) => Some(("panic", format!("panicked: {p}"))),
                Ok(Err(e)) => Some(("structure", e)),
                Ok(Ok(mask)) => {
                    let v = if !ool && r.0 == 0 && mask.iter().any(|b| *b) {
                        Some(("rate0-identity", format!("rate 0 flipped genes: {mask:?}")))
                    } else if !ool && r.0 >= r.1 && mask.iter().any(|b| !*b) {
                        Some(("rate1-all-flipped", format!("rate >= 1 left genes unflipped: {mask:?}")))
                    } else if ool && l == 1 && mask != vec![true] {
                        // 1/length on a single gene is rate 1
                        Some(("rate1-all-flipped", format!("a genome of one gene (rate 1/1) was left unflipped: {mask:?}")))
                    } else {
                        None
                    };
                    masks.insert(mask);
                    v
                }
            };
            if let (Some((k, w)), true) = (v, bad.is_none()) {
                bad = Some((format!("{name}/{k}"), format!("{label}: {w}")));
            }
        },
        20_000_000,
    );
    if let Some(d) = &st.diverged {
        return (st.leaves, st.choice_points, Some((format!("{name}/nondeterministic"), format!("{label}: {d}"))), masks.len());
    }
    (st.leaves, st.choice_points, bad, masks.len())
}

/// `m` >= EXT encodes the alphabet Ext(m - EXT): the grid plus the two extreme words
pub const EXT: u32 = 1000;
/// integer literals from here on are generated genes (parent genes carry their position, below this)
pub const NEW_BASE: i64 = 1 << 40;
/// Long genomes for the flip mutators: the structural oracle (same length, every gene unchanged or negated,
/// rate 0 the identity, rate >= 1 everything flipped) on every stream with at most one non-default word
/// among the first 24 over the extended grid.
pub fn flip_long_case(fk: FlipKind, ool: bool, r: (u32, u32), l: usize) -> (u64, u64, Option<(String, String)>, usize) {
    let name = if ool { "with_one_over_length" } else { "with_rate" };
    let label = format!("{name} {fk:?} rate {}/{} length {l} (long)", r.0, r.1);
    let mut bad: Option<(String, String)> = None;
    let mut any_flip = false;
    let mut any_keep = false;
    let st = mcx::explore_bounded_h(
        |env| flip_once(fk, ool, r.0 as f32 / r.1 as f32, l, env, Alphabet::Ext(2)),
        |_, o| {
            let v = match o {
                Err(p) => Some(("panic", format!("panicked: {p}"))),
                Ok(Err(e)) => Some(("structure", e.chars().take(300).collect())),
                Ok(Ok(mask)) => {
                    any_flip |= mask.iter().any(|b| *b);
                    any_keep |= mask.iter().any(|b| !*b);
                    if !ool && r.0 == 0 && mask.iter().any(|b| *b) {
                        Some(("rate0-identity", format!("rate 0 flipped gene {:?}", mask.iter().position(|b| *b))))
                    } else if !ool && r.0 >= r.1 && mask.iter().any(|b| !*b) {
                        Some(("rate1-all-flipped", format!("rate >= 1 left gene {:?} unflipped", mask.iter().position(|b| !*b))))
                    } else {
                        None
                    }
                }
            };
            if let (Some((k, w)), true) = (v, bad.is_none()) {
                bad = Some((format!("{name}/long/{k}"), format!("{label}: {w}")));
            }
        },
        1,
        24,
        100_000,
    );
    if let Some(d) = &st.diverged {
        return (st.leaves, st.choice_points, Some((format!("{name}/nondeterministic"), format!("{label}: {d}"))), 1);
    }
    (st.leaves, st.choice_points, bad, 1 + usize::from(any_flip && any_keep))
}

pub fn alphabet_of(m: u32) -> Alphabet {
    if m >= EXT {
        Alphabet::Ext(m - EXT)
    } else {
        Alphabet::Grid(m)
    }
}

pub enum Case {
    FlipLong(FlipKind, bool, (u32, u32), usize),
    UmadReuse((u32, u32), (u32, u32), (u32, u32), usize, bool, u32),
    UmadLong(GenomeKind, (u32, u32), (u32, u32), usize, usize),
    Flip(FlipKind, bool, (u32, u32), usize, u32),
    Umad(GenomeKind, UmadKind, (u32, u32), (u32, u32), usize, usize, u32, bool),
}

pub fn cases(quick: bool) -> Vec<Case> {
    let mut v = vec![];
    let max_l = if quick { 3 } else { 4 };
    let rates: Vec<(u32, u32)> = if quick { vec![(0, 2), (1, 2), (2, 2)] } else { vec![(0, 4), (1, 4), (2, 4), (3, 4), (4, 4)] };
    let m = if quick { 2 } else { 4 };
    for fk in [FlipKind::VecTag, FlipKind::VectorTag, FlipKind::Bits, FlipKind::VecTagViaMutate, FlipKind::VecSpare, FlipKind::VectorSpare, FlipKind::BitsSpare] {
        for l in 0..=max_l + 1 {
            for r in rates.iter().chain([(2u32, 1u32)].iter()) {
                v.push(Case::Flip(fk, false, *r, l, m));
            }
            v.push(Case::Flip(fk, true, (1, l.max(1) as u32), l, l.max(1) as u32));
            // every stream, including the extreme words 0 and all-ones
            if l <= max_l {
                for r in rates.iter().chain([(2u32, 1u32)].iter()) {
                    v.push(Case::Flip(fk, false, *r, l, EXT + 2));
                }
                v.push(Case::Flip(fk, true, (1, l.max(1) as u32), l, EXT + l.max(1) as u32));
            }
        }
    }
    {
        let lens: Vec<usize> = if quick { (9usize..=70).chain([127, 128, 129, 255, 256, 257, 1000, 4097, 65_537]).collect() } else { (9usize..=300).chain([511, 512, 513, 1000, 4096, 4097, 65_535, 65_536, 65_537, 100_003]).collect() };
        for fk in [FlipKind::VecTag, FlipKind::VectorTag, FlipKind::Bits, FlipKind::VecTagViaMutate, FlipKind::BitsSpare] {
            for l in &lens {
                for r in [(0u32, 2u32), (1, 2), (2, 2), (2, 1)] {
                    v.push(Case::FlipLong(fk, false, r, *l));
                }
                v.push(Case::FlipLong(fk, true, (1, *l as u32), *l));
            }
        }
        for gk in [GenomeKind::Vector, GenomeKind::Plushy] {
            for l in if quick { vec![1000usize, 4097, 65_537] } else { vec![1000usize, 4097, 65_536, 65_537, 100_003] } {
                for (a, d) in [((1u32, 2u32), (1u32, 2u32)), ((1, 1), (0, 1)), ((0, 1), (0, 1)), ((1, 2), (1, 1))] {
                    v.push(Case::UmadLong(gk, a, d, l, 1));
                }
            }
        }
    }
    for gk in [GenomeKind::Vector, GenomeKind::Plushy] {
        for l in if quick { (9usize..=70).chain([100, 128, 129, 256, 257]).collect::<Vec<usize>>() } else { (9usize..=140).chain([191, 192, 255, 256, 257, 300, 511, 512, 513]).collect() } {
            for (a, d) in [((1u32, 2u32), (1u32, 2u32)), ((1, 1), (1, 2)), ((1, 2), (0, 1))] {
                v.push(Case::UmadLong(gk, a, d, l, if quick || l > 130 { 1 } else { 2 }));
            }
        }
    }
    for a in &rates {
        for e in &rates {
            for d in &rates {
                for l in [1usize, 2, 37] {
                    // (the full tree for the short parents, every stream with at most one non-default word for the long one)
                    for empty_first in [true, false] {
                        v.push(Case::UmadReuse(*a, *e, *d, l, empty_first, 2));
                    }
                }
            }
        }
    }
    for gk in [GenomeKind::Vector, GenomeKind::Queue, GenomeKind::Plushy, GenomeKind::PlushyClose, GenomeKind::Bits] {
        for l in 0..=max_l {
            for a in &rates {
                for d in &rates {
                    for g in [1usize, 2] {
                        if 4 * l as u32 > 12 && m > 2 && g == 2 {
                            continue;
                        }
                        let kinds: Vec<UmadKind> = if l == 0 {
                            vec![UmadKind::Plain, UmadKind::WithoutEmpty, UmadKind::EmptyRate(0, 2), UmadKind::EmptyRate(1, 2), UmadKind::EmptyRate(2, 2)]
                        } else {
                            vec![UmadKind::Plain, UmadKind::WithoutEmpty]
                        };
                        for kind in kinds {
                            // leaves: m^(draws) with up to 4 draws per gene: keep below the budget
                            if (m as u64).pow(4 * l as u32) > 20_000_000 {
                                continue;
                            }
                            v.push(Case::Umad(gk, kind, *a, *d, g, l, m, gk == GenomeKind::Vector && g == 1));
                            if l <= 2 && m == 2 {
                                v.push(Case::Umad(gk, kind, *a, *d, g, l, EXT + 2, false));
                            }
                        }
                    }
                }
            }
        }
    }
    v
}

pub fn run_case(c: &Case) -> (u64, u64, Option<(String, String)>, usize) {
    match c {
        Case::FlipLong(fk, ool, r, l) => flip_long_case(*fk, *ool, *r, *l),
        Case::UmadReuse(a, e, d, l, ef, m) => umad_reuse_case(*a, *e, *d, *l, *ef, *m),
        Case::UmadLong(gk, a, d, l, dev) => umad_long_case(*gk, *a, *d, *l, *dev),
        Case::Flip(fk, ool, r, l, m) => flip_case(*fk, *ool, *r, *l, *m),
        Case::Umad(gk, kind, a, d, g, l, m, via) => umad_case(*gk, *kind, *a, *d, *g, *l, *m, *via),
    }
}

fn case_json(c: &Case) -> Value {
    match c {
        Case::FlipLong(fk, ool, r, l) => json!({"check":"C11","scenario":"flip-long","kind":format!("{fk:?}"),"one_over_length":ool,"rate":[r.0,r.1],"l":l}),
        Case::UmadReuse(a, e, d, l, ef, m) => json!({"check":"C11","scenario":"umad-reuse","a":[a.0,a.1],"e":[e.0,e.1],"d":[d.0,d.1],"l":l,"empty_first":ef,"m":m}),
        Case::UmadLong(gk, a, d, l, dev) => json!({"check":"C11","scenario":"umad-long","genome":format!("{gk:?}"),"a":[a.0,a.1],"d":[d.0,d.1],"l":l,"dev":dev}),
        Case::Flip(fk, ool, r, l, m) => json!({"check":"C11","scenario":"flip","kind":format!("{fk:?}"),"one_over_length":ool,"rate":[r.0,r.1],"l":l,"m":m}),
        Case::Umad(gk, kind, a, d, g, l, m, via) => json!({"check":"C11","scenario":"umad","genome":format!("{gk:?}"),"kind":format!("{kind:?}"),"a":[a.0,a.1],"d":[d.0,d.1],"g":g,"l":l,"m":m,"via":via}),
    }
}

pub fn run(run: &mut Run) {
    if let Err(e) = mcx::rng::calibrate() {
        run.machinery(format!("calibration failed: {e}"));
        return;
    }
    let cs = cases(run.quick());
    let results = mcx::par_map(cs.len(), |i| run_case(&cs[i]));
    let mut nontrivial = 0;
    for (i, (leaves, cps, v, outcomes)) in results.into_iter().enumerate() {
        run.evaluations += leaves;
        run.transitions += cps;
        if outcomes > 1 {
            nontrivial += 1;
        }
        if let Some((k, w)) = v {
            if k.starts_with("machinery/") {
                run.machinery(w);
            } else {
                run.violation(k, w, case_json(&cs[i]));
            }
        }
    }
    run.states = cs.len() as u64;
    run.traces_validated = run.evaluations;
    run.distinct_nontrivial = nontrivial;
    run.rule = "WithRate / WithOneOverLength on Vec<TagBit>, Vector<TagBit>, Bitstring (each also held in a buffer with spare capacity) and through Mutate; Umad (new / new_with_empty_rate / new_without_empty) on Vector<Gene>, a user-defined queue genome whose iterator has no size hint, Plushy (instruction genes, and parents whose even positions are close markers) and Bitstring, through &, by value and through Mutate; all parent lengths 0..L, all lattice rates, all grid word sequences, and (lengths <= 3 for flips, <= 2 for UMAD) all sequences over the grid plus the extreme words 0 and all-ones; plus UMAD on long parents (64..257, thorough 31..300) under every stream with at most 1 (2) non-default words, and on parents of 1000..65537 genes with the deviation among the first 24 words; the flip mutators on genomes of 9..70, around 128 and 256, 1000, 4097, 65537 genes (thorough every length up to 300 and more) on every stream with at most one non-default word among the first 24; plus one Umad::new_with_empty_rate value applied to an empty and a non-empty parent in either order (all lattice rates for the three parameters; parents of 1, 2 (whole tree) and 37 genes (every stream with at most one non-default word)), both outputs judged; structural oracle on every leaf (positions preserved, subsequence order, at most one insertion per parent position, provenance of new genes, boundary rates). non-trivial = scenarios with more than one distinct output".into();
    run.bound("max_parent_length", json!(if run.quick() { 3 } else { 4 }));
    run.bound("rates", json!(if run.quick() { "{0, 1/2, 1, 2}" } else { "{0, 1/4, 1/2, 3/4, 1, 2}" }));
    run.assumptions = vec!["structure is rate independent: lattice rates reach both outcomes of every coin".into()];
    run.sample(json!({"op":"Umad::new(1, 0, gen)","parent":"[Old(0), Old(1)]","expected":"[Old(0), New, Old(1), New]"}));
    run.sample(json!({"op":"WithRate(1/2)","parent_length":3,"expected":"8 distinct flip masks, positions preserved"}));
}

pub fn replay(v: &Value) -> bool {
    let pair = |x: &Value| (x[0].as_u64().unwrap_or(0) as u32, x[1].as_u64().unwrap_or(1) as u32);
    let l = v["l"].as_u64().unwrap_or(0) as usize;
    let m = v["m"].as_u64().unwrap_or(2) as u32;
    let c = match v["scenario"].as_str() {
        Some("flip") => {
            let fk = [FlipKind::VecTag, FlipKind::VectorTag, FlipKind::Bits, FlipKind::VecTagViaMutate, FlipKind::VecSpare, FlipKind::VectorSpare, FlipKind::BitsSpare]
                .into_iter()
                .find(|k| Some(format!("{k:?}").as_str()) == v["kind"].as_str())
                .unwrap_or(FlipKind::VecTag);
            Case::Flip(fk, v["one_over_length"].as_bool().unwrap_or(false), pair(&v["rate"]), l, m)
        }
        Some("flip-long") => {
            let fk = [FlipKind::VecTag, FlipKind::VectorTag, FlipKind::Bits, FlipKind::VecTagViaMutate, FlipKind::VecSpare, FlipKind::VectorSpare, FlipKind::BitsSpare]
                .into_iter()
                .find(|k| Some(format!("{k:?}").as_str()) == v["kind"].as_str())
                .unwrap_or(FlipKind::VecTag);
            Case::FlipLong(fk, v["one_over_length"].as_bool().unwrap_or(false), pair(&v["rate"]), l)
        }
        Some("umad-reuse") => Case::UmadReuse(pair(&v["a"]), pair(&v["e"]), pair(&v["d"]), l, v["empty_first"].as_bool().unwrap_or(true), m),
        Some("umad-long") => {
            let gk = [GenomeKind::Vector, GenomeKind::Plushy, GenomeKind::PlushyClose].into_iter().find(|k| Some(format!("{k:?}").as_str()) == v["genome"].as_str()).unwrap_or(GenomeKind::Vector);
            Case::UmadLong(gk, pair(&v["a"]), pair(&v["d"]), l, v["dev"].as_u64().unwrap_or(1) as usize)
        }
        Some("umad") => {
            let gk = [GenomeKind::Vector, GenomeKind::Queue, GenomeKind::Plushy, GenomeKind::PlushyClose, GenomeKind::Bits]
                .into_iter()
                .find(|k| Some(format!("{k:?}").as_str()) == v["genome"].as_str())
                .unwrap_or(GenomeKind::Vector);
            let kinds = [UmadKind::Plain, UmadKind::WithoutEmpty, UmadKind::EmptyRate(0, 2), UmadKind::EmptyRate(1, 2), UmadKind::EmptyRate(2, 2)];
            let kind = kinds.into_iter().find(|k| Some(format!("{k:?}").as_str()) == v["kind"].as_str()).unwrap_or(UmadKind::Plain);
            Case::Umad(gk, kind, pair(&v["a"]), pair(&v["d"]), v["g"].as_u64().unwrap_or(1) as usize, l, m, v["via"].as_bool().unwrap_or(false))
        }
        _ => return false,
    };
    let (leaves, _, viol, outcomes) = run_case(&c);
    println!("{}: {leaves} executions, {outcomes} distinct outputs", case_json(&c));
    match viol {
        Some((k, w)) => {
            println!("MISMATCH [{k}]: {w}");
            false
        }
        None => {
            println!("replay: property held");
            true
        }
    }
}
