//! C02 second half: after a recoverable error the interpreter carries on as if
//! the failed instruction had been a no-op.

use crate::c01::{cap_patterns, instruction_alphabet, rstate_json, rstate_ser, set_caps, PerformOn};
use crate::interp::{run_real, RealFinal};
use crate::pushref::*;
use crate::vm::*;
use mcx::Run;
use push::instruction::{BoolInstruction, IntInstruction, PushInstruction};
use push::push_vm::program::PushProgram;
use serde_json::json;

fn continuations() -> Vec<Vec<PushProgram>> {
    let i = |x: PushInstruction| PushProgram::Instruction(x);
    let atoms: Vec<PushProgram> = vec![
        i(PushInstruction::push_int(2)),
        i(PushInstruction::push_bool(true)),
        i(IntInstruction::Add.into()),
        i(IntInstruction::dup().into()),
        i(BoolInstruction::Not.into()),
        i(crate::interp::exec_variant("Dup").into()),
        PushProgram::Block(vec![i(PushInstruction::push_int(9)), i(IntInstruction::Inc.into())]),
    ];
    let mut v: Vec<Vec<PushProgram>> = vec![vec![]];
    for a in &atoms {
        v.push(vec![a.clone()]);
    }
    for a in &atoms {
        for b in atoms.iter().take(5) {
            v.push(vec![a.clone(), b.clone()]);
        }
    }
    v.truncate(40);
    v
}

pub fn continuation_check(run: &mut Run) -> (u64, u64) {
    let alpha = instruction_alphabet(false);
    // a family of data states in which many instructions fail recoverably
    let mut family: Vec<RState> = vec![];
    for ints in [vec![], vec![i64::MAX], vec![i64::MIN, -1], vec![5]] {
        for floats in [vec![], vec![1.5]] {
            for bools in [vec![], vec![true]] {
                let mut r = RState::empty([8; 4]);
                r.inputs = default_inputs();
                r.int = ints.clone();
                r.float = floats.clone();
                r.boolean = bools.clone();
                family.push(r);
            }
        }
    }
    let conts = continuations();
    let results = mcx::par_map(family.len(), |k| {
        let base = &family[k];
        let mut viols = vec![];
        let (mut cases, mut runs) = (0u64, 0u64);
        for caps in cap_patterns(base.sizes()).into_iter().take(1).chain([[8, 2, 2, 2]]) {
            let mut pre = base.clone();
            pre.caps = caps;
            if !pre.within_caps() {
                continue;
            }
            for (name, instr) in &alpha.instrs {
                for q in &conts {
                    // the failure must be judged in the state the instruction will actually meet:
                    // data stacks as given, Q on the exec stack
                    let mut without = pre.clone();
                    without.exec = q.iter().rev().cloned().collect();
                    if !without.within_caps() {
                        continue;
                    }
                    let mut real_q = make_real(&without, 100);
                    set_caps(&mut real_q, caps);
                    let Ok(r) = mcx::guarded(|| instr.perform_on(real_q.clone())) else { continue };
                    let o = classify(r);
                    if o.kind != Kind::Skip {
                        continue;
                    }
                    cases += 1;
                    let mut with = without.clone();
                    with.exec.push(PushProgram::Instruction(instr.clone()));
                    if !with.within_caps() {
                        continue;
                    }
                    for limit in [1usize, 2, 3, 6, 50] {
                        runs += 2;
                        let a = run_real(&with, limit);
                        // the skipped instruction is taken from the exec stack like a no-op, i.e. it uses up
                        // one step: [i] ++ Q under limit L must end like Q under limit L-1
                        let b0 = run_real(&without, limit.saturating_sub(1));
                        let same = |x: &RealFinal, y: &RealFinal| match (x, y) {
                            (RealFinal::Done(s), RealFinal::Done(t)) => observe(s) == observe(t),
                            (RealFinal::Aborted(s, _), RealFinal::Aborted(t, _)) => observe(s) == observe(t),
                            _ => false,
                        };
                        if !same(&a, &b0) {
                            if viols.len() < 10 {
                                viols.push((
                                    format!("continue-after-skip/{name}"),
                                    format!(
                                        "{name} fails recoverably in {} but running [{name}] ++ Q with limit {limit} does not end like Q alone under limit-1 (Q = {:?})",
                                        rstate_json(&without),
                                        q.iter().map(prog_compact).collect::<Vec<_>>()
                                    ),
                                    json!({"check":"C02","kind":"run","label": format!("{name} then Q"), "limit": limit, "state": rstate_json(&with), "state_full": rstate_ser(&with)}),
                                ));
                            }
                        }
                    }
                }
            }
        }
        (cases, runs, viols)
    });
    let (mut cases, mut runs) = (0, 0);
    for (c, r, v) in results {
        cases += c;
        runs += r;
        for (k, w, rp) in v {
            run.violation(k, w, rp);
        }
    }
    if cases < 50 {
        run.machinery(format!("vacuity: only {cases} recoverably failing (state, instruction) cases"));
    }
    (cases, runs)
}
