//! Large populations for the selector checks (C06 membership, C07 order, C08 lexicase).
//! The exact laws of those checks are decided on populations of up to 4..7 individuals; a selector
//! that changes its method with the population size (sampling with replacement, an index type, a
//! cached buffer, another algorithm of the sampler it calls - rand's `choose_multiple` itself
//! switches algorithm at amount 11 / 163 and by the length-to-amount ratio) is only reached with
//! more.  Here: every population size of a dense range and around powers of two, structured
//! populations, and oracles that hold on *every* stream - so a deviation-bounded exploration (all
//! streams with at most d non-default words within a horizon, deterministic tail beyond) decides
//! them - plus, for C07, the exact uniform law of the tournament of size 1 (one draw over the grid of n cells).

use crate::selectors::*;
use ec_core::operator::selector::best::Best;
use ec_core::operator::selector::lexicase::Lexicase;
use ec_core::operator::selector::random::Random;
use ec_core::operator::selector::tournament::Tournament;
use ec_core::operator::selector::worst::Worst;
use mcx::{Alphabet, Law, Ratio, Run};
use serde_json::{json, Value};
use std::num::NonZeroUsize;

#[derive(Clone, Copy, Debug, PartialEq, Eq)]
pub enum BigMode {
    Member,
    Order,
    Lexi,
}

#[derive(Clone, Copy, Debug, PartialEq, Eq)]
enum Sel {
    Best,
    Worst,
    Random,
    Tour(usize),
    Lex(usize),
    /// Lexicase(3) on individuals that all tie, one of which (at the given position) has two results only
    LexShort(usize),
}

pub fn sizes(quick: bool) -> Vec<usize> {
    let mut v: Vec<usize> = (8..=70).collect();
    v.extend([127, 128, 129, 162, 163, 164, 255, 256, 257, 511, 512, 513, 1023, 1024, 1025, 1100, 2003, 4097]);
    if !quick {
        v.extend(71..=126);
        v.extend(130..=161);
        v.extend(165..=254);
        v.extend([2047, 2048, 2049, 65535, 65536, 65537]);
    }
    v
}

/// structured populations of n values (one result each)
fn patterns(n: usize) -> Vec<(&'static str, Vec<i64>)> {
    let asc: Vec<i64> = (0..n as i64).collect();
    let desc: Vec<i64> = asc.iter().rev().copied().collect();
    let one = |p: usize, hi: bool| -> Vec<i64> { (0..n).map(|i| if i == p { if hi { 9 } else { 1 } } else { 5 }).collect() };
    // the member a range draw over 0..n picks when the stream hands out its default word every time: a
    // sampler that may enter one member twice enters this one k times on the default stream
    let d = {
        use rand::Rng;
        let mut env = mcx::Env::new(vec![]);
        let mut rng = mcx::ChoiceRng::new(&mut env, Alphabet::Ext(4));
        rng.random_range(0..n)
    };
    vec![
        ("one worst at the default draw", one(d, false)),
        ("one best at the default draw", one(d, true)),
        ("ascending", asc),
        ("descending", desc),
        ("one best first", one(0, true)),
        ("one best middle", one(n / 2, true)),
        ("one best last", one(n - 1, true)),
        ("one worst first", one(0, false)),
        ("one worst last", one(n - 1, false)),
        ("seven classes", (0..n).map(|i| (i * 3 % 7) as i64).collect()),
    ]
}

fn tour_sizes(n: usize) -> Vec<usize> {
    let mut k = vec![1, 2, 3, 7, 11, 12, 16, 17, 31, 32, 33, 64, 65, 162, 163, 164, n / 64, n / 65, n / 3, n / 2, n - 2, n - 1, n, n + 1];
    k.retain(|x| *x >= 1 && *x <= n + 1);
    k.sort();
    k.dedup();
    k
}

/// An individual whose comparisons are recorded: the entrants of a tournament are the individuals
/// its `max` looks at.  ("Draws k distinct individuals and returns the best of them": to know the
/// best of k individuals of an arbitrary ordered type, each of them has to be compared at least once.)
#[derive(Debug)]
pub struct Probe {
    value: i64,
    id: usize,
}
thread_local! {
    static TOUCHED: std::cell::RefCell<Vec<usize>> = const { std::cell::RefCell::new(Vec::new()) };
}
fn touch(a: usize, b: usize) {
    TOUCHED.with(|t| {
        let mut t = t.borrow_mut();
        t.push(a);
        t.push(b);
    });
}
impl PartialEq for Probe {
    fn eq(&self, o: &Self) -> bool {
        touch(self.id, o.id);
        self.value == o.value
    }
}
impl Eq for Probe {}
impl PartialOrd for Probe {
    fn partial_cmp(&self, o: &Self) -> Option<std::cmp::Ordering> {
        Some(self.cmp(o))
    }
}
impl Ord for Probe {
    fn cmp(&self, o: &Self) -> std::cmp::Ordering {
        touch(self.id, o.id);
        self.value.cmp(&o.value)
    }
}

struct Pops {
    plain: Pop,
    matrix: Pop,
    probes: Vec<Probe>,
}
fn pops(values: &[i64]) -> Pops {
    Pops { plain: mk_pop_matrix(&values.iter().enumerate().map(|(i, v)| if i % 3 == 0 { vec![*v - 1, 1] } else { vec![*v] }).collect::<Vec<_>>()), matrix: mk_pop_matrix(&lex_rows(values)), probes: values.iter().enumerate().map(|(id, v)| Probe { value: *v, id }).collect() }
}
/// tournament on the recording individuals: (result, distinct individuals compared, was the winner among them)
fn run_probe_tournament(k: usize, p: &Pops, env: &mut mcx::Env, alpha: Alphabet) -> (SelObs, usize, bool) {
    TOUCHED.with(|t| t.borrow_mut().clear());
    let o = observe_select(&Tournament::new(NonZeroUsize::new(k).unwrap()), &p.probes, &p.probes, env, alpha);
    let mut ids = TOUCHED.with(|t| std::mem::take(&mut *t.borrow_mut()));
    ids.sort_unstable();
    ids.dedup();
    let winner_in = matches!(o, SelObs::Idx(i) if ids.binary_search(&i).is_ok());
    (o, ids.len(), winner_in)
}
fn run_sel(sel: Sel, p: &Pops, env: &mut mcx::Env, alpha: Alphabet) -> SelObs {
    match sel {
        Sel::Best => observe_select(&Best, &p.plain, &p.plain, env, alpha),
        Sel::Worst => observe_select(&Worst, &p.plain, &p.plain, env, alpha),
        Sel::Random => observe_select(&Random, &p.plain, &p.plain, env, alpha),
        Sel::Tour(k) => observe_select(&Tournament::new(NonZeroUsize::new(k).unwrap()), &p.plain, &p.plain, env, alpha),
        Sel::Lex(c) => observe_select(&Lexicase::new(c), &p.matrix, &p.matrix, env, alpha),
        Sel::LexShort(at) => {
            let rows: Vec<Vec<i64>> = (0..p.plain.len()).map(|i| if i == at { vec![5, 5] } else { vec![5, 5, 5] }).collect();
            let pop = mk_pop_matrix(&rows);
            observe_select(&Lexicase::new(3), &pop, &pop, env, alpha)
        }
    }
}

/// three results per individual, derived from its value: many individuals are dominated, several are not
fn lex_rows(values: &[i64]) -> Vec<Vec<i64>> {
    values.iter().map(|v| vec![*v, (*v * 5) % 7, (*v * 3) % 5]).collect()
}

fn lex_dominated(rows: &[Vec<i64>], c: usize, w: usize) -> bool {
    rows.iter().enumerate().any(|(j, r)| j != w && (0..c).all(|k| r[k] >= rows[w][k]) && (0..c).any(|k| r[k] > rows[w][k]))
}

/// the oracle on one result; None = fine
fn judge(mode: BigMode, sel: Sel, values: &[i64], o: &SelObs) -> Option<(&'static str, String)> {
    let n = values.len();
    match o {
        SelObs::Panic(p) => Some(("panic", format!("panicked: {p}"))),
        SelObs::NotMember => Some(("not-a-member", "returned a reference that is not an element of the population it was given".into())),
        SelObs::Err(k) => {
            let fine = (matches!(sel, Sel::Tour(t) if t > n) && *k == ErrKind::TournamentSize) || (matches!(sel, Sel::LexShort(_)) && *k == ErrKind::MissingCase);
            if fine {
                error_details_wrong(*k, n, matches!(sel, Sel::LexShort(_)).then_some(3), matches!(sel, Sel::LexShort(_)).then_some(2)).map(|w| ("error-details", w))
            } else {
                Some(("undocumented-error", format!("reported {k:?} on a population of {n}")))
            }
        }
        SelObs::Idx(i) => {
            if matches!(sel, Sel::Tour(t) if t > n) {
                return Some(("too-large-accepted", format!("a tournament larger than the population of {n} returned individual {i}")));
            }
            if matches!(sel, Sel::LexShort(_)) {
                return Some(("missing-result-ignored", format!("returned individual {i} although every ordering of the cases meets a result that a remaining candidate lacks: MissingTestCase is due")));
            }
            if mode == BigMode::Member {
                return None;
            }
            let w = values[*i];
            match sel {
                Sel::Best if values.iter().any(|v| *v > w) => Some(("extremal", format!("best returned individual {i} of value {w}, the maximum is {}", values.iter().max().unwrap()))),
                Sel::Worst if values.iter().any(|v| *v < w) => Some(("extremal", format!("worst returned individual {i} of value {w}, the minimum is {}", values.iter().min().unwrap()))),
                Sel::Tour(k) => {
                    // the winner beats or ties the k-1 other entrants, which are distinct members
                    let not_better = values.iter().filter(|v| **v <= w).count();
                    if not_better < k {
                        Some(("weak-winner", format!("the winner (individual {i}, value {w}) is at least as good as only {} other members; k-1 = {} distinct other entrants cannot all be among them", not_better - 1, k - 1)))
                    } else {
                        None
                    }
                }
                Sel::Lex(c) => {
                    let rows = lex_rows(values);
                    if lex_dominated(&rows, c, *i) {
                        Some(("dominated-winner", format!("returned individual {i} (results {:?}), which is Pareto-dominated on the {c} considered cases", &rows[*i][..c])))
                    } else {
                        None
                    }
                }
                _ => None,
            }
        }
    }
}

fn sel_name(s: Sel) -> String {
    match s {
        Sel::Best => "best".into(),
        Sel::Worst => "worst".into(),
        Sel::Random => "random".into(),
        Sel::Tour(k) => format!("tournament({k})"),
        Sel::Lex(c) => format!("lexicase({c})"),
        Sel::LexShort(at) => format!("lexicase(3; individual {at} has two results)"),
    }
}
fn sel_json(s: Sel) -> Value {
    match s {
        Sel::Best => json!("best"),
        Sel::Worst => json!("worst"),
        Sel::Random => json!("random"),
        Sel::Tour(k) => json!({"tournament": k}),
        Sel::Lex(c) => json!({"lexicase": c}),
        Sel::LexShort(at) => json!({"lexicase_short_at": at}),
    }
}
fn sel_from(v: &Value) -> Option<Sel> {
    if let Some(k) = v["tournament"].as_u64() {
        return Some(Sel::Tour(k as usize));
    }
    if let Some(at) = v["lexicase_short_at"].as_u64() {
        return Some(Sel::LexShort(at as usize));
    }
    if let Some(c) = v["lexicase"].as_u64() {
        return Some(Sel::Lex(c as usize));
    }
    match v.as_str()? {
        "best" => Some(Sel::Best),
        "worst" => Some(Sel::Worst),
        "random" => Some(Sel::Random),
        _ => None,
    }
}

/// one scenario; returns (streams, choice points, violation)
fn scenario(mode: BigMode, sel: Sel, pattern: &str, values: &[i64], dev: usize) -> (u64, u64, Option<(String, String)>) {
    let n = values.len();
    let label = format!("{} on {n} individuals ({pattern})", sel_name(sel));
    let mut bad: Option<(String, String)> = None;
    let mut note = |kind: &str, what: String, bad: &mut Option<(String, String)>| {
        if bad.is_none() {
            *bad = Some((format!("big/{}/{kind}", sel_name(sel).split('(').next().unwrap()), format!("{label}: {what}")));
        }
    };
    // one draw decides: the exact law over the grid of n cells
    let single = matches!(sel, Sel::Random | Sel::Tour(1));
    let pp = pops(values);
    if single {
        let mut law: Law<usize> = Law::new();
        let mut draws_max = 0usize;
        let st = mcx::explore(
            |env| {
                let o = run_sel(sel, &pp, env, Alphabet::Grid(n as u32));
                (o, env.draws())
            },
            |_, w, (o, d)| {
                draws_max = draws_max.max(d);
                if let Some((k, what)) = judge(mode, sel, values, &o) {
                    note(k, what, &mut bad);
                }
                if let SelObs::Idx(i) = o {
                    law.add(i, w);
                }
            },
            300_000,
        );
        if bad.is_none() && !st.capped && st.total_weight_is_one && draws_max == 1 && mode == BigMode::Order && sel == Sel::Tour(1) {
            let each = Ratio::new(1, n as u128);
            let uniform = law.mass.len() == n && law.mass.values().all(|m| *m == each);
            if !uniform {
                let missing: Vec<usize> = (0..n).filter(|i| !law.mass.contains_key(i)).take(6).collect();
                note("law", format!("the choice is not uniform over the {n} positions: {} positions are reachable{}", law.mass.len(), if missing.is_empty() { String::new() } else { format!(", never chosen e.g. {missing:?}") }), &mut bad);
            }
        }
        if let Some(d) = &st.diverged {
            note("nondeterministic", d.clone(), &mut bad);
        }
        return (st.leaves, st.choice_points, bad);
    }
    let st = mcx::explore_bounded_h(
        |env| match sel {
            Sel::Tour(k) if mode == BigMode::Order && k >= 2 && k <= n => {
                let (o, compared, winner_in) = run_probe_tournament(k, &pp, env, Alphabet::Ext(4));
                (o, Some((compared, winner_in)))
            }
            _ => (run_sel(sel, &pp, env, Alphabet::Ext(4)), None),
        },
        |_, (o, probe)| {
            if let Some((k, what)) = judge(mode, sel, values, &o) {
                note(k, what, &mut bad);
            }
            if let (Some((compared, winner_in)), Sel::Tour(k), SelObs::Idx(i)) = (probe, sel, &o) {
                if compared < k {
                    note("entrants", format!("the selection compared only {compared} distinct individuals before returning individual {i}: the best of {k} distinct entrants cannot be known from that"), &mut bad);
                } else if !winner_in {
                    note("entrants", format!("the returned individual {i} was never compared with another one"), &mut bad);
                }
            }
        },
        dev,
        if n > 300 { 12 } else { 24 },
        20_000,
    );
    if let Some(d) = &st.diverged {
        note("nondeterministic", d.clone(), &mut bad);
    }
    (st.leaves, st.choice_points, bad)
}

pub fn run_family(run: &mut Run, mode: BigMode) {
    let quick = run.quick();
    let mut scen: Vec<(Sel, &'static str, Vec<i64>, usize)> = vec![];
    for n in sizes(quick) {
        let dev = if n <= 40 && !quick { 2 } else { 1 };
        for (pname, values) in patterns(n) {
            let sels: Vec<Sel> = match mode {
                BigMode::Lexi => vec![Sel::Lex(1), Sel::Lex(2), Sel::Lex(3)],
                BigMode::Member => {
                    let mut v = vec![Sel::Best, Sel::Worst, Sel::Random, Sel::Lex(2)];
                    v.extend(tour_sizes(n).into_iter().map(Sel::Tour));
                    if pname == "ascending" {
                        v.extend([Sel::LexShort(0), Sel::LexShort(n / 2), Sel::LexShort(n - 1)]);
                    }
                    v
                }
                BigMode::Order => {
                    let mut v = vec![Sel::Best, Sel::Worst];
                    v.extend(tour_sizes(n).into_iter().map(Sel::Tour));
                    v
                }
            };
            // the large sizes: three patterns are enough per selector
            if n > 300 && !matches!(pname, "ascending" | "one best last" | "one worst first" | "seven classes" | "one worst at the default draw") {
                continue;
            }
            for s in sels {
                scen.push((s, pname, values.clone(), dev));
            }
        }
    }
    let results = mcx::par_map(scen.len(), |i| scenario(mode, scen[i].0, scen[i].1, &scen[i].2, scen[i].3));
    let mut streams = 0u64;
    for (i, (leaves, cps, v)) in results.into_iter().enumerate() {
        streams += leaves;
        run.evaluations += leaves;
        run.transitions += cps;
        if let Some((k, w)) = v {
            let (s, p, values, dev) = &scen[i];
            run.violation(k, w, json!({"check": match mode { BigMode::Member => "C06", BigMode::Order => "C07", BigMode::Lexi => "C08" }, "big": true, "selector": sel_json(*s), "pattern": p, "n": values.len(), "dev": dev}));
        }
    }
    run.note("big.scenarios", json!(scen.len()));
    run.note("big.streams", json!(streams));
    run.bound("big.population_sizes", json!(if quick { "8..=70, 127..=129, 162..=164, 255..=257, 511..=513, 1023..=1025, 1100, 2003, 4097" } else { "8..=257, 511..=513, 1023..=1025, 2047..=2049, 4097, 65535..=65537" }));
    run.bound("big.streams", json!("tournament of size 1 / random choice: all n cells of the grid (exact uniform law); otherwise every stream with at most 1 non-default word (2 up to 40 individuals, thorough) among the first 24 (12 beyond 300 individuals) over the extended grid Ext(4)"));
}

/// Binary tournaments on populations of thousands: a sampler of 2 distinct out of n makes two range draws
/// (n-1 and n values: rand's, calibrated below on `rand::seq::index::sample` itself); all (n-1) * n pairs of
/// grid words are enumerated and every unordered pair of individuals must be the pair of entrants exactly
/// twice - "every 2-subset equally likely", decided exactly at sizes where no tree could be walked.  The
/// entrants are the individuals whose comparison is recorded.
pub fn binary_pair_law(run: &mut Run) {
    struct TwoWords {
        w: [u32; 2],
        i: usize,
        odd: bool,
    }
    impl rand::RngCore for TwoWords {
        fn next_u32(&mut self) -> u32 {
            let k = self.i;
            self.i += 1;
            if k < 2 {
                self.w[k]
            } else {
                // (further draws: a scrambled sequence - a constant word could keep a redrawing sampler going for ever)
                self.odd = true;
                let mut z = (self.w[0] as u64 ^ ((self.w[1] as u64) << 32)).wrapping_add((k as u64).wrapping_mul(0x9e37_79b9_7f4a_7c15));
                z = (z ^ (z >> 30)).wrapping_mul(0xbf58_476d_1ce4_e5b9);
                (z >> 32) as u32
            }
        }
        fn next_u64(&mut self) -> u64 {
            self.odd = true;
            self.i += 1;
            0x8000_0000_0000_0001
        }
        fn fill_bytes(&mut self, dst: &mut [u8]) {
            self.odd = true;
            dst.fill(0x55);
        }
    }
    let sizes: Vec<usize> = if run.quick() { vec![4098, 5000] } else { vec![4097, 4098, 5000, 8192, 10_007] };
    for n in sizes {
        let pair_index = |a: usize, b: usize| -> usize {
            let (a, b) = if a < b { (a, b) } else { (b, a) };
            b * (b - 1) / 2 + a
        };
        let total_pairs = n * (n - 1) / 2;
        let (g1, g2) = (Alphabet::Grid(n as u32 - 1), Alphabet::Grid(n as u32));
        // enumerate; `subject`: the tournament, else rand's own sampler (calibration)
        let enumerate = |subject: bool| -> Result<(u64, Option<(usize, usize, u8)>), String> {
            let counts: Vec<std::sync::atomic::AtomicU8> = (0..total_pairs).map(|_| std::sync::atomic::AtomicU8::new(0)).collect();
            let probes: Vec<Probe> = (0..n).map(|id| Probe { value: (id % 5) as i64, id }).collect();
            let chunks = 64usize;
            let errs = mcx::par_map(chunks, |c| {
                let (lo, hi) = (c * (n - 1) / chunks, (c + 1) * (n - 1) / chunks);
                let sel = Tournament::binary();
                for j1 in lo..hi {
                    let w1 = g1.word32(j1 as u32);
                    mcx::watch::enter(Box::new(move |_| ("big/tournament/pair-law/hang".to_string(), format!("binary tournament on {n} individuals with first word {w1:#x}"), json!({"check":"C07","big":true,"pair_law":n}))));
                    for j2 in 0..n {
                        let mut rng = TwoWords { w: [w1, g2.word32(j2 as u32)], i: 0, odd: false };
                        let (a, b) = if subject {
                            TOUCHED.with(|t| t.borrow_mut().clear());
                            let r = ec_core::operator::selector::Selector::select(&sel, &probes, &mut rng);
                            if r.is_err() {
                                return Some("the selection failed".to_string());
                            }
                            let ids = TOUCHED.with(|t| std::mem::take(&mut *t.borrow_mut()));
                            match ids.as_slice() {
                                [a, b] if a != b => (*a, *b),
                                other => return Some(format!("the comparisons recorded for one binary tournament were {other:?}")),
                            }
                        } else {
                            let v = rand::seq::index::sample(&mut rng, n, 2).into_vec();
                            (v[0], v[1])
                        };
                        if rng.odd || rng.i != 2 {
                            return Some(format!("{} draws, not two 32-bit range draws", rng.i));
                        }
                        counts[pair_index(a, b)].fetch_add(1, std::sync::atomic::Ordering::Relaxed);
                    }
                    mcx::watch::leave();
                }
                None
            });
            if let Some(e) = errs.into_iter().flatten().next() {
                return Err(e);
            }
            let mut bad = 0u64;
            let mut example = None;
            for b in 1..n {
                for a in 0..b {
                    let c = counts[pair_index(a, b)].load(std::sync::atomic::Ordering::Relaxed);
                    if c != 2 {
                        bad += 1;
                        if example.is_none() {
                            example = Some((a, b, c));
                        }
                    }
                }
            }
            Ok((bad, example))
        };
        run.evaluations += 2 * (n as u64 - 1) * n as u64;
        match enumerate(false) {
            Ok((0, _)) => {}
            other => {
                run.note("pair_law.skipped", json!(format!("rand's own sampler of 2 out of {n} does not give every pair twice over the two grids ({other:?}): the enumeration does not apply")));
                continue;
            }
        }
        match mcx::guarded(|| enumerate(true)) {
            Err(p) => run.violation("big/tournament/pair-law".to_string(), format!("binary tournaments on {n} individuals: panicked: {p}"), json!({"check":"C07","big":true,"pair_law":n})),
            Ok(Err(e)) => run.note("pair_law.not_applicable", json!(format!("{n} individuals: {e}"))),
            Ok(Ok((0, _))) => {}
            Ok(Ok((bad, ex))) => {
                let (a, b, c) = ex.unwrap_or((0, 0, 0));
                run.violation("big/tournament/pair-law".to_string(), format!("binary tournaments on {n} individuals, all {} pairs of grid words: {bad} of the {total_pairs} pairs of individuals are not the entrants exactly twice, e.g. individuals {a} and {b} meet {c} times: the 2-subsets are not equally likely", (n - 1) * n), json!({"check":"C07","big":true,"pair_law":n}));
            }
        }
    }
    run.bound("big.binary_pair_law_sizes", json!(if run.quick() { "4098, 5000" } else { "4097, 4098, 5000, 8192, 10007" }));
}

pub fn replay(mode: BigMode, v: &Value) -> bool {
    if v["pair_law"].is_u64() {
        let mut r = Run::new("C07", "quick");
        binary_pair_law(&mut r);
        let g = r.violations.lock().unwrap();
        for (k, x) in g.iter() {
            println!("MISMATCH [{k}]: {}", x.what);
        }
        if g.is_empty() {
            println!("replay: property held");
        }
        return g.is_empty();
    }
    let (Some(sel), Some(n)) = (sel_from(&v["selector"]), v["n"].as_u64()) else {
        println!("cannot decode the scenario");
        return false;
    };
    let pname = v["pattern"].as_str().unwrap_or("");
    let Some((p, values)) = patterns(n as usize).into_iter().find(|(p, _)| *p == pname) else {
        println!("unknown population pattern {pname}");
        return false;
    };
    let (streams, _, viol) = scenario(mode, sel, p, &values, v["dev"].as_u64().unwrap_or(1) as usize);
    println!("{} on {n} individuals ({p}): {streams} streams explored", sel_name(sel));
    match viol {
        Some((k, w)) => {
            println!("MISMATCH [{k}]: {w}");
            println!("replay: violation reproduced");
            false
        }
        None => {
            println!("replay: property held");
            true
        }
    }
}
