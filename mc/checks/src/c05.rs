//! C05 — genome-to-program translation is total and structure preserving.
//! Engine E3: all gene sequences up to length N over {Close, I0, DupBlock, When,
//! Unless, IfElse}; the real `Vec::<PushProgram>::from(Plushy)` against the
//! non-recursive `PlushyRef` plus three reference-free structural checks.

use crate::interp::exec_variant;
use crate::vm::{instr_name, prog_compact};
use mcx::Run;
use push::genome::plushy::{Plushy, PushGene};
use push::instruction::{ExecInstruction, PushInstruction};
use push::push_vm::program::PushProgram;
use serde_json::{json, Value};
use std::collections::HashSet;
use std::hash::{Hash, Hasher};

/// number of blocks an instruction opens, from the property text
fn ref_opens(i: &PushInstruction) -> usize {
    match i {
        PushInstruction::Exec(ExecInstruction::DupBlock(_))
        | PushInstruction::Exec(ExecInstruction::When(_))
        | PushInstruction::Exec(ExecInstruction::Unless(_)) => 1,
        PushInstruction::Exec(ExecInstruction::IfElse(_)) => 2,
        _ => 0,
    }
}

struct Frame {
    items: Vec<PushProgram>,
    remaining_after: usize,
}

/// `PlushyRef`: explicit stack of open blocks, no recursion.
pub fn plushy_ref(genes: &[PushGene]) -> Vec<PushProgram> {
    fn close_top(stack: &mut Vec<Frame>) {
        let f = stack.pop().expect("frame");
        stack
            .last_mut()
            .expect("parent")
            .items
            .push(PushProgram::Block(f.items));
        if f.remaining_after > 0 {
            stack.push(Frame {
                items: vec![],
                remaining_after: f.remaining_after - 1,
            });
        }
    }
    let mut stack = vec![Frame {
        items: vec![],
        remaining_after: 0,
    }];
    for g in genes {
        match g {
            PushGene::Close => {
                if stack.len() > 1 {
                    close_top(&mut stack);
                }
            }
            PushGene::Instruction(i) => {
                stack
                    .last_mut()
                    .unwrap()
                    .items
                    .push(PushProgram::Instruction(i.clone()));
                let k = ref_opens(i);
                if k > 0 {
                    stack.push(Frame {
                        items: vec![],
                        remaining_after: k - 1,
                    });
                }
            }
        }
    }
    while stack.len() > 1 {
        close_top(&mut stack);
    }
    stack.pop().unwrap().items
}

fn flatten(p: &[PushProgram], out: &mut Vec<PushInstruction>) {
    // iterative depth-first walk
    let mut work: Vec<&PushProgram> = p.iter().rev().collect();
    while let Some(x) = work.pop() {
        match x {
            PushProgram::Instruction(i) => out.push(i.clone()),
            PushProgram::Block(b) => work.extend(b.iter().rev()),
        }
    }
}

/// every instruction opening k blocks is immediately followed by exactly k blocks; no block elsewhere
fn blocks_well_placed(p: &[PushProgram]) -> bool {
    let mut expect_blocks = 0usize;
    for x in p {
        match x {
            PushProgram::Block(b) => {
                if expect_blocks == 0 {
                    return false;
                }
                expect_blocks -= 1;
                if !blocks_well_placed(b) {
                    return false;
                }
            }
            PushProgram::Instruction(i) => {
                if expect_blocks != 0 {
                    return false;
                }
                expect_blocks = ref_opens(i);
            }
        }
    }
    expect_blocks == 0
}

fn has_block(p: &[PushProgram]) -> bool {
    p.iter().any(|x| matches!(x, PushProgram::Block(_)))
}

fn shape_hash(p: &[PushProgram]) -> u64 {
    let mut h = std::collections::hash_map::DefaultHasher::new();
    fn go(p: &[PushProgram], h: &mut impl Hasher) {
        for x in p {
            match x {
                PushProgram::Instruction(i) => {
                    1u8.hash(h);
                    ref_opens(i).hash(h);
                }
                PushProgram::Block(b) => {
                    2u8.hash(h);
                    go(b, h);
                    3u8.hash(h);
                }
            }
        }
    }
    go(p, &mut h);
    h.finish()
}

thread_local! {
    /// which instruction stands for the leaf symbol I0: 0 = an integer literal carrying its
    /// position; k > 0 = entry (position + k - 1) of `leaf_catalog()`
    static LEAF: std::cell::Cell<usize> = const { std::cell::Cell::new(0) };
    static CATALOG: Vec<PushInstruction> = leaf_catalog();
}

/// Every instruction of the repository that opens no block (each enum-listed variant, the print
/// constants, input variables, the literals), and the exec literals whose *payload* is code that
/// would open blocks if it were a gene itself: a literal is one leaf whatever it carries.
pub fn leaf_catalog() -> Vec<PushInstruction> {
    use crate::vm::{all_instructions, exec_push, input_instructions, literal_pushes};
    let mut v: Vec<PushInstruction> = all_instructions().into_iter().filter(|i| ref_opens(i) == 0).collect();
    v.extend(input_instructions());
    v.extend(literal_pushes(true));
    let ins = |e: ExecInstruction| PushProgram::Instruction(e.into());
    let payloads = vec![
        ins(ExecInstruction::when()),
        ins(ExecInstruction::unless()),
        ins(ExecInstruction::dup_block()),
        ins(ExecInstruction::if_else()),
        ins(exec_variant("Noop")),
        PushProgram::Block(vec![ins(ExecInstruction::when())]),
        PushProgram::Block(vec![ins(ExecInstruction::if_else()), PushProgram::Block(vec![]), PushProgram::Block(vec![])]),
        ins(exec_push(ins(ExecInstruction::if_else()))),
        ins(exec_push(ins(exec_push(ins(ExecInstruction::when()))))),
    ];
    v.extend(payloads.into_iter().map(|p| exec_push(p).into()));
    v
}

fn symbol(sym: usize, pos: usize) -> PushGene {
    match sym {
        0 => PushGene::Close,
        1 => {
            let k = LEAF.with(|l| l.get());
            if k == 0 {
                PushGene::Instruction(PushInstruction::push_int(pos as i64))
            } else {
                PushGene::Instruction(CATALOG.with(|c| c[(pos + k - 1) % c.len()].clone()))
            }
        }
        2 => PushGene::Instruction(ExecInstruction::dup_block().into()),
        3 => PushGene::Instruction(ExecInstruction::when().into()),
        4 => PushGene::Instruction(ExecInstruction::unless().into()),
        5 => PushGene::Instruction(ExecInstruction::if_else().into()),
        _ => PushGene::Instruction(exec_variant("Noop").into()),
    }
}
const NSYM: usize = 6;

pub fn genes_of(code: &[usize]) -> Vec<PushGene> {
    code.iter().enumerate().map(|(p, s)| symbol(*s, p)).collect()
}

fn label(code: &[usize]) -> String {
    // run-length encoded beyond 24 genes (deep-nesting family)
    let names = ["}", "I0", "DupBlock{", "When{", "Unless{", "IfElse{{"];
    if code.len() <= 24 {
        let k = LEAF.with(|l| l.get());
        if k > 0 {
            return genes_of(code)
                .iter()
                .zip(code)
                .map(|(g, s)| match g {
                    PushGene::Instruction(i) if *s == 1 => instr_name(i),
                    _ => names[*s].to_string(),
                })
                .collect::<Vec<_>>()
                .join(" ");
        }
        return code.iter().map(|s| names[*s]).collect::<Vec<_>>().join(" ");
    }
    let mut out: Vec<String> = vec![];
    let mut i = 0;
    while i < code.len() {
        // longest repetition of a unit of length 1 or 2
        let mut best = (1usize, 1usize);
        for unit in 1..=2usize {
            if i + unit > code.len() {
                break;
            }
            let mut reps = 1;
            while i + (reps + 1) * unit <= code.len() && code[i + reps * unit..i + (reps + 1) * unit] == code[i..i + unit] {
                reps += 1;
            }
            if reps * unit > best.0 * best.1 {
                best = (unit, reps);
            }
        }
        let unit: Vec<&str> = code[i..i + best.0].iter().map(|s| names[*s]).collect();
        if best.1 > 1 {
            out.push(format!("({})x{}", unit.join(" "), best.1));
        } else {
            out.push(unit.join(" "));
        }
        i += best.0 * best.1;
    }
    out.join(" ")
}

/// check one genome; Some((key, what)) on violation
pub fn check_genome(code: &[usize]) -> (Option<(String, String)>, Option<Vec<PushProgram>>) {
    {
        let c = code.to_vec();
        let leaf = LEAF.with(|l| l.get());
        mcx::watch::enter(Box::new(move |_| {
            LEAF.with(|l| l.set(leaf));
            (format!("parse/hang/{}", label(&c)), format!("parsing [{}]", label(&c)), json!({"check":"C05","code": c, "leaf": leaf}))
        }));
    }
    let r = check_genome_inner(code);
    mcx::watch::leave();
    r
}
fn check_genome_inner(code: &[usize]) -> (Option<(String, String)>, Option<Vec<PushProgram>>) {
    let genes = genes_of(code);
    let real = match mcx::guarded(|| Vec::<PushProgram>::from(Plushy::new(genes.clone()))) {
        Ok(p) => p,
        Err(p) => {
            return (
                Some((format!("parse/panic/{}", label(code)), format!("parsing [{}] panicked: {p}", label(code)))),
                None,
            )
        }
    };
    let render = |p: &[PushProgram]| p.iter().map(prog_compact).collect::<Vec<_>>().join(" ");
    let expect = plushy_ref(&genes);
    if real != expect {
        return (
            Some((
                format!("parse/tree/{}", label(code)),
                format!("[{}] parsed to `{}`, reference `{}`", label(code), render(&real), render(&expect)),
            )),
            Some(real),
        );
    }
    let mut flat = vec![];
    flatten(&real, &mut flat);
    let want: Vec<PushInstruction> = genes
        .iter()
        .filter_map(|g| match g {
            PushGene::Instruction(i) => Some(i.clone()),
            PushGene::Close => None,
        })
        .collect();
    if flat != want {
        return (
            Some((
                format!("parse/order/{}", label(code)),
                format!(
                    "[{}]: depth-first reading gives {:?}, genome has {:?}",
                    label(code),
                    flat.iter().map(instr_name).collect::<Vec<_>>(),
                    want.iter().map(instr_name).collect::<Vec<_>>()
                ),
            )),
            Some(real),
        );
    }
    if !blocks_well_placed(&real) {
        return (
            Some((
                format!("parse/blocks/{}", label(code)),
                format!("[{}] parsed to `{}`: an opener is not followed by exactly its blocks", label(code), render(&real)),
            )),
            Some(real),
        );
    }
    (None, Some(real))
}

/// The deep-nesting family: a prefix that opens d blocks (d from a dense range plus the
/// neighbourhoods of powers of two), followed by every short suffix and by the "close k levels
/// and continue" suffixes with k around d.  The property quantifies over any nesting depth; the
/// enumeration above reaches depth N only.  Runs on threads with a large stack because the
/// repository's parser, `==` and `Drop` recurse once per level.
fn deep_prefixes(d: usize) -> Vec<(&'static str, Vec<usize>)> {
    let mut v: Vec<(&'static str, Vec<usize>)> = vec![
        ("When", std::iter::repeat(3).take(d).collect()),
        ("DupBlock", std::iter::repeat(2).take(d).collect()),
        ("I0-When", (0..d).flat_map(|_| [1usize, 3]).collect()),
    ];
    // IfElse opens two blocks but only one at a time is *open*: nesting d through first blocks
    v.push(("IfElse", std::iter::repeat(5).take(d).collect()));
    // nesting through the *second* blocks: IfElse Close repeated
    v.push(("IfElse-second", (0..d).flat_map(|_| [5usize, 0]).collect()));
    v
}
fn deep_suffixes(d: usize, max_len: usize) -> Vec<Vec<usize>> {
    let mut out: Vec<Vec<usize>> = vec![vec![]];
    let mut layer: Vec<Vec<usize>> = vec![vec![]];
    for _ in 0..max_len {
        let mut next = vec![];
        for l in &layer {
            for s in 0..NSYM {
                let mut l2 = l.clone();
                l2.push(s);
                next.push(l2);
            }
        }
        out.extend(next.iter().cloned());
        layer = next;
    }
    for k in d.saturating_sub(2)..=d + 2 {
        let closes: Vec<usize> = std::iter::repeat(0).take(k).collect();
        for head in [vec![], vec![1usize]] {
            for tail in [vec![], vec![1usize], vec![3usize, 1], vec![5usize, 1, 0, 1]] {
                let mut s = head.clone();
                s.extend(closes.iter());
                s.extend(tail.iter());
                out.push(s);
            }
        }
    }
    out
}
pub fn deep_depths(quick: bool) -> Vec<usize> {
    let mut d: Vec<usize> = (8..=300).collect();
    d.extend(510..=514);
    d.extend(1022..=1026);
    if !quick {
        d.extend(301..=509);
        d.extend(4094..=4098);
        d.extend(32766..=32770);
        d.extend(65534..=65538);
    }
    d
}
fn deep_family(run: &mut Run) {
    let quick = run.quick();
    let depths = deep_depths(quick);
    let results = mcx::par::par_map_big(depths.len(), 4usize << 30, |k| {
        let d = depths[k];
        let mut count = 0u64;
        let mut viols: Vec<(String, String, Value)> = vec![];
        let suffix_len = if d > 2000 { 1 } else if quick { 2 } else { 3 };
        for (kind, prefix) in deep_prefixes(d) {
            for suffix in deep_suffixes(d, suffix_len) {
                let mut code = prefix.clone();
                code.extend(suffix.iter());
                count += 1;
                let (v, real) = check_genome(&code);
                if let Some((key, what)) = v {
                    if viols.len() < 3 {
                        let what: String = what.chars().take(400).collect();
                        let kind_of_problem = key.split('/').nth(1).unwrap_or("tree").to_string();
                        viols.push((format!("parse/{kind_of_problem}/deep/{kind}/d={d}"), format!("nesting depth {d}: {what}"), json!({"check":"C05","code": code})));
                    }
                }
                // dismantle deep trees without recursion
                if let Some(real) = real {
                    drop_iteratively(real);
                }
            }
        }
        (count, viols)
    });
    let mut total = 0u64;
    for (c, viols) in results {
        total += c;
        for (k, w, r) in viols {
            run.violation(k, w, r);
        }
    }
    run.evaluations += total;
    run.distinct_nontrivial += total;
    run.note("deep.genomes", json!(total));
    run.bound("deep.depths", json!(if quick { "8..=300, 510..=514, 1022..=1026" } else { "8..=514, 1022..=1026, 4094..=4098, 32766..=32770, 65534..=65538" }));
    run.bound("deep.prefix_kinds", json!(["When x d", "DupBlock x d", "(I0 When) x d", "IfElse x d", "(IfElse Close) x d"]));
    run.bound("deep.suffixes", json!("every suffix of length <= 2 (thorough 3; 1 beyond depth 2000) plus close-k-levels-and-continue for k in d-2..=d+2"));
}
/// Long *flat* genomes (lengths around 2^8 and 2^16, where a narrow index or counter would wrap):
/// periodic patterns with bounded nesting, so that length rather than depth is what is explored.
fn long_flat(run: &mut Run) {
    let quick = run.quick();
    let lens: Vec<usize> = if quick { (11usize..=130).chain([255, 256, 257, 300, 511, 512, 513]).collect() } else { (11usize..=320).chain([511, 512, 513, 1009, 1023, 1024, 1025, 4096, 65535, 65536, 65537, 70000]).collect() };
    // the unit patterns: every sequence of 1..=3 symbols (258), repeated to the length and cut there
    let mut units: Vec<Vec<usize>> = vec![];
    for ulen in 1..=3usize {
        let mut idx = vec![0usize; ulen];
        loop {
            units.push(idx.clone());
            let mut k = 0;
            while k < ulen {
                idx[k] += 1;
                if idx[k] < NSYM {
                    break;
                }
                idx[k] = 0;
                k += 1;
            }
            if k == ulen {
                break;
            }
        }
    }
    // openers only would nest as deep as the genome is long (covered by the deep family): keep patterns
    // whose nesting stays bounded, i.e. at least as many closes as opens per period
    let bounded: Vec<Vec<usize>> = units
        .into_iter()
        .filter(|u| {
            let opens: usize = u.iter().map(|s| match s { 2 | 3 | 4 => 1, 5 => 2, _ => 0 }).sum();
            let closes = u.iter().filter(|s| **s == 0).count();
            closes >= opens
        })
        .collect();
    let jobs: Vec<(usize, usize)> = (0..lens.len()).flat_map(|l| (0..bounded.len()).map(move |u| (l, u))).collect();
    let results = mcx::par::par_map_big(jobs.len(), 1usize << 30, |j| {
        let (li, ui) = jobs[j];
        let code: Vec<usize> = bounded[ui].iter().cycle().take(lens[li]).copied().collect();
        let (v, real) = check_genome(&code);
        if let Some(real) = real {
            drop_iteratively(real);
        }
        v.map(|(key, what)| {
            let kind_of_problem = key.split('/').nth(1).unwrap_or("tree").to_string();
            (format!("parse/{kind_of_problem}/long/len={}", lens[li]), what.chars().take(400).collect::<String>(), json!({"check":"C05","code": code}))
        })
    });
    let n = results.len() as u64;
    for r in results.into_iter().flatten() {
        run.violation(r.0, r.1, r.2);
    }
    run.evaluations += n;
    run.distinct_nontrivial += n;
    run.note("long_flat.genomes", json!(n));
    run.bound("long_flat.lengths", json!(lens));
    run.bound("long_flat.patterns", json!(format!("{} periodic patterns of period <= 3 with bounded nesting", bounded.len())));
}

fn drop_iteratively(p: Vec<PushProgram>) {
    let mut work = p;
    while let Some(x) = work.pop() {
        if let PushProgram::Block(b) = x {
            work.extend(b);
        }
    }
}

/// The leaf pass: the same enumeration to a smaller length, with the leaf symbol standing for every
/// instruction of the catalog in every position (rotation k puts entry (position + k - 1) there).
fn leaf_pass(run: &mut Run) {
    let n_max = if run.quick() { 6 } else { 8 };
    let cat = leaf_catalog();
    let results = mcx::par_map(cat.len(), |k| {
        LEAF.with(|l| l.set(k + 1));
        let mut count = 0u64;
        let mut viols: Vec<(String, String, Value)> = vec![];
        fn go(cur: &mut Vec<usize>, n_max: usize, f: &mut impl FnMut(&[usize])) {
            if cur.contains(&1) {
                f(cur);
            }
            if cur.len() == n_max {
                return;
            }
            for s in 0..NSYM {
                cur.push(s);
                go(cur, n_max, f);
                cur.pop();
            }
        }
        go(&mut vec![], n_max, &mut |code: &[usize]| {
            count += 1;
            let (v, _) = check_genome(code);
            if let Some((key, what)) = v {
                if viols.len() < 4 {
                    viols.push((key.replacen("parse/", "parse/leaf/", 1), what, json!({"check":"C05","code": code, "leaf": k + 1})));
                }
            }
        });
        LEAF.with(|l| l.set(0));
        (count, viols)
    });
    let mut n = 0u64;
    for (c, viols) in results {
        n += c;
        for (k, w, r) in viols {
            run.violation(k, w, r);
        }
    }
    run.evaluations += n;
    run.bound("leaf_pass_max_genome_len", json!(n_max));
    run.note("leaf_catalog", json!({"instructions": cat.len(), "genomes_checked": n, "examples": cat.iter().rev().take(9).map(instr_name).collect::<Vec<_>>()}));
}

pub fn run(run: &mut Run) {
    let n_max = if run.quick() { 7 } else { 10 };
    // shard by the first three symbols
    let mut shards: Vec<Vec<usize>> = vec![vec![]];
    for a in 0..NSYM {
        for b in 0..NSYM {
            for c in 0..NSYM {
                shards.push(vec![a, b, c]);
            }
        }
    }
    let results = mcx::par_map(shards.len(), |k| {
        let prefix = &shards[k];
        let mut count = 0u64;
        let mut nontrivial = 0u64;
        let mut viols: Vec<(String, String, Value)> = vec![];
        let mut shapes: HashSet<u64> = HashSet::new();
        let mut max_depth_seen = 0usize;
        let mut visit = |code: &[usize]| {
            count += 1;
            let (v, real) = check_genome(code);
            if let Some(real) = real {
                if has_block(&real) {
                    nontrivial += 1;
                }
                if code.len() <= 8 {
                    shapes.insert(shape_hash(&real));
                }
                let mut d = 0usize;
                let mut cur = 0usize;
                for s in code {
                    if *s >= 2 {
                        cur += 1;
                        d = d.max(cur);
                    } else if *s == 0 && cur > 0 {
                        cur -= 1;
                    }
                }
                max_depth_seen = max_depth_seen.max(d);
            }
            if let Some((key, what)) = v {
                if viols.len() < 8 {
                    viols.push((key, what, json!({"check":"C05","code": code})));
                }
            }
        };
        if prefix.is_empty() {
            // lengths 0, 1, 2
            visit(&[]);
            for a in 0..NSYM {
                visit(&[a]);
                for b in 0..NSYM {
                    visit(&[a, b]);
                }
            }
        } else {
            fn go(cur: &mut Vec<usize>, n_max: usize, f: &mut impl FnMut(&[usize])) {
                f(cur);
                if cur.len() == n_max {
                    return;
                }
                for s in 0..NSYM {
                    cur.push(s);
                    go(cur, n_max, f);
                    cur.pop();
                }
            }
            let mut cur = prefix.clone();
            go(&mut cur, n_max, &mut visit);
        }
        (count, nontrivial, viols, shapes, max_depth_seen)
    });
    let mut shapes: HashSet<u64> = HashSet::new();
    let mut depth = 0;
    for (c, n, viols, sh, d) in results {
        run.evaluations += c;
        run.distinct_nontrivial += n;
        shapes.extend(sh);
        depth = depth.max(d);
        // keep the shortest genome per kind of problem as the key
        for (k, w, r) in viols {
            run.violation(k, w, r);
        }
    }
    leaf_pass(run);
    deep_family(run);
    long_flat(run);
    run.states = shapes.len() as u64;
    run.transitions = run.evaluations;
    run.traces_validated = run.evaluations;
    run.rule = "all gene sequences of length 0..=N over {Close, literal(position), DupBlock, When, Unless, IfElse}; non-trivial = the parsed program contains at least one block; states = distinct tree shapes among genomes of length <= 8; plus long flat genomes (periodic patterns cut at lengths around 2^8, 2^9 (thorough ..2^16)) and the deep-nesting family (prefix opening d blocks, d dense up to 300 and around powers of two, x short suffixes)".into();
    run.bound("max_genome_len", json!(n_max));
    run.bound("symbols", json!(NSYM));
    run.note("max_nesting_depth_enumerated", json!(depth));
    run.assumptions = vec![
        "PlushyRef (explicit stack of open blocks) is the meaning of the property's parsing rules".into(),
        "beyond the leaf pass (every block-free instruction of the repository and exec literals of block-opening code in every position, genomes up to leaf_pass_max_genome_len), instruction identity does not matter beyond the number of blocks it opens".into(),
    ];
    run.sample(json!({"genome": label(&[5, 1, 0, 0, 1]), "parsed": plushy_ref(&genes_of(&[5, 1, 0, 0, 1])).iter().map(prog_compact).collect::<Vec<_>>()}));
    run.sample(json!({"genome": label(&[0, 3, 2]), "parsed": plushy_ref(&genes_of(&[0, 3, 2])).iter().map(prog_compact).collect::<Vec<_>>()}));
}

pub fn replay(v: &Value) -> bool {
    let code: Vec<usize> = v["code"]
        .as_array()
        .map(|a| a.iter().map(|x| x.as_u64().unwrap_or(0) as usize).collect())
        .unwrap_or_default();
    LEAF.with(|l| l.set(v["leaf"].as_u64().unwrap_or(0) as usize));
    println!("genome: {}", label(&code));
    let genes = genes_of(&code);
    println!(
        "reference: {}",
        plushy_ref(&genes).iter().map(prog_compact).collect::<Vec<_>>().join(" ")
    );
    let (viol, real) = check_genome(&code);
    if let Some(r) = real {
        println!("observed:  {}", r.iter().map(prog_compact).collect::<Vec<_>>().join(" "));
    }
    match viol {
        Some((k, w)) => {
            println!("MISMATCH [{k}]: {w}");
            println!("replay: violation reproduced");
            false
        }
        None => {
            println!("replay: property held");
            true
        }
    }
}
