//! `PushRef`: the reference semantics of the Push VM (DESIGN Appendix A), written
//! from the property text and the documented action tables.  It uses the
//! repository's instruction *enums* as syntax only; no `perform` is called here.

use push::instruction::{
    BoolInstruction, ExecInstruction, FloatInstruction, IntInstruction, PushInstruction,
};
use push::push_vm::program::PushProgram;

pub const EXEC: usize = 0;
pub const INT: usize = 1;
pub const FLOAT: usize = 2;
pub const BOOL: usize = 3;

#[derive(Clone, Debug, PartialEq)]
pub enum Lit {
    I(i64),
    F(f64),
    B(bool),
}

/// Reference machine state; all stacks bottom-first.
#[derive(Clone, Debug)]
pub struct RState {
    pub exec: Vec<PushProgram>,
    pub int: Vec<i64>,
    pub float: Vec<f64>,
    pub boolean: Vec<bool>,
    pub out: Vec<u8>,
    pub caps: [usize; 4],
    pub inputs: Vec<(String, Lit)>,
}

pub fn fbits(f: f64) -> u64 {
    if f.is_nan() {
        0x7ff8_0000_0000_0000
    } else {
        f.to_bits()
    }
}

impl PartialEq for RState {
    fn eq(&self, o: &RState) -> bool {
        self.exec == o.exec
            && self.int == o.int
            && self.float.len() == o.float.len()
            && self
                .float
                .iter()
                .zip(&o.float)
                .all(|(a, b)| fbits(*a) == fbits(*b))
            && self.boolean == o.boolean
            && self.out == o.out
            && self.caps == o.caps
    }
}

impl RState {
    pub fn empty(caps: [usize; 4]) -> RState {
        RState {
            exec: vec![],
            int: vec![],
            float: vec![],
            boolean: vec![],
            out: vec![],
            caps,
            inputs: vec![],
        }
    }
    pub fn sizes(&self) -> [usize; 4] {
        [
            self.exec.len(),
            self.int.len(),
            self.float.len(),
            self.boolean.len(),
        ]
    }
    pub fn within_caps(&self) -> bool {
        (0..4).all(|i| self.sizes()[i] <= self.caps[i])
    }
    pub fn full(&self, which: usize) -> bool {
        self.sizes()[which] >= self.caps[which]
    }
    /// canonical rendering used for hashing / deduplication
    pub fn key(&self) -> String {
        format!(
            "E{:?}|I{:?}|F{:?}|B{:?}|O{:?}|C{:?}",
            self.exec,
            self.int,
            self.float.iter().map(|f| fbits(*f)).collect::<Vec<_>>(),
            self.boolean,
            self.out,
            self.caps
        )
    }
}

#[derive(Clone, Copy, Debug, PartialEq, Eq, Hash, PartialOrd, Ord)]
pub enum Kind {
    Ok,
    /// recoverable error: the instruction is skipped, the state is unchanged
    Skip,
    /// fatal (overflow) error carrying the unchanged state
    Fatal,
}

#[derive(Clone, Debug, PartialEq)]
pub struct Outcome {
    pub kind: Kind,
    pub st: RState,
}

fn ok(st: RState) -> Vec<Outcome> {
    vec![Outcome { kind: Kind::Ok, st }]
}
fn skip(s: &RState) -> Vec<Outcome> {
    vec![Outcome {
        kind: Kind::Skip,
        st: s.clone(),
    }]
}
fn fatal(s: &RState) -> Vec<Outcome> {
    vec![Outcome {
        kind: Kind::Fatal,
        st: s.clone(),
    }]
}
fn skip_or_fatal(s: &RState) -> Vec<Outcome> {
    vec![
        Outcome {
            kind: Kind::Skip,
            st: s.clone(),
        },
        Outcome {
            kind: Kind::Fatal,
            st: s.clone(),
        },
    ]
}

/// Generic shape "takes `need` operands from stack `src`, pushes one result on
/// stack `dst`" for src != dst.
fn cross(s: &RState, src: usize, need: usize, dst: usize, f: impl FnOnce(&mut RState)) -> Vec<Outcome> {
    let lacking = s.sizes()[src] < need;
    let full = s.full(dst);
    match (lacking, full) {
        (true, true) => skip_or_fatal(s), // tolerance 1
        (true, false) => skip(s),
        (false, true) => fatal(s),
        (false, false) => {
            let mut t = s.clone();
            f(&mut t);
            ok(t)
        }
    }
}

fn pop_n<T>(v: &mut Vec<T>, n: usize) -> Vec<T> {
    // returns top first
    let mut out = Vec::with_capacity(n);
    for _ in 0..n {
        out.push(v.pop().expect("operand count checked"));
    }
    out
}

/// integer instruction "replace the top `n` ints by f(x, y, z)"; None = arithmetic fault = skip
fn int_op(s: &RState, n: usize, f: impl FnOnce(&[i64]) -> Vec<Option<i64>>) -> Vec<Outcome> {
    if s.int.len() < n {
        return skip(s);
    }
    let mut t = s.clone();
    let args = pop_n(&mut t.int, n);
    let results = f(&args);
    let mut out = vec![];
    for r in results {
        match r {
            Some(v) => {
                let mut u = t.clone();
                u.int.push(v);
                out.push(Outcome {
                    kind: Kind::Ok,
                    st: u,
                });
            }
            None => out.push(Outcome {
                kind: Kind::Skip,
                st: s.clone(),
            }),
        }
    }
    out
}

fn float_op(s: &RState, f: impl FnOnce(f64, f64) -> f64) -> Vec<Outcome> {
    if s.float.len() < 2 {
        return skip(s);
    }
    let mut t = s.clone();
    let a = pop_n(&mut t.float, 2);
    t.float.push(f(a[0], a[1]));
    ok(t)
}

/// total order of the float stack's element type: NaN == NaN, NaN greatest, -0.0 == 0.0
pub fn fcmp(x: f64, y: f64) -> std::cmp::Ordering {
    use std::cmp::Ordering::*;
    match (x.is_nan(), y.is_nan()) {
        (true, true) => Equal,
        (true, false) => Greater,
        (false, true) => Less,
        (false, false) => {
            if x < y {
                Less
            } else if x > y {
                Greater
            } else {
                Equal
            }
        }
    }
}

fn int_pow(x: i64, y: i64) -> Vec<Option<i64>> {
    if y < 0 {
        return vec![None];
    }
    if y > u32::MAX as i64 {
        // tolerance 3: the mathematical result where it exists, or "overflow, skipped"
        return match x {
            0 => vec![Some(0), None],
            1 => vec![Some(1), None],
            -1 => vec![Some(if y % 2 == 0 { 1 } else { -1 }), None],
            _ => vec![None],
        };
    }
    // exact power by repeated multiplication in i128 with early exit
    let mut acc: i128 = 1;
    let b = x as i128;
    if x == 0 {
        return vec![Some(if y == 0 { 1 } else { 0 })];
    }
    if x == 1 {
        return vec![Some(1)];
    }
    if x == -1 {
        return vec![Some(if y % 2 == 0 { 1 } else { -1 })];
    }
    for _ in 0..y {
        acc *= b;
        if acc > i64::MAX as i128 || acc < i64::MIN as i128 {
            return vec![None];
        }
    }
    vec![Some(acc as i64)]
}

fn f2i(f: f64) -> i64 {
    // truncation towards zero, saturating, NaN -> 0 (spelled out, not `as`)
    if f.is_nan() {
        0
    } else if f >= 9_223_372_036_854_775_807.0 {
        i64::MAX
    } else if f <= -9_223_372_036_854_775_808.0 {
        i64::MIN
    } else {
        let t = f.trunc();
        t as i64
    }
}

fn common_same<T: Clone>(
    s: &RState,
    which: usize,
    get: fn(&mut RState) -> &mut Vec<T>,
    name: &str,
) -> Option<Vec<Outcome>> {
    let mut t = s.clone();
    match name {
        "Pop" => {
            if get(&mut t).pop().is_none() {
                return Some(skip(s));
            }
            Some(ok(t))
        }
        "Dup" => {
            let Some(top) = get(&mut t).last().cloned() else {
                return Some(skip(s)); // underflow first, also when full (documented table)
            };
            if s.full(which) {
                return Some(fatal(s));
            }
            get(&mut t).push(top);
            Some(ok(t))
        }
        "Swap" => {
            let v = get(&mut t);
            let n = v.len();
            if n < 2 {
                return Some(skip(s));
            }
            v.swap(n - 1, n - 2);
            Some(ok(t))
        }
        "IsEmpty" => {
            let e = get(&mut t).is_empty();
            if s.full(BOOL) {
                return Some(fatal(s));
            }
            t.boolean.push(e);
            Some(ok(t))
        }
        "StackDepth" => {
            let d = get(&mut t).len();
            if s.full(INT) {
                return Some(fatal(s));
            }
            t.int.push(i64::try_from(d).unwrap_or(i64::MAX));
            Some(ok(t))
        }
        "Flush" => {
            get(&mut t).clear();
            Some(ok(t))
        }
        _ => None,
    }
}

fn print_top<T: Clone + std::fmt::Display>(
    s: &RState,
    get: fn(&mut RState) -> &mut Vec<T>,
    newline: bool,
) -> Vec<Outcome> {
    let mut t = s.clone();
    let Some(v) = get(&mut t).pop() else {
        return skip(s);
    };
    t.out.extend(format!("{v}").as_bytes());
    if newline {
        t.out.push(b'\n');
    }
    ok(t)
}

fn push_to<T>(s: &RState, which: usize, get: fn(&mut RState) -> &mut Vec<T>, v: T) -> Vec<Outcome> {
    if s.full(which) {
        return fatal(s);
    }
    let mut t = s.clone();
    get(&mut t).push(v);
    ok(t)
}

fn float_display(f: f64) -> String {
    format!("{f}")
}

pub fn ref_perform(s: &RState, instr: &PushInstruction) -> Result<Vec<Outcome>, String> {
    use PushInstruction as P;
    Ok(match instr {
        P::InputVar(name) => {
            let n = name.to_string();
            let Some((_, lit)) = s.inputs.iter().find(|(k, _)| *k == n) else {
                return Err(format!("unbound input {n} (outside the property)"));
            };
            match lit {
                Lit::I(v) => push_to(s, INT, g_int, *v),
                Lit::F(v) => push_to(s, FLOAT, g_float, *v),
                Lit::B(v) => push_to(s, BOOL, g_bool, *v),
            }
        }
        P::PrintSpace(_) => {
            let mut t = s.clone();
            t.out.push(b' ');
            ok(t)
        }
        P::PrintNewline(_) => {
            let mut t = s.clone();
            t.out.push(b'\n');
            ok(t)
        }
        P::PrintPeriod(_) => {
            let mut t = s.clone();
            t.out.push(b'.');
            ok(t)
        }
        P::PrintString(ps) => {
            let mut t = s.clone();
            t.out.extend(ps.0.as_bytes());
            ok(t)
        }
        P::IntInstruction(i) => ref_int(s, i)?,
        P::FloatInstruction(i) => ref_float(s, i)?,
        P::BoolInstruction(i) => ref_bool(s, i)?,
        P::Exec(i) => ref_exec(s, i)?,
        _ => return Err(format!("PushRef has no row for instruction {instr:?}")),
    })
}

fn ref_int(s: &RState, i: &IntInstruction) -> Result<Vec<Outcome>, String> {
    use IntInstruction as I;
    let g: fn(&mut RState) -> &mut Vec<i64> = g_int;
    let pred1 = |f: fn(i64) -> bool| {
        cross(s, INT, 1, BOOL, |t| {
            let x = t.int.pop().unwrap();
            t.boolean.push(f(x));
        })
    };
    let pred2 = |f: fn(i64, i64) -> bool| {
        cross(s, INT, 2, BOOL, |t| {
            let a = pop_n(&mut t.int, 2);
            t.boolean.push(f(a[0], a[1]));
        })
    };
    Ok(match i {
        I::Pop(_) => common_same(s, INT, g, "Pop").unwrap(),
        I::Push(p) => push_to(s, INT, g, p.0),
        I::Dup(_) => common_same(s, INT, g, "Dup").unwrap(),
        I::Swap(_) => common_same(s, INT, g, "Swap").unwrap(),
        I::IsEmpty(_) => common_same(s, INT, g, "IsEmpty").unwrap(),
        I::StackDepth(_) => common_same(s, INT, g, "StackDepth").unwrap(),
        I::Flush(_) => common_same(s, INT, g, "Flush").unwrap(),
        I::Print(_) => print_top(s, g, false),
        I::PrintLn(_) => print_top(s, g, true),
        I::Negate(_) => int_op(s, 1, |a| {
            vec![Some(if a[0] == i64::MIN { i64::MAX } else { -a[0] })]
        }),
        I::Abs(_) => int_op(s, 1, |a| {
            vec![Some(if a[0] == i64::MIN {
                i64::MAX
            } else if a[0] < 0 {
                -a[0]
            } else {
                a[0]
            })]
        }),
        I::Min => int_op(s, 2, |a| vec![Some(if a[0] < a[1] { a[0] } else { a[1] })]),
        I::Max => int_op(s, 2, |a| vec![Some(if a[0] > a[1] { a[0] } else { a[1] })]),
        I::Clamp(_) => int_op(s, 3, |a| {
            let (x, y, z) = (a[0], a[1], a[2]);
            let lo = if y < z { y } else { z };
            let hi = if y < z { z } else { y };
            vec![Some(if x < lo {
                lo
            } else if x > hi {
                hi
            } else {
                x
            })]
        }),
        I::Inc => int_op(s, 1, |a| vec![wide(a[0] as i128 + 1)]),
        I::Dec => int_op(s, 1, |a| vec![wide(a[0] as i128 - 1)]),
        I::Square => int_op(s, 1, |a| vec![wide(a[0] as i128 * a[0] as i128)]),
        I::Add => int_op(s, 2, |a| vec![wide(a[0] as i128 + a[1] as i128)]),
        I::Subtract => int_op(s, 2, |a| vec![wide(a[0] as i128 - a[1] as i128)]),
        I::Multiply => int_op(s, 2, |a| vec![wide(a[0] as i128 * a[1] as i128)]),
        I::ProtectedDivide => int_op(s, 2, |a| {
            if a[1] == 0 {
                vec![Some(1)]
            } else {
                vec![wide(a[0] as i128 / a[1] as i128)]
            }
        }),
        I::Mod => int_op(s, 2, |a| {
            if a[1] == 0 {
                vec![Some(0)]
            } else if a[0] == i64::MIN && a[1] == -1 {
                vec![Some(0), None] // tolerance 2
            } else {
                vec![wide(a[0] as i128 % a[1] as i128)]
            }
        }),
        I::Power => int_op(s, 2, |a| int_pow(a[0], a[1])),
        I::IsZero => pred1(|x| x == 0),
        I::IsPositive => pred1(|x| x > 0),
        I::IsNegative => pred1(|x| x < 0),
        I::IsEven => pred1(|x| (x as i128).rem_euclid(2) == 0),
        I::IsOdd => pred1(|x| (x as i128).rem_euclid(2) == 1),
        I::Equal => pred2(|x, y| x == y),
        I::NotEqual => pred2(|x, y| x != y),
        I::LessThan => pred2(|x, y| x < y),
        I::LessThanEqual => pred2(|x, y| x <= y),
        I::GreaterThan => pred2(|x, y| x > y),
        I::GreaterThanEqual => pred2(|x, y| x >= y),
        I::FromBoolean => cross(s, BOOL, 1, INT, |t| {
            let b = t.boolean.pop().unwrap();
            t.int.push(if b { 1 } else { 0 });
        }),
        I::FromFloatApprox => cross(s, FLOAT, 1, INT, |t| {
            let f = t.float.pop().unwrap();
            t.int.push(f2i(f));
        }),
        _ => return Err(format!("PushRef has no row for int instruction {i:?}")),
    })
}

fn g_int(t: &mut RState) -> &mut Vec<i64> {
    &mut t.int
}
fn g_float(t: &mut RState) -> &mut Vec<f64> {
    &mut t.float
}
fn g_bool(t: &mut RState) -> &mut Vec<bool> {
    &mut t.boolean
}
fn g_exec(t: &mut RState) -> &mut Vec<PushProgram> {
    &mut t.exec
}

fn wide(v: i128) -> Option<i64> {
    i64::try_from(v).ok()
}

fn ref_float(s: &RState, i: &FloatInstruction) -> Result<Vec<Outcome>, String> {
    use std::cmp::Ordering::*;
    use FloatInstruction as F;
    let g: fn(&mut RState) -> &mut Vec<f64> = g_float;
    let pred2 = |f: fn(std::cmp::Ordering) -> bool| {
        cross(s, FLOAT, 2, BOOL, |t| {
            let a = pop_n(&mut t.float, 2);
            t.boolean.push(f(fcmp(a[0], a[1])));
        })
    };
    Ok(match i {
        F::Pop(_) => common_same(s, FLOAT, g, "Pop").unwrap(),
        F::Push(p) => push_to(s, FLOAT, g, p.0 .0),
        F::Dup(_) => common_same(s, FLOAT, g, "Dup").unwrap(),
        F::Swap(_) => common_same(s, FLOAT, g, "Swap").unwrap(),
        F::IsEmpty(_) => common_same(s, FLOAT, g, "IsEmpty").unwrap(),
        F::StackDepth(_) => common_same(s, FLOAT, g, "StackDepth").unwrap(),
        F::Flush(_) => common_same(s, FLOAT, g, "Flush").unwrap(),
        F::Print(_) | F::PrintLn(_) => {
            let mut t = s.clone();
            let Some(v) = t.float.pop() else {
                return Ok(skip(s));
            };
            t.out.extend(float_display(v).as_bytes());
            if matches!(i, F::PrintLn(_)) {
                t.out.push(b'\n');
            }
            ok(t)
        }
        F::Add => float_op(s, |x, y| x + y),
        F::Subtract => float_op(s, |x, y| x - y),
        F::Multiply => float_op(s, |x, y| x * y),
        F::ProtectedDivide => float_op(s, |x, y| if y == 0.0 { 1.0 } else { x / y }),
        F::Equal => pred2(|o| o == Equal),
        F::NotEqual => pred2(|o| o != Equal),
        F::GreaterThan => pred2(|o| o == Greater),
        F::LessThan => pred2(|o| o == Less),
        F::GreaterThanOrEqual => pred2(|o| o != Less),
        F::LessThanOrEqual => pred2(|o| o != Greater),
        F::FromIntApprox => cross(s, INT, 1, FLOAT, |t| {
            let x = t.int.pop().unwrap();
            t.float.push(x as f64);
        }),
        _ => return Err(format!("PushRef has no row for float instruction {i:?}")),
    })
}

fn ref_bool(s: &RState, i: &BoolInstruction) -> Result<Vec<Outcome>, String> {
    use BoolInstruction as B;
    let g: fn(&mut RState) -> &mut Vec<bool> = g_bool;
    let op2 = |f: fn(bool, bool) -> bool| {
        if s.boolean.len() < 2 {
            return skip(s);
        }
        let mut t = s.clone();
        let a = pop_n(&mut t.boolean, 2);
        t.boolean.push(f(a[0], a[1]));
        ok(t)
    };
    Ok(match i {
        B::Pop(_) => common_same(s, BOOL, g, "Pop").unwrap(),
        B::Push(p) => push_to(s, BOOL, g, p.0),
        B::Dup(_) => common_same(s, BOOL, g, "Dup").unwrap(),
        B::Swap(_) => common_same(s, BOOL, g, "Swap").unwrap(),
        B::IsEmpty(_) => common_same(s, BOOL, g, "IsEmpty").unwrap(),
        B::StackDepth(_) => common_same(s, BOOL, g, "StackDepth").unwrap(),
        B::Flush(_) => common_same(s, BOOL, g, "Flush").unwrap(),
        B::Print(_) => print_top(s, g, false),
        B::Println(_) => print_top(s, g, true),
        B::Not => {
            if s.boolean.is_empty() {
                skip(s)
            } else {
                let mut t = s.clone();
                let x = t.boolean.pop().unwrap();
                t.boolean.push(!x);
                ok(t)
            }
        }
        B::And => op2(|x, y| x & y),
        B::Or => op2(|x, y| x | y),
        B::Xor => op2(|x, y| x ^ y),
        B::Implies => op2(|x, y| !x | y),
        B::FromInt => cross(s, INT, 1, BOOL, |t| {
            let x = t.int.pop().unwrap();
            t.boolean.push(x != 0);
        }),
        _ => return Err(format!("PushRef has no row for bool instruction {i:?}")),
    })
}

fn ref_exec(s: &RState, i: &ExecInstruction) -> Result<Vec<Outcome>, String> {
    use ExecInstruction as E;
    let g: fn(&mut RState) -> &mut Vec<PushProgram> = g_exec;
    let cond = s.boolean.last().copied();
    let blocks = s.exec.len();
    Ok(match i {
        E::Pop(_) => common_same(s, EXEC, g, "Pop").unwrap(),
        E::Push(p) => push_to(s, EXEC, g, p.0.clone()),
        E::Dup(_) | E::DupBlock(_) => common_same(s, EXEC, g, "Dup").unwrap(),
        E::Swap(_) => common_same(s, EXEC, g, "Swap").unwrap(),
        E::IsEmpty(_) => common_same(s, EXEC, g, "IsEmpty").unwrap(),
        E::StackDepth(_) => common_same(s, EXEC, g, "StackDepth").unwrap(),
        E::Flush(_) => common_same(s, EXEC, g, "Flush").unwrap(),
        E::Noop(_) => ok(s.clone()),
        E::When(_) => {
            let mut t = s.clone();
            match (cond, blocks >= 1) {
                (Some(true), true) => {
                    t.boolean.pop();
                    ok(t)
                }
                (Some(false), true) => {
                    t.boolean.pop();
                    t.exec.pop();
                    ok(t)
                }
                (None, true) => {
                    t.exec.pop();
                    ok(t)
                }
                (Some(_), false) => ok(t),
                (None, false) => skip(s),
            }
        }
        E::Unless(_) => {
            let mut t = s.clone();
            match (cond, blocks >= 1) {
                (Some(false), true) => {
                    t.boolean.pop();
                    ok(t)
                }
                (Some(true), true) => {
                    t.boolean.pop();
                    t.exec.pop();
                    ok(t)
                }
                (None, true) => ok(t),
                (Some(_), false) => ok(t),
                (None, false) => skip(s),
            }
        }
        E::IfElse(_) => {
            let mut t = s.clone();
            match (cond, blocks) {
                (Some(true), n) if n >= 2 => {
                    t.boolean.pop();
                    // the "else" block is the second item from the top
                    let k = t.exec.len() - 2;
                    t.exec.remove(k);
                    ok(t)
                }
                (Some(false), n) if n >= 2 => {
                    t.boolean.pop();
                    t.exec.pop();
                    ok(t)
                }
                (Some(true), 1) => {
                    t.boolean.pop();
                    ok(t)
                }
                (Some(false), 1) => {
                    t.boolean.pop();
                    t.exec.pop();
                    ok(t)
                }
                (None, n) if n >= 1 => {
                    t.exec.pop();
                    ok(t)
                }
                (_, _) => skip(s),
            }
        }
    })
}

/// Performing a block: its first element becomes the top of the exec stack.
pub fn ref_perform_block(s: &RState, block: &[PushProgram]) -> Vec<Outcome> {
    if s
        .exec
        .len()
        .checked_add(block.len())
        .is_none_or(|n| n > s.caps[EXEC])
    {
        return fatal(s);
    }
    let mut t = s.clone();
    t.exec.extend(block.iter().rev().cloned());
    ok(t)
}

pub fn ref_perform_program(s: &RState, p: &PushProgram) -> Result<Vec<Outcome>, String> {
    match p {
        PushProgram::Instruction(i) => ref_perform(s, i),
        PushProgram::Block(b) => Ok(ref_perform_block(s, b)),
    }
}

/// The result of running to completion, as the reference sees it.
#[derive(Clone, Debug, PartialEq)]
pub enum Final {
    /// evaluation returned normally with this state
    Done(RState),
    /// evaluation ended with a fatal error; the carried state is the machine
    /// state at the failing instruction (that instruction already popped)
    Aborted(RState),
}

/// All final results the property admits for a run with step limit `limit`.
/// One step = one item taken from the exec stack and performed (an instruction, or a
/// block being unfolded onto the exec stack): the loop the property is anchored in counts
/// exactly that, and running a program under the limits 0..N must expose every one of these
/// intermediate states.  (DESIGN 9.2: the earlier tolerance that also admitted loops which
/// perform several exec items within one counted step was withdrawn.)  Set-valued only through
/// the instruction-level tolerances and the carried state of an abort.  With a step limit beyond
/// `pop_cap` the run is followed for `pop_cap` steps and `undecided` is set if it has not halted.
pub fn admissible_finals(
    s: &RState,
    limit: usize,
    pop_cap: usize,
    undecided: &mut bool,
) -> Result<Vec<Final>, String> {
    let mut out = vec![];
    rec(s.clone(), 0, limit, pop_cap, undecided, &mut out)?;
    Ok(out)
}

fn rec(
    s: RState,
    pops: usize,
    limit: usize,
    pop_cap: usize,
    undecided: &mut bool,
    out: &mut Vec<Final>,
) -> Result<(), String> {
    if s.exec.is_empty() || pops >= limit {
        out.push(Final::Done(s));
        return Ok(());
    }
    if pops >= pop_cap {
        *undecided = true;
        return Ok(());
    }
    let mut t = s;
    let item = t.exec.pop().unwrap();
    for o in ref_perform_program(&t, &item)? {
        match o.kind {
            Kind::Ok => rec(o.st, pops + 1, limit, pop_cap, undecided, out)?,
            Kind::Skip => rec(t.clone(), pops + 1, limit, pop_cap, undecided, out)?,
            Kind::Fatal => {
                // the carried state: the failing item already popped (current loop) or not
                out.push(Final::Aborted(t.clone()));
                let mut u = t.clone();
                u.exec.push(item.clone());
                out.push(Final::Aborted(u));
            }
        }
    }
    Ok(())
}

/// Iterative run for long step limits (no recursion, one state clone per instruction): the final
/// result after `limit` steps, following the single admissible outcome of every step.  Err if some
/// step is set-valued (the long-run families avoid those corners).
pub fn ref_run_long(s: &RState, limit: usize) -> Result<Final, String> {
    let mut cur = s.clone();
    for _ in 0..limit {
        let Some(item) = cur.exec.pop() else {
            break;
        };
        let o = ref_perform_program(&cur, &item)?;
        if o.len() != 1 {
            return Err("set-valued step in a long run".into());
        }
        match o[0].kind {
            Kind::Ok => cur = o.into_iter().next().unwrap().st,
            Kind::Skip => {}
            Kind::Fatal => return Ok(Final::Aborted(cur)),
        }
    }
    Ok(Final::Done(cur))
}

/// The plain (current-loop) trace: every pop counts as a step.  Returns the
/// state after each pop (index 0 = initial) until halt, abort or `max_pops`;
/// follows the first admissible outcome where the reference is set-valued.
pub fn trace_every_pop(s: &RState, max_pops: usize) -> Result<(Vec<RState>, Option<RState>), String> {
    let mut states = vec![s.clone()];
    let mut cur = s.clone();
    for _ in 0..max_pops {
        if cur.exec.is_empty() {
            break;
        }
        let item = cur.exec.pop().unwrap();
        let o = ref_perform_program(&cur, &item)?;
        match o[0].kind {
            Kind::Ok => cur = o[0].st.clone(),
            Kind::Skip => {}
            Kind::Fatal => return Ok((states, Some(cur))),
        }
        states.push(cur.clone());
    }
    Ok((states, None))
}
