//! Bridging between the real `PushState` and `RState` through public API only.

use crate::pushref::{fbits, Kind, Lit, Outcome, RState, BOOL, EXEC, FLOAT, INT};
use crate::util::contents;
use ordered_float::OrderedFloat;
use push::error::Error;
use push::instruction::instruction_error::PushInstructionError;
use push::instruction::printing::{PrintNewline, PrintPeriod, PrintSpace, PrintString};
use push::instruction::variable_name::VariableName;
use push::instruction::{
    BoolInstruction, ExecInstruction, FloatInstruction, IntInstruction, PushInstruction,
};
use push::push_vm::program::PushProgram;
use push::push_vm::push_state::PushState;
use push::push_vm::HasStack;
use strum::IntoEnumIterator;

pub type OF = OrderedFloat<f64>;

/// Build the real state that corresponds to a reference state.
pub fn make_real(r: &RState, step_limit: usize) -> PushState {
    let mut b = PushState::builder()
        .with_max_stack_size(usize::MAX)
        .with_program(r.exec.iter().rev().cloned().collect::<Vec<_>>())
        .expect("roomy exec")
        .with_int_values(r.int.iter().rev().copied().collect::<Vec<_>>())
        .expect("roomy int")
        .with_float_values(r.float.iter().rev().map(|f| OrderedFloat(*f)).collect::<Vec<_>>())
        .expect("roomy float")
        .with_bool_values(r.boolean.iter().rev().copied().collect::<Vec<_>>())
        .expect("roomy bool");
    for (name, lit) in &r.inputs {
        b = match lit {
            Lit::I(v) => b.with_int_input(name, *v),
            Lit::F(v) => b.with_float_input(name, OrderedFloat(*v)),
            Lit::B(v) => b.with_bool_input(name, *v),
        };
    }
    let mut s = b.with_instruction_step_limit(step_limit).build();
    s.stack_mut::<PushProgram>().set_max_stack_size(r.caps[EXEC]);
    s.stack_mut::<i64>().set_max_stack_size(r.caps[INT]);
    s.stack_mut::<OF>().set_max_stack_size(r.caps[FLOAT]);
    s.stack_mut::<bool>().set_max_stack_size(r.caps[BOOL]);
    if !r.out.is_empty() {
        use push::push_vm::push_io::HasStdout;
        use std::io::Write;
        s.stdout().write_all(&r.out).expect("write to cursor");
    }
    s
}

/// Read everything observable of a real state.
pub fn observe(s: &PushState) -> RState {
    let out = s
        .clone()
        .stdout_string()
        .map(|x| x.into_bytes())
        .unwrap_or_else(|e| e.into_bytes());
    RState {
        exec: contents(s.stack::<PushProgram>()),
        int: contents(s.stack::<i64>()),
        float: contents(s.stack::<OF>()).into_iter().map(|f| f.0).collect(),
        boolean: contents(s.stack::<bool>()),
        out,
        caps: [
            s.stack::<PushProgram>().max_stack_size(),
            s.stack::<i64>().max_stack_size(),
            s.stack::<OF>().max_stack_size(),
            s.stack::<bool>().max_stack_size(),
        ],
        inputs: vec![],
    }
}

/// Cheap equality of a real state with a reference state (no allocation on the
/// common path except for floats and stdout).
pub fn real_matches(s: &PushState, r: &RState) -> bool {
    if !(s.stack::<i64>() == &r.int && s.stack::<bool>() == &r.boolean && s.stack::<PushProgram>() == &r.exec) {
        return false;
    }
    let fl = contents(s.stack::<OF>());
    if fl.len() != r.float.len() || fl.iter().zip(&r.float).any(|(a, b)| fbits(a.0) != fbits(*b)) {
        return false;
    }
    let o = observe_out(s);
    o == r.out
        && s.stack::<PushProgram>().max_stack_size() == r.caps[EXEC]
        && s.stack::<i64>().max_stack_size() == r.caps[INT]
        && s.stack::<OF>().max_stack_size() == r.caps[FLOAT]
        && s.stack::<bool>().max_stack_size() == r.caps[BOOL]
}

pub fn observe_out(s: &PushState) -> Vec<u8> {
    s.clone()
        .stdout_string()
        .map(|x| x.into_bytes())
        .unwrap_or_else(|e| e.into_bytes())
}

/// The real outcome of one `perform`, classified.
pub struct RealOutcome {
    pub kind: Kind,
    pub state: PushState,
    pub error: Option<String>,
    /// the error's accessors (`is_fatal`, `is_recoverable`, `state()`, `into_state()`) disagree with each other
    pub accessor_problem: Option<String>,
}

pub fn classify(r: Result<PushState, Error<PushState, PushInstructionError>>) -> RealOutcome {
    match r {
        Ok(s) => RealOutcome {
            kind: Kind::Ok,
            state: s,
            error: None,
            accessor_problem: None,
        },
        Err(e) => {
            let kind = if e.is_recoverable() { Kind::Skip } else { Kind::Fatal };
            let msg = format!("{:?}", e.error());
            use push::error::into_state::IntoState;
            let mut accessor_problem = None;
            if e.is_fatal() == e.is_recoverable() {
                accessor_problem = Some(format!("is_fatal() = {} and is_recoverable() = {}", e.is_fatal(), e.is_recoverable()));
            }
            let borrowed = e.state().clone();
            let state = e.into_state();
            if borrowed != state {
                accessor_problem = Some("state() and into_state() give different states".to_string());
            }
            RealOutcome {
                kind,
                state,
                error: Some(msg),
                accessor_problem,
            }
        }
    }
}

pub fn matches_some(real: &RealOutcome, admissible: &[Outcome]) -> bool {
    admissible
        .iter()
        .any(|o| o.kind == real.kind && real_matches(&real.state, &o.st))
}

pub fn exec_push(p: PushProgram) -> ExecInstruction {
    // `PushValue` lives in a private module; obtain the variant through the
    // enum iterator and overwrite its public field.
    for mut i in ExecInstruction::iter() {
        if let ExecInstruction::Push(ref mut b) = i {
            b.0 = p;
            return i;
        }
    }
    panic!("ExecInstruction has no Push variant");
}

/// The full instruction set (every enum-listed variant with its default
/// payload, the print constants, PrintString, and one input variable).
pub fn all_instructions() -> Vec<PushInstruction> {
    let mut v: Vec<PushInstruction> = vec![];
    v.extend(IntInstruction::iter().map(Into::into));
    v.extend(FloatInstruction::iter().map(Into::into));
    v.extend(BoolInstruction::iter().map(Into::into));
    v.extend(ExecInstruction::iter().map(Into::into));
    v.push(PushInstruction::PrintSpace(PrintSpace::new()));
    v.push(PushInstruction::PrintNewline(PrintNewline::new()));
    v.push(PushInstruction::PrintPeriod(PrintPeriod::new()));
    v.push(PushInstruction::PrintString(PrintString::new("xy".to_string())));
    v
}

pub fn input_instructions() -> Vec<PushInstruction> {
    ["vi", "vf", "vb"]
        .iter()
        .map(|n| PushInstruction::InputVar(VariableName::from(*n)))
        .collect()
}

pub fn default_inputs() -> Vec<(String, Lit)> {
    vec![
        ("vi".to_string(), Lit::I(-7)),
        ("vf".to_string(), Lit::F(2.5)),
        ("vb".to_string(), Lit::B(true)),
    ]
}

pub fn int_literals(full: bool) -> Vec<i64> {
    if full {
        vec![0, 1, -1, 2, -3, i64::MAX, i64::MIN]
    } else {
        vec![0, 1, -3, i64::MAX, i64::MIN]
    }
}
pub fn float_literals(full: bool) -> Vec<f64> {
    if full {
        vec![0.0, -0.0, 1.5, -2.0, f64::INFINITY, f64::NEG_INFINITY, f64::NAN]
    } else {
        vec![-0.0, 1.5, f64::NAN, f64::NEG_INFINITY]
    }
}
pub fn exec_items() -> Vec<PushProgram> {
    vec![
        PushProgram::Instruction(IntInstruction::push(5).into()),
        PushProgram::Block(vec![]),
        PushProgram::Block(vec![
            PushProgram::Instruction(BoolInstruction::push(true).into()),
            PushProgram::Instruction(IntInstruction::Add.into()),
        ]),
    ]
}

pub fn literal_pushes(full: bool) -> Vec<PushInstruction> {
    let mut v: Vec<PushInstruction> = vec![];
    v.extend(int_literals(full).into_iter().map(PushInstruction::push_int));
    v.extend(
        float_literals(full)
            .into_iter()
            .map(|f| PushInstruction::push_float(OrderedFloat(f))),
    );
    v.extend([true, false].into_iter().map(PushInstruction::push_bool));
    v.extend(exec_items().into_iter().map(|p| exec_push(p).into()));
    v
}

pub fn prog_compact(p: &PushProgram) -> String {
    match p {
        PushProgram::Instruction(i) => instr_name(i),
        PushProgram::Block(b) => format!(
            "[{}]",
            b.iter().map(prog_compact).collect::<Vec<_>>().join(" ")
        ),
    }
}

pub fn instr_name(i: &PushInstruction) -> String {
    if let PushInstruction::Exec(ExecInstruction::Push(b)) = i {
        return format!("Exec-Push<{}>", prog_compact(&b.0));
    }
    format!("{i}")
}
