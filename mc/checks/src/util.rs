//! Shared helpers: observing stacks through the public API only.
use push::push_vm::stack::Stack;

/// Contents bottom-first, read through `clone` + `pop` (the public API has no iterator).
pub fn contents<T: Clone>(s: &Stack<T>) -> Vec<T> {
    let mut c = s.clone();
    let mut out = Vec::with_capacity(c.size());
    while let Ok(v) = c.pop() {
        out.push(v);
    }
    out.reverse();
    out
}

/// Build a stack with the given contents (bottom-first) and maximum, using only
/// `push` on a roomy stack and `set_max_stack_size` afterwards.
pub fn stack_of<T>(vals: Vec<T>, max: usize) -> Stack<T> {
    let mut s = Stack::default();
    s.set_max_stack_size(usize::MAX);
    for v in vals {
        s.push(v).expect("push on roomy stack");
    }
    s.set_max_stack_size(max);
    s
}
