//! C09 — a generation step atomically replaces the population with as many
//! fresh children.  Tier A: exhaustive product (variant x size x failure plan x
//! pool size) on real rayon with a schedule-independent oracle.  Tier B (the
//! exhaustive schedule exploration on the rayon model) lives in /verif/mc_par;
//! its results are merged into the evidence by the driver.

use ec_core::generation::Generation;
use ec_core::operator::{Composable, Operator};
use mcx::Run;
use rand::Rng;
use serde_json::{json, Value};
use std::sync::atomic::{AtomicU64, AtomicUsize, Ordering};
use std::sync::Mutex;

#[derive(Clone, Debug, PartialEq, Eq)]
pub struct Kid {
    pub id: u64,
    pub word: u64,
    /// what the child maker was shown: buffer address and the ids of the population
    pub seen_ptr: usize,
    pub seen_ids: Vec<u64>,
}

static NEXT_ID: AtomicU64 = AtomicU64::new(1000);

#[derive(Debug, PartialEq, Eq, Clone)]
pub struct Injected(pub usize);

pub struct Maker {
    pub fail_calls: Vec<usize>,
    pub calls: std::sync::Arc<AtomicUsize>,
    pub log: Mutex<Vec<(usize, std::thread::ThreadId)>>,
    /// every word drawn, also by calls that then failed
    pub words: std::sync::Arc<Mutex<Vec<u64>>>,
}
impl Composable for Maker {}
impl<'a> Operator<&'a Vec<Kid>> for Maker {
    type Output = Kid;
    type Error = Injected;
    fn apply<R: Rng + ?Sized>(&self, p: &'a Vec<Kid>, rng: &mut R) -> Result<Kid, Injected> {
        let k = self.calls.fetch_add(1, Ordering::SeqCst);
        let word = rng.next_u64();
        self.words.lock().unwrap().push(word);
        self.log.lock().unwrap().push((k, std::thread::current().id()));
        if self.fail_calls.contains(&k) {
            return Err(Injected(k));
        }
        // small populations: the ids seen; large ones: their number and a digest (memory would be quadratic)
        let seen_ids: Vec<u64> = if p.len() <= 300 { p.iter().map(|x| x.id).collect() } else { spot(p, word) };
        Ok(Kid { id: NEXT_ID.fetch_add(1, Ordering::SeqCst), word, seen_ptr: p.as_ptr() as usize, seen_ids })
    }
}

/// what a child records of a large population (recording all ids would be quadratic): its size and the
/// ids at the first, middle and last position and at a position derived from the child's own random word
pub fn spot(p: &[Kid], word: u64) -> Vec<u64> {
    let n = p.len();
    let idx = (word % n as u64) as usize;
    vec![n as u64, p[0].id, p[n / 2].id, p[n - 1].id, idx as u64, p[idx].id]
}

pub fn initial(n: usize) -> Vec<Kid> {
    (0..n as u64).map(|i| Kid { id: i, word: i, seen_ptr: 0, seen_ids: vec![] }).collect()
}

/// the schedule-independent oracle; returns a description of the violation
pub fn judge(before: &[Kid], before_ptr: usize, after: &[Kid], after_ptr: usize, result: &Result<(), Injected>, fail_calls: &[usize], calls: usize) -> Option<(&'static str, String)> {
    let n = before.len();
    match result {
        Ok(()) => {
            if fail_calls.iter().any(|f| *f < n) && n > 0 {
                // with n calls needed, a planned failure among the first n calls must have struck
                return Some(("error-swallowed", format!("child creation was told to fail at calls {fail_calls:?} but the step reported success after {calls} calls")));
            }
            if after.len() != n {
                return Some(("size", format!("population of {n} was replaced by {} individuals", after.len())));
            }
            let old_ids: Vec<u64> = before.iter().map(|k| k.id).collect();
            let old_set: std::collections::HashSet<u64> = old_ids.iter().copied().collect();
            for (i, k) in after.iter().enumerate() {
                if old_set.contains(&k.id) {
                    return Some(("not-fresh", format!("individual {i} of the new population is an individual of the old one")));
                }
                let expect_seen: Vec<u64> = if n <= 300 { old_ids.clone() } else { spot(before, k.word) };
                if k.seen_ids != expect_seen || k.seen_ptr != before_ptr {
                    return Some(("stale-or-modified-parents", format!("child {i} was made from a population with ids {:?}{}, the previous population was {:?}", &k.seen_ids[..k.seen_ids.len().min(12)], if n > 300 { " (size, first, middle, last, a position, the id there)" } else { "" }, &expect_seen[..expect_seen.len().min(12)])));
                }
            }
            let mut by_word: Vec<(u64, usize)> = after.iter().enumerate().map(|(i, k)| (k.word, i)).collect();
            by_word.sort();
            if let Some(w) = by_word.windows(2).find(|w| w[0].0 == w[1].0) {
                return Some(("correlated-randomness", format!("children {} and {} drew the same random word {:#x}: they are copies of one draw", w[0].1, w[1].1, w[0].0)));
            }
            if calls != n {
                return Some(("calls", format!("{calls} children were made for a population of {n}")));
            }
            None
        }
        Err(e) => {
            if !fail_calls.contains(&e.0) {
                return Some(("foreign-error", format!("returned error {e:?} is not one of the injected failures {fail_calls:?}")));
            }
            if after != before || after_ptr != before_ptr {
                return Some(("population-changed-on-error", format!("child creation failed but the population was changed: {} individuals before, {} after", before.len(), after.len())));
            }
            None
        }
    }
}

/// one execution on real threads
pub fn execute(parallel: bool, n: usize, fail_calls: &[usize], pool: Option<&rayon::ThreadPool>) -> (Option<(&'static str, String)>, usize) {
    {
        let (p, f, t) = (parallel, fail_calls.to_vec(), pool.map(|p| p.current_num_threads()).unwrap_or(0));
        mcx::watch::enter(Box::new(move |_| {
            (
                format!("{}/hang", if p { "par_next" } else { "serial_next" }),
                format!("{} on a population of {n}, failing calls {f:?}, {t} threads", if p { "par_next" } else { "serial_next" }),
                json!({"check":"C09","variant": if p { "par" } else { "serial" },"n":n,"fail":f,"threads":t}),
            )
        }));
    }
    let r = execute_inner(parallel, n, fail_calls, pool);
    mcx::watch::leave();
    r
}
fn execute_inner(parallel: bool, n: usize, fail_calls: &[usize], pool: Option<&rayon::ThreadPool>) -> (Option<(&'static str, String)>, usize) {
    let counter = std::sync::Arc::new(AtomicUsize::new(0));
    let words = std::sync::Arc::new(Mutex::new(vec![]));
    let maker = Maker { fail_calls: fail_calls.to_vec(), calls: counter.clone(), log: Mutex::new(vec![]), words: words.clone() };
    let mut g = Generation::new(maker, initial(n));
    let before = g.population().clone();
    let before_ptr = g.population().as_ptr() as usize;
    let r = mcx::guarded(|| match (parallel, pool) {
        (true, Some(p)) => p.install(|| g.par_next()),
        (true, None) => g.par_next(),
        (false, _) => g.serial_next(),
    });
    let r = match r {
        Ok(r) => r,
        Err(p) => return (Some(("panic", format!("panicked: {p}"))), 0),
    };
    let after = g.population().clone();
    let after_ptr = g.population().as_ptr() as usize;
    let calls = counter.load(Ordering::SeqCst);
    let first = judge(&before, before_ptr, &after, after_ptr, &r, fail_calls, calls);
    if first.is_none() && r.is_err() && n > 0 {
        // the step after a failed one (all planned failures are used up by now unless they lie beyond
        // the calls made): its children draw live randomness, not the words the failed attempt drew
        let drawn_before: Vec<u64> = words.lock().unwrap().clone();
        let later_calls_fail = fail_calls.iter().any(|f| *f >= calls);
        if !later_calls_fail {
            let before = g.population().clone();
            let before_ptr = g.population().as_ptr() as usize;
            let r2 = mcx::guarded(|| match (parallel, pool) {
                (true, Some(p)) => p.install(|| g.par_next()),
                (true, None) => g.par_next(),
                (false, _) => g.serial_next(),
            });
            match r2 {
                Err(p) => return (Some(("panic", format!("the step after a failed step panicked: {p}"))), calls),
                Ok(r2) => {
                    let after = g.population().clone();
                    let after_ptr = g.population().as_ptr() as usize;
                    let now = counter.load(Ordering::SeqCst);
                    if let Some((k, w)) = judge(&before, before_ptr, &after, after_ptr, &r2, &[], now - calls) {
                        return (Some((k, format!("the step after a failed step: {w}"))), now);
                    }
                    if let Some(k) = after.iter().find(|k| drawn_before.contains(&k.word)) {
                        return (Some(("correlated-randomness", format!("after a failed step, a child of the next step drew the word {:#x} that a child of the failed attempt had drawn: the generator was rewound", k.word))), now);
                    }
                }
            }
        }
        return (first, calls);
    }
    if first.is_some() || r.is_err() || n == 0 {
        return (first, calls);
    }
    // two more steps on the same Generation value (no failures left in the plan): every step must show
    // the child maker the population the *previous* step produced, not an earlier one
    let mut total_calls = calls;
    for step in 2..=3 {
        let before = g.population().clone();
        let before_ptr = g.population().as_ptr() as usize;
        let later_plan: Vec<usize> = vec![];
        let r = mcx::guarded(|| match (parallel, pool) {
            (true, Some(p)) => p.install(|| g.par_next()),
            (true, None) => g.par_next(),
            (false, _) => g.serial_next(),
        });
        let r = match r {
            Ok(r) => r,
            Err(p) => return (Some(("panic", format!("step {step} panicked: {p}"))), total_calls),
        };
        let after = g.population().clone();
        let after_ptr = g.population().as_ptr() as usize;
        let now = counter.load(Ordering::SeqCst);
        if let Some((k, w)) = judge(&before, before_ptr, &after, after_ptr, &r, &later_plan, now - total_calls) {
            return (Some((k, format!("step {step} on the same Generation: {w}"))), now);
        }
        total_calls = now;
    }
    let pop = g.into_population();
    let _ = pop;
    (None, calls)
}

/// Populations that are sets (the `Population` blanket implementation covers them): children that collide
/// make the population smaller, and the next step has to make as many children as the population has *then*.
/// The child maker numbers its calls and produces `call % modulus`, so the set a step must produce is known.
pub struct SetMaker {
    pub modulus: u64,
    pub calls: std::sync::Arc<AtomicUsize>,
    pub seen_sizes: Mutex<Vec<usize>>,
}
impl Composable for SetMaker {}
impl<'a> Operator<&'a std::collections::BTreeSet<u64>> for SetMaker {
    type Output = u64;
    type Error = Injected;
    fn apply<R: Rng + ?Sized>(&self, p: &'a std::collections::BTreeSet<u64>, rng: &mut R) -> Result<u64, Injected> {
        let k = self.calls.fetch_add(1, Ordering::SeqCst) as u64;
        let _ = rng.next_u64();
        self.seen_sizes.lock().unwrap().push(p.len());
        Ok(1_000_000 + k % self.modulus)
    }
}
impl<'a> Operator<&'a std::collections::HashSet<u64>> for SetMaker {
    type Output = u64;
    type Error = Injected;
    fn apply<R: Rng + ?Sized>(&self, p: &'a std::collections::HashSet<u64>, rng: &mut R) -> Result<u64, Injected> {
        let k = self.calls.fetch_add(1, Ordering::SeqCst) as u64;
        let _ = rng.next_u64();
        self.seen_sizes.lock().unwrap().push(p.len());
        Ok(1_000_000 + k % self.modulus)
    }
}

/// one scenario: initial size n, modulus m, `steps` steps; returns a violation if any
pub fn set_scenario(parallel: bool, hash: bool, n: usize, m: u64, steps: usize, pool: Option<&rayon::ThreadPool>) -> Option<(&'static str, String)> {
    use std::collections::{BTreeSet, HashSet};
    let calls = std::sync::Arc::new(AtomicUsize::new(0));
    let maker = SetMaker { modulus: m, calls: calls.clone(), seen_sizes: Mutex::new(vec![]) };
    let initial: Vec<u64> = (0..n as u64).collect();
    // the same driver for both set types
    macro_rules! drive {
        ($set:ty) => {{
            let mut g: Generation<$set, SetMaker> = Generation::new(maker, initial.iter().copied().collect::<$set>());
            let mut size = n;
            let mut base = 0u64;
            for step in 1..=steps {
                let r = mcx::guarded(|| match (parallel, pool) {
                    (true, Some(p)) => p.install(|| g.par_next()),
                    (true, None) => g.par_next(),
                    _ => g.serial_next(),
                });
                match r {
                    Err(p) => return Some(("set/panic", format!("step {step} panicked: {p}"))),
                    Ok(Err(e)) => return Some(("set/error", format!("step {step} failed with {e:?} although no child maker call fails"))),
                    Ok(Ok(())) => {}
                }
                let made = calls.load(Ordering::SeqCst) as u64 - base;
                if made != size as u64 {
                    return Some(("set/calls", format!("step {step}: the population had {size} members, {made} children were made")));
                }
                let want: BTreeSet<u64> = (base..base + made).map(|k| 1_000_000 + k % m).collect();
                let got: BTreeSet<u64> = g.population().iter().copied().collect();
                if got != want {
                    return Some(("set/population", format!("step {step}: the new population has {} members, the {made} children made form a set of {}", got.len(), want.len())));
                }
                base += made;
                size = got.len();
            }
            None
        }};
    }
    if hash {
        drive!(HashSet<u64>)
    } else {
        drive!(BTreeSet<u64>)
    }
}

pub fn failure_plans(n: usize) -> Vec<Vec<usize>> {
    let mut v = vec![vec![]];
    for i in 0..n {
        v.push(vec![i]);
    }
    for i in 0..n {
        for j in i + 1..n {
            v.push(vec![i, j]);
        }
    }
    v
}

pub fn run(run: &mut Run) {
    let quick = run.quick();
    let reps = if quick { 20 } else { 200 };
    let max_n = 6usize;
    let pools: Vec<usize> = (1..=16).collect();
    let mut configs = 0u64;
    let mut execs = 0u64;
    let mut err_paths = 0u64;
    let built: Vec<rayon::ThreadPool> = pools.iter().map(|t| rayon::ThreadPoolBuilder::new().num_threads(*t).build().expect("pool")).collect();
    for n in 0..=max_n {
        for plan in failure_plans(n) {
            // serial variant
            configs += 1;
            for _ in 0..reps.min(3) {
                execs += 1;
                if let (Some((k, w)), _) = execute(false, n, &plan, None) {
                    run.violation(format!("serial_next/{k}"), format!("serial_next, population {n}, failing calls {plan:?}: {w}"), json!({"check":"C09","variant":"serial","n":n,"fail":plan,"threads":0}));
                }
            }
            if !plan.is_empty() {
                err_paths += 1;
            }
            for (pi, t) in pools.iter().enumerate() {
                configs += 1;
                for _ in 0..reps {
                    execs += 1;
                    if let (Some((k, w)), _) = execute(true, n, &plan, Some(&built[pi])) {
                        run.violation(format!("par_next/{k}"), format!("par_next, population {n}, failing calls {plan:?}, {t} threads: {w}"), json!({"check":"C09","variant":"par","n":n,"fail":plan,"threads":t}));
                    }
                }
            }
        }
    }
    // larger populations (rayon splits them into many more jobs than threads): a reduced fault product
    // up to sizes at which any job-size or chunking threshold of a parallel step has long been crossed
    let big_sizes: Vec<usize> = if quick { (7usize..=40).chain([64, 65, 97, 257, 1000, 1009, 2018, 4099, 10007, 65537, 131_101]).collect() } else { (7usize..=130).chain([255, 256, 257, 1000, 1009, 2018, 4099, 10007, 65537, 131_101, 262_147]).collect() };
    for &n in &big_sizes {
        let mut plans: Vec<Vec<usize>> = vec![vec![], vec![0], vec![n - 1], vec![n / 2], vec![0, n - 1], vec![n / 3, n / 2]];
        if n > 100_000 {
            // (beyond 2^17 individuals: success and one failure)
            plans.truncate(1);
            plans.push(vec![n / 2]);
        }
        for plan in plans {
            configs += 1;
            execs += 1;
            if let (Some((k, w)), _) = execute(false, n, &plan, None) {
                run.violation(format!("serial_next/{k}"), format!("serial_next, population {n}, failing calls {plan:?}: {w}"), json!({"check":"C09","variant":"serial","n":n,"fail":plan,"threads":0}));
            }
            for (pi, t) in pools.iter().enumerate() {
                if ![1usize, 2, 3, 8, 16].contains(t) || (n > 5000 && ![1usize, 3, 16].contains(t)) || (n > 100_000 && ![1usize, 16].contains(t)) {
                    continue;
                }
                configs += 1;
                for _ in 0..if n > 5000 { 1 } else if quick { 3 } else { 20 } {
                    execs += 1;
                    if let (Some((k, w)), _) = execute(true, n, &plan, Some(&built[pi])) {
                        run.violation(format!("par_next/{k}"), format!("par_next, population {n}, failing calls {plan:?}, {t} threads: {w}"), json!({"check":"C09","variant":"par","n":n,"fail":plan,"threads":t}));
                    }
                }
            }
        }
    }
    run.bound("tierA.large_populations", json!(big_sizes));
    // set populations: sizes x moduli (collisions shrink the set) x 3 steps, serial and on pools of 1, 3, 16
    for n in (0..=12usize).chain([40, 257]) {
        for m in [1u64, 2, 3, 5, 7, 1000] {
            for hash in [false, true] {
                configs += 1;
                execs += 1;
                if let Some((k, w)) = set_scenario(false, hash, n, m, 3, None) {
                    run.violation(format!("serial_next/{k}"), format!("serial_next on a {} of {n}, child values = call number mod {m}: {w}", if hash { "HashSet" } else { "BTreeSet" }), json!({"check":"C09","variant":"set","parallel":false,"hash":hash,"n":n,"m":m,"threads":0}));
                }
                for (pi, t) in pools.iter().enumerate() {
                    if ![1usize, 3, 16].contains(t) {
                        continue;
                    }
                    configs += 1;
                    for _ in 0..if quick { 3 } else { 20 } {
                        execs += 1;
                        if let Some((k, w)) = set_scenario(true, hash, n, m, 3, Some(&built[pi])) {
                            run.violation(format!("par_next/{k}"), format!("par_next on a {} of {n}, child values = call number mod {m}, {t} threads: {w}", if hash { "HashSet" } else { "BTreeSet" }), json!({"check":"C09","variant":"set","parallel":true,"hash":hash,"n":n,"m":m,"threads":t}));
                        }
                    }
                }
            }
        }
    }
    run.bound("tierA.set_populations", json!("BTreeSet / HashSet of 0..=12, 40, 257 members x child values = call number mod {1, 2, 3, 5, 7, 1000} x 3 steps; serial and pools of 1, 3, 16"));
    run.states = configs;
    run.evaluations = execs;
    run.transitions = execs;
    run.traces_validated = execs;
    run.distinct_nontrivial = err_paths * 17;
    run.rule = "tier A: {serial_next, par_next} x population size 0..6 x failure plans {none, every single call, every pair of calls} x rayon pool size 1..16, each configuration executed several times on real threads, successful steps followed by two more steps on the same Generation (every step must build on the population the previous step produced), failed steps followed by one more step (fresh randomness, not the failed attempt's words); larger populations (17..257, thorough ..1000) with a reduced failure product; set populations (BTreeSet, HashSet) whose children collide: every step makes as many children as the population has at that moment and the new population is the set of those children; oracle independent of the schedule (size preserved, every child made from the unmodified previous population, pairwise distinct random words, on error: population identical and error among the injected ones). Tier B (merged below when available): all schedules of the rayon model for N <= 3/4. non-trivial = configurations with at least one injected failure".into();
    run.bound("tierA.max_population", json!(max_n));
    run.bound("tierA.pool_sizes", json!("1..=16"));
    run.bound("tierA.failure_deviation_bound", json!(2));
    run.bound("tierA.repetitions", json!(reps));
    run.assumptions = vec![
        "tier A: real-rayon interleavings are sampled by repetition, not enumerated; the oracle holds for every schedule, so no alarm depends on timing".into(),
        "two honest 64-bit draws collide with probability < 2^-58 for the sizes used (the only non-zero false-alarm probability)".into(),
    ];
    run.cap_hit("tier A: the interleavings of real rayon threads are sampled by repetition, not enumerated (exhaustive over sizes x failure plans x pool sizes only)");
    run.sample(json!({"variant":"par_next","population":4,"failing_calls":[1,3],"threads":8,"expected":"Err(injected), population untouched"}));
    run.sample(json!({"variant":"serial_next","population":3,"failing_calls":[],"expected":"3 fresh children, each made from the old population, distinct words"}));
    // merge tier B results written by mc_par (if the driver ran it)
    let p = mcx::report::verif_root().join(".build").join("c09_tierB.json");
    if let Ok(text) = std::fs::read_to_string(&p) {
        if let Ok(b) = serde_json::from_str::<Value>(&text) {
            if b["tier"].as_str() == Some(run.tier.as_str()) || b["tier"].is_null() {
                let mut summary = b.clone();
                if let Some(o) = summary.as_object_mut() {
                    o.remove("conformance_behaviours");
                    o.remove("conformance_max_n");
                }
                run.note("tierB", summary);
                let v = conformance(run, &b, if quick { 20 } else { 200 });
                run.traces_validated += v;
                run.states += b["schedules"].as_u64().unwrap_or(0);
                run.transitions += b["choice_points"].as_u64().unwrap_or(0);
                run.evaluations += b["schedules"].as_u64().unwrap_or(0);
                for v in b["violations"].as_array().cloned().unwrap_or_default() {
                    run.violation(v["key"].as_str().unwrap_or("tierB").to_string(), v["what"].as_str().unwrap_or("").to_string(), v["replay"].clone());
                }
                for m in b["machinery"].as_array().cloned().unwrap_or_default() {
                    run.machinery(m.as_str().unwrap_or("tier B machinery error").to_string());
                }
            }
        }
    } else {
        run.note("tierB", json!("not available on this tree (mc_par did not build or was not run); the verdict rests on tier A"));
    }
}

/// one run of the conformance shape on real rayon, abstracted like the model does
fn real_trace(n: usize, fail: &[usize], pool: &rayon::ThreadPool) -> String {
    use rayon::prelude::*;
    let next_state = AtomicUsize::new(0);
    let seq = AtomicUsize::new(0);
    let log: Mutex<Vec<(usize, usize, usize)>> = Mutex::new(vec![]); // (state id, index, completion seq)
    let _r: Result<Vec<usize>, usize> = pool.install(|| {
        (0..n)
            .into_par_iter()
            .map_init(
                || next_state.fetch_add(1, Ordering::SeqCst),
                |st, i| {
                    let k = seq.fetch_add(1, Ordering::SeqCst);
                    log.lock().unwrap().push((*st, i, k));
                    if fail.contains(&i) {
                        Err(i)
                    } else {
                        Ok(i)
                    }
                },
            )
            .collect()
    });
    let mut l = log.into_inner().unwrap();
    l.sort_by_key(|x| x.2);
    let order: Vec<usize> = l.iter().map(|x| x.1).collect();
    let mut by_state: std::collections::BTreeMap<usize, Vec<usize>> = Default::default();
    for (st, i, _) in &l {
        by_state.entry(*st).or_default().push(*i);
    }
    let mut runs: Vec<Vec<usize>> = by_state.into_values().collect();
    runs.sort();
    format!("runs={runs:?};order={order:?}")
}

/// binding of the rayon model to real rayon: every observed real trace must be a model behaviour
fn conformance(run: &mut Run, b: &Value, reps: usize) -> u64 {
    let mut validated = 0u64;
    let mut distinct: std::collections::BTreeSet<String> = Default::default();
    let pools: Vec<rayon::ThreadPool> = [1usize, 2, 3, 4, 8, 16].iter().map(|t| rayon::ThreadPoolBuilder::new().num_threads(*t).build().expect("pool")).collect();
    let mut outside = 0;
    let conf_n = b["conformance_max_n"].as_u64().unwrap_or(4) as usize;
    for n in 0..=conf_n {
        for fail in failure_plans(n) {
            let key = format!("n={n};fail={fail:?}");
            let Some(set) = b["conformance_behaviours"][&key].as_array() else {
                run.machinery(format!("tier B results lack the behaviour set for {key}"));
                return validated;
            };
            let set: std::collections::BTreeSet<&str> = set.iter().filter_map(|x| x.as_str()).collect();
            for pool in &pools {
                for _ in 0..reps {
                    let t = real_trace(n, &fail, pool);
                    validated += 1;
                    if !set.contains(t.as_str()) {
                        outside += 1;
                        if outside <= 3 {
                            run.machinery(format!("rayon model too narrow: real rayon showed {t} for {key}, which the model did not explore"));
                        }
                    }
                    distinct.insert(format!("{key}:{t}"));
                }
            }
        }
    }
    run.note("tierB.real_traces_checked_for_inclusion", json!(validated));
    run.note("tierB.distinct_real_behaviours_observed", json!(distinct.len()));
    validated
}

pub fn replay(v: &Value) -> bool {
    if v["variant"].as_str() == Some("model") {
        println!("this schedule belongs to the rayon model (tier B); re-run `./check C09` to reproduce it: {v}");
        return false;
    }
    if v["variant"].as_str() == Some("set") {
        let t = v["threads"].as_u64().unwrap_or(0) as usize;
        let par = v["parallel"].as_bool().unwrap_or(false);
        let pool = if par && t > 0 { Some(rayon::ThreadPoolBuilder::new().num_threads(t).build().expect("pool")) } else { None };
        let mut bad = 0;
        for i in 0..20 {
            if let Some((k, w)) = set_scenario(par, v["hash"].as_bool().unwrap_or(false), v["n"].as_u64().unwrap_or(0) as usize, v["m"].as_u64().unwrap_or(1), 3, pool.as_ref()) {
                if bad == 0 {
                    println!("MISMATCH [{k}] (run {i}): {w}");
                }
                bad += 1;
            }
        }
        println!("{} of 20 executions violated the property", bad);
        return bad == 0;
    }
    let n = v["n"].as_u64().unwrap_or(0) as usize;
    let plan: Vec<usize> = v["fail"].as_array().map(|a| a.iter().filter_map(|x| x.as_u64().map(|y| y as usize)).collect()).unwrap_or_default();
    let t = v["threads"].as_u64().unwrap_or(0) as usize;
    let par = v["variant"].as_str() == Some("par");
    let pool = if par && t > 0 { Some(rayon::ThreadPoolBuilder::new().num_threads(t).build().expect("pool")) } else { None };
    let mut bad = 0;
    for i in 0..50 {
        let (viol, _) = execute(par, n, &plan, pool.as_ref());
        if let Some((k, w)) = viol {
            if bad == 0 {
                println!("MISMATCH [{k}] (run {i}): {w}");
            }
            bad += 1;
        }
    }
    println!("{} of 50 executions violated the property", bad);
    bad == 0
}
