//! C14 — composed operators run their parts in order and stop at the first
//! failure.  Engine E3 over composition trees x failure plans, oracle `CompRef`.
//! Trees are built at run time from the real combinators and boxed through the
//! erased layer.

use ec_core::individual::ec::EcIndividual;
use ec_core::operator::composable::Composable;
use ec_core::operator::constant::Constant;
use ec_core::operator::genome_extractor::GenomeExtractor;
use ec_core::operator::genome_scorer::GenomeScorer;
use ec_core::operator::identity::Identity;
use ec_core::operator::mutator::{Mutate, Mutator};
use ec_core::operator::recombinator::{Recombinator, Recombine};
use ec_core::operator::{DynOperator, Operator};
use mcx::{Run, TapeRng};
use rand::Rng;
use serde_json::{json, Value};
use std::cell::RefCell;
use std::rc::Rc;

#[derive(Clone, PartialEq, Eq)]
pub enum V {
    Leaf(u64),
    Node(Vec<V>),
}
impl std::fmt::Debug for V {
    fn fmt(&self, f: &mut std::fmt::Formatter<'_>) -> std::fmt::Result {
        match self {
            V::Leaf(x) => write!(f, "{x}"),
            V::Node(v) => {
                write!(f, "(")?;
                for (i, x) in v.iter().enumerate() {
                    if i > 0 {
                        write!(f, " ")?;
                    }
                    write!(f, "{x:?}")?;
                }
                write!(f, ")")
            }
        }
    }
}

/// the error type of the erased layer: a rendered path
#[derive(Clone, PartialEq, Eq)]
pub struct PathErr(pub String);
impl std::fmt::Debug for PathErr {
    fn fmt(&self, f: &mut std::fmt::Formatter<'_>) -> std::fmt::Result {
        write!(f, "{}", self.0)
    }
}
fn render<T: std::fmt::Debug>(e: &T) -> PathErr {
    PathErr(format!("{e:?}"))
}

#[derive(Default, Debug, Clone, PartialEq)]
pub struct Log {
    pub calls: Vec<(usize, V, u64)>,
    pub fail_at: Vec<usize>,
}

#[derive(Clone)]
pub struct Probe {
    id: usize,
    log: Rc<RefCell<Log>>,
}
impl Composable for Probe {}
impl Operator<V> for Probe {
    type Output = V;
    type Error = PathErr;
    fn apply<R: Rng + ?Sized>(&self, input: V, rng: &mut R) -> Result<V, PathErr> {
        let word = rng.next_u64();
        let mut l = self.log.borrow_mut();
        l.calls.push((self.id, input.clone(), word));
        let k = l.calls.len();
        if l.fail_at.contains(&k) {
            return Err(PathErr(format!("probe{}@call{}", self.id, k)));
        }
        Ok(V::Node(vec![V::Leaf(self.id as u64), input, V::Leaf(word)]))
    }
}

// adapters between the uniform value type and the shapes the combinators need
macro_rules! adapter {
    ($name:ident, $in:ty, $out:ty, |$x:ident| $body:expr) => {
        #[derive(Clone, Copy)]
        pub struct $name;
        impl Composable for $name {}
        impl Operator<$in> for $name {
            type Output = $out;
            type Error = PathErr;
            fn apply<R: Rng + ?Sized>(&self, $x: $in, _: &mut R) -> Result<$out, PathErr> {
                Ok($body)
            }
        }
    };
}
fn side(i: u64, v: &V) -> V {
    V::Node(vec![V::Leaf(i), v.clone()])
}
adapter!(SplitArr, V, [V; 2], |x| [side(0, &x), side(1, &x)]);
adapter!(SplitTup, V, (V, V), |x| (side(0, &x), side(1, &x)));
adapter!(PackArr, [V; 2], V, |x| V::Node(x.to_vec()));
adapter!(PackTup, (V, V), V, |x| V::Node(vec![x.0, x.1]));
adapter!(PackVec, Vec<V>, V, |x| V::Node(x));
#[derive(Clone, Copy)]
pub struct SplitVec(usize);
impl Composable for SplitVec {}
impl Operator<V> for SplitVec {
    type Output = Vec<V>;
    type Error = PathErr;
    fn apply<R: Rng + ?Sized>(&self, x: V, _: &mut R) -> Result<Vec<V>, PathErr> {
        Ok((0..self.0 as u64).map(|i| side(i, &x)).collect())
    }
}
#[derive(Clone, Copy)]
pub struct PackN<const N: usize>;
impl<const N: usize> Composable for PackN<N> {}
impl<const N: usize> Operator<[V; N]> for PackN<N> {
    type Output = V;
    type Error = PathErr;
    fn apply<R: Rng + ?Sized>(&self, x: [V; N], _: &mut R) -> Result<V, PathErr> {
        Ok(V::Node(x.to_vec()))
    }
}

pub type BoxOp = Box<dyn DynOperator<V, PathErr, Output = V>>;

/// wrap any operator V -> V whose error is Debug-renderable
struct Rendered<O>(O);
impl<O> Composable for Rendered<O> {}
impl<O> Operator<V> for Rendered<O>
where
    O: Operator<V, Output = V>,
    O::Error: std::fmt::Debug,
{
    type Output = V;
    type Error = PathErr;
    fn apply<R: Rng + ?Sized>(&self, input: V, rng: &mut R) -> Result<V, PathErr> {
        self.0.apply(input, rng).map_err(|e| render(&e))
    }
}
fn boxed<O>(o: O) -> BoxOp
where
    O: Operator<V, Output = V> + 'static,
    O::Error: std::fmt::Debug,
{
    Box::new(Rendered(o))
}

#[derive(Clone, Debug, PartialEq, Eq)]
pub enum T {
    Probe,
    Identity,
    Then(Box<T>, Box<T>),
    And(Box<T>, Box<T>),
    MapArr(Box<T>),
    MapTup(Box<T>),
    ThenMapArr(Box<T>),
    MapVec(Box<T>, usize),
    Repeat(Box<T>, usize),
}

pub fn build(t: &T, next_id: &mut usize, log: &Rc<RefCell<Log>>) -> BoxOp {
    match t {
        T::Probe => {
            let id = *next_id;
            *next_id += 1;
            boxed(Probe { id, log: log.clone() })
        }
        T::Identity => boxed(Rendered(RenderId)),
        T::Then(a, b) => {
            let a = build(a, next_id, log);
            let b = build(b, next_id, log);
            boxed(a.then(b))
        }
        T::And(a, b) => {
            let a = build(a, next_id, log);
            let b = build(b, next_id, log);
            boxed(a.and(b).then(PackTup))
        }
        T::MapArr(a) => {
            let a = build(a, next_id, log);
            boxed(SplitArr.then(SplitArr.map(a)).then(PackArr))
        }
        T::MapTup(a) => {
            let a = build(a, next_id, log);
            boxed(SplitTup.then(SplitTup.map(a)).then(PackTup))
        }
        T::ThenMapArr(a) => {
            let a = build(a, next_id, log);
            boxed(SplitArr.then_map(a).then(PackArr))
        }
        T::MapVec(a, n) => {
            let a = build(a, next_id, log);
            boxed(SplitVec(*n).then(SplitVec(*n).map(a)).then(PackVec))
        }
        T::Repeat(a, n) => {
            let a = build(a, next_id, log);
            match n {
                0 => boxed(a.apply_n_times::<0>().then(PackN::<0>)),
                1 => boxed(a.apply_n_times::<1>().then(PackN::<1>)),
                2 => boxed(a.apply_twice().then(PackN::<2>)),
                _ => boxed(a.apply_n_times::<3>().then(PackN::<3>)),
            }
        }
    }
}

/// Identity has Error = Infallible; give it the uniform error type
struct RenderId;
impl Composable for RenderId {}
impl Operator<V> for RenderId {
    type Output = V;
    type Error = PathErr;
    fn apply<R: Rng + ?Sized>(&self, input: V, rng: &mut R) -> Result<V, PathErr> {
        Identity.apply(input, rng).map_err(|e| match e {})
    }
}

// ------------------------------------------------------------------ CompRef

pub struct RefSt {
    pub tape: u64,
    pub log: Log,
    pub next_id: usize,
}

/// the reference interpreter; ids are assigned in the same preorder as `build`
pub fn comp_ref(t: &T, ids: &T2, input: V, st: &mut RefSt) -> Result<V, String> {
    match (t, ids) {
        (T::Probe, T2::Leaf(id)) => {
            st.tape += 1;
            let word = st.tape;
            st.log.calls.push((*id, input.clone(), word));
            let k = st.log.calls.len();
            if st.log.fail_at.contains(&k) {
                return Err(format!("probe{id}@call{k}"));
            }
            Ok(V::Node(vec![V::Leaf(*id as u64), input, V::Leaf(word)]))
        }
        (T::Identity, _) => Ok(input),
        (T::Then(a, b), T2::Two(ia, ib)) => {
            let x = comp_ref(a, ia, input, st).map_err(|e| format!("First({e})"))?;
            comp_ref(b, ib, x, st).map_err(|e| format!("Second({e})"))
        }
        (T::And(a, b), T2::Two(ia, ib)) => {
            // `and` feeds both operators the same input; the adapter PackTup follows in a Then
            let x = comp_ref(a, ia, input.clone(), st).map_err(|e| format!("First(First({e}))"))?;
            let y = comp_ref(b, ib, input, st).map_err(|e| format!("First(Second({e}))"))?;
            Ok(V::Node(vec![x, y]))
        }
        (T::MapArr(a), T2::One(ia)) | (T::MapTup(a), T2::One(ia)) | (T::ThenMapArr(a), T2::One(ia)) => {
            let mut out = vec![];
            for i in 0..2u64 {
                out.push(comp_ref(a, ia, side(i, &input), st).map_err(|e| format!("First(Second(MapError({e}, {i})))"))?);
            }
            Ok(V::Node(out))
        }
        (T::MapVec(a, n), T2::One(ia)) => {
            let mut out = vec![];
            for i in 0..*n as u64 {
                out.push(comp_ref(a, ia, side(i, &input), st).map_err(|e| format!("First(Second(MapError({e}, {i})))"))?);
            }
            Ok(V::Node(out))
        }
        (T::Repeat(a, n), T2::One(ia)) => {
            let mut out = vec![];
            for _ in 0..*n {
                // repetition adds no wrapper of its own; the packing adapter follows in a Then
                out.push(comp_ref(a, ia, input.clone(), st).map_err(|e| format!("First({e})"))?);
            }
            Ok(V::Node(out))
        }
        _ => Err("malformed tree".into()),
    }
}

/// the id assignment (preorder, same as `build`)
#[derive(Clone, Debug)]
pub enum T2 {
    Leaf(usize),
    None,
    One(Box<T2>),
    Two(Box<T2>, Box<T2>),
}
pub fn assign(t: &T, next: &mut usize) -> T2 {
    match t {
        T::Probe => {
            let id = *next;
            *next += 1;
            T2::Leaf(id)
        }
        T::Identity => T2::None,
        T::Then(a, b) | T::And(a, b) => {
            let x = assign(a, next);
            let y = assign(b, next);
            T2::Two(Box::new(x), Box::new(y))
        }
        T::MapArr(a) | T::MapTup(a) | T::ThenMapArr(a) | T::MapVec(a, _) | T::Repeat(a, _) => T2::One(Box::new(assign(a, next))),
    }
}

pub fn trees(depth: usize) -> Vec<T> {
    if depth == 0 {
        return vec![T::Probe, T::Identity];
    }
    let sub = trees(depth - 1);
    let mut out = vec![T::Probe, T::Identity];
    for a in &sub {
        out.push(T::MapArr(Box::new(a.clone())));
        out.push(T::MapTup(Box::new(a.clone())));
        out.push(T::ThenMapArr(Box::new(a.clone())));
        for n in [0usize, 1, 3] {
            out.push(T::MapVec(Box::new(a.clone()), n));
        }
        for n in 0..=3usize {
            out.push(T::Repeat(Box::new(a.clone()), n));
        }
        for b in &sub {
            out.push(T::Then(Box::new(a.clone()), Box::new(b.clone())));
            out.push(T::And(Box::new(a.clone()), Box::new(b.clone())));
        }
    }
    out.sort_by_key(|t| format!("{t:?}").len());
    out.dedup();
    out
}

fn depth_of(t: &T) -> usize {
    match t {
        T::Probe | T::Identity => 0,
        T::Then(a, b) | T::And(a, b) => 1 + depth_of(a).max(depth_of(b)),
        T::MapArr(a) | T::MapTup(a) | T::ThenMapArr(a) | T::MapVec(a, _) | T::Repeat(a, _) => 1 + depth_of(a),
    }
}

/// A deterministic stride of the depth-3 trees, built without materialising all 8.8 M of them:
/// every unary constructor over a stride of the depth-2 trees, and Then/And over a stride of the
/// ordered pairs of trees of depth <= 2 in which at least one has depth exactly 2.
/// Returns (trees, number of depth-3 trees in total).
pub fn depth3_sample(want: usize) -> (Vec<T>, u64) {
    let d2 = trees(2);
    let deep: Vec<usize> = (0..d2.len()).filter(|i| depth_of(&d2[*i]) == 2).collect();
    let n = d2.len() as u64;
    let nd = deep.len() as u64;
    let unary_total = nd * 10;
    let binary_total = 2 * (n * n - (n - nd) * (n - nd));
    let total = unary_total + binary_total;
    let mut out = vec![];
    // unary: a tenth of the budget
    let ustride = ((unary_total as usize) / (want / 10).max(1)).max(1);
    let mut k = 0usize;
    for i in &deep {
        let a = &d2[*i];
        let mut cands = vec![T::MapArr(Box::new(a.clone())), T::MapTup(Box::new(a.clone())), T::ThenMapArr(Box::new(a.clone()))];
        for m in [0usize, 1, 3] {
            cands.push(T::MapVec(Box::new(a.clone()), m));
        }
        for m in 0..=3usize {
            cands.push(T::Repeat(Box::new(a.clone()), m));
        }
        for c in cands {
            if k % ustride == 0 {
                out.push(c);
            }
            k += 1;
        }
    }
    // binary: pairs (i, j) by a stride over the index space, keeping those with a depth-2 member
    let pairs = n * n;
    let bstride = (pairs / (want as u64)).max(1) | 1; // odd, so that it walks through both coordinates
    let mut p = 0u64;
    while p < pairs {
        let (i, j) = ((p / n) as usize, (p % n) as usize);
        if depth_of(&d2[i]) == 2 || depth_of(&d2[j]) == 2 {
            out.push(T::Then(Box::new(d2[i].clone()), Box::new(d2[j].clone())));
            out.push(T::And(Box::new(d2[j].clone()), Box::new(d2[i].clone())));
        }
        p += bstride;
    }
    (out, total)
}

/// run one (tree, failure plan) on the real combinators and on CompRef
pub fn check_tree(t: &T, fail_at: &[usize]) -> (Option<(String, String)>, usize) {
    {
        let (tt, ff) = (format!("{t:?}"), fail_at.to_vec());
        mcx::watch::enter(Box::new(move |_| ("compose/hang".to_string(), format!("tree {tt} failing calls {ff:?}"), json!({"check":"C14","scenario":"tree","tree":tt,"fail_at":ff}))));
    }
    let r = check_tree_inner(t, fail_at);
    mcx::watch::leave();
    r
}
fn check_tree_inner(t: &T, fail_at: &[usize]) -> (Option<(String, String)>, usize) {
    let log = Rc::new(RefCell::new(Log { calls: vec![], fail_at: fail_at.to_vec() }));
    let mut n = 0;
    let op = build(t, &mut n, &log);
    let input = V::Leaf(7);
    let mut rng = TapeRng::default();
    let real = mcx::guarded(|| op.apply(input.clone(), &mut rng));
    let real_log = log.borrow().clone();
    let mut st = RefSt { tape: 0, log: Log { calls: vec![], fail_at: fail_at.to_vec() }, next_id: 0 };
    let mut k = 0;
    let ids = assign(t, &mut k);
    let want = comp_ref(t, &ids, input, &mut st);
    let calls = st.log.calls.len();
    let label = format!("tree {t:?} failing calls {fail_at:?}");
    let real = match real {
        Err(p) => return (Some(("compose/panic".into(), format!("{label}: panicked: {p}"))), calls),
        Ok(r) => r,
    };
    let kind = |t: &T| format!("{t:?}").split('(').next().unwrap_or("").to_string();
    // the outermost Rendered wrapper renders the whole error; strip nothing, compare as strings
    match (&real, &want) {
        (Ok(a), Ok(b)) if a == b => {}
        (Err(a), Err(b)) if a.0 == *b => {}
        _ => {
            return (
                Some((
                    format!("compose/result/{}", kind(t)),
                    format!("{label}: result {real:?}, reference {want:?}"),
                )),
                calls,
            )
        }
    }
    if real_log.calls != st.log.calls {
        return (
            Some((
                format!("compose/order/{}", kind(t)),
                format!("{label}: parts were run as {:?}, reference order {:?}", real_log.calls, st.log.calls),
            )),
            calls,
        );
    }
    if rng.pos != st.tape {
        return (
            Some((
                format!("compose/randomness/{}", kind(t)),
                format!("{label}: {} words consumed, reference {}", rng.pos, st.tape),
            )),
            calls,
        );
    }
    // the same combinator value applied a second time (fresh tape, cleared log, same failure plan) behaves
    // identically -- result, error path, order and randomness: combinators keep nothing between applications
    {
        log.borrow_mut().calls.clear();
        let mut rng2 = TapeRng::default();
        let again = mcx::guarded(|| op.apply(V::Leaf(7), &mut rng2));
        let again_log = log.borrow().clone();
        let same = match (&again, &real) {
            (Ok(Ok(a)), Ok(b)) => a == b,
            (Ok(Err(a)), Err(b)) => a.0 == b.0,
            _ => false,
        };
        if !same || again_log.calls != real_log.calls || rng2.pos != rng.pos {
            return (
                Some((
                    format!("compose/second-application/{}", kind(t)),
                    format!("{label}: applied a second time the same value gave {again:?} with parts run as {:?} ({} words); the first application gave {real:?} with {:?} ({} words)", again_log.calls, rng2.pos, real_log.calls, rng.pos),
                )),
                calls,
            );
        }
    }
    (None, calls)
}

// ------------------------------------------------------------------ wrappers

struct ProbeMutator(Rc<RefCell<Vec<u64>>>);
impl Mutator<u64> for ProbeMutator {
    type Error = PathErr;
    fn mutate<R: Rng + ?Sized>(&self, g: u64, rng: &mut R) -> Result<u64, PathErr> {
        let w = rng.next_u64();
        self.0.borrow_mut().push(g);
        if g == 13 {
            return Err(PathErr("unlucky".into()));
        }
        Ok(g.wrapping_mul(1000).wrapping_add(w))
    }
}
struct ProbeRecombinator;
impl Recombinator<[u64; 2]> for ProbeRecombinator {
    type Output = u64;
    type Error = PathErr;
    fn recombine<R: Rng + ?Sized>(&self, g: [u64; 2], rng: &mut R) -> Result<u64, PathErr> {
        let w = rng.next_u64();
        if g[0] == g[1] {
            return Err(PathErr("same".into()));
        }
        Ok(g[0].wrapping_mul(100).wrapping_add(g[1].wrapping_mul(10)).wrapping_add(w))
    }
}

fn wrappers(run: &mut Run) -> u64 {
    let mut n = 0u64;
    let mut bad = |k: &str, w: String| run.violation(format!("wrapper/{k}"), w, json!({"check":"C14","scenario":"wrapper","which":k}));
    for x in [0u64, 5, 13, u64::MAX] {
        // Identity / Constant add nothing and draw nothing
        let mut rng = TapeRng::default();
        n += 1;
        if Identity.apply(x, &mut rng) != Ok(x) || rng.pos != 0 {
            bad("identity", format!("Identity on {x} gave {:?} and consumed {} words", Identity.apply(x, &mut rng), rng.pos));
        }
        let c = Constant::new(42u8);
        n += 1;
        if c.apply(x, &mut rng) != Ok(42u8) || c.apply("other", &mut rng) != Ok(42u8) || rng.pos != 0 {
            bad("constant", format!("Constant(42) on {x}: {:?}, words {}", c.apply(x, &mut rng), rng.pos));
        }
        // GenomeExtractor
        let ind = EcIndividual::new(vec![x, 1, 2], 99i32);
        n += 1;
        if GenomeExtractor.apply(&ind, &mut rng) != Ok(vec![x, 1, 2]) || rng.pos != 0 {
            bad("genome_extractor", format!("GenomeExtractor gave {:?}", GenomeExtractor.apply(&ind, &mut rng)));
        }
        // Mutate by value and by reference == the mutator itself
        let seen = Rc::new(RefCell::new(vec![]));
        let m = ProbeMutator(seen.clone());
        let mut r0 = TapeRng::default();
        let direct = m.mutate(x, &mut r0);
        for which in 0..3 {
            let mut r1 = TapeRng::default();
            let got = match which {
                0 => Mutate::new(&m).apply(x, &mut r1),
                1 => (&m).mutate(x, &mut r1),
                _ => Mutate::new(ProbeMutator(seen.clone())).apply(x, &mut r1),
            };
            n += 1;
            if got != direct || r1.pos != r0.pos {
                bad("mutate", format!("Mutate wrapper {which} on {x}: {got:?} with {} words, mutator alone {direct:?} with {}", r1.pos, r0.pos));
            }
        }
        // Recombine
        for y in [5u64, 6] {
            let mut r0 = TapeRng::default();
            let direct = ProbeRecombinator.recombine([x, y], &mut r0);
            for which in 0..2 {
                let mut r1 = TapeRng::default();
                let got = if which == 0 { Recombine::new(ProbeRecombinator).apply([x, y], &mut r1) } else { (&&ProbeRecombinator).recombine([x, y], &mut r1) };
                n += 1;
                if got != direct || r1.pos != r0.pos {
                    bad("recombine", format!("Recombine wrapper {which} on [{x},{y}]: {got:?}, recombinator alone {direct:?}"));
                }
            }
        }
    }
    // GenomeScorer: the scorer sees exactly the genome the maker produced, once
    let scored = Rc::new(RefCell::new(Vec::<u64>::new()));
    let s2 = scored.clone();
    let scorer = ec_core::individual::scorer::FnScorer(move |g: &u64| {
        s2.borrow_mut().push(*g);
        (*g as i64) - 3
    });
    struct Maker;
    impl Composable for Maker {}
    impl<'a> Operator<&'a Vec<u8>> for Maker {
        type Output = u64;
        type Error = PathErr;
        fn apply<R: Rng + ?Sized>(&self, p: &'a Vec<u8>, rng: &mut R) -> Result<u64, PathErr> {
            if p.is_empty() {
                return Err(PathErr("empty".into()));
            }
            Ok(rng.next_u64() * 10 + p.len() as u64)
        }
    }
    let gs = GenomeScorer::new(Maker, scorer);
    for pop in [vec![], vec![1u8], vec![1u8, 2, 3]] {
        let mut rng = TapeRng { pos: 4 };
        scored.borrow_mut().clear();
        let r = gs.apply(&pop, &mut rng);
        n += 1;
        let ok = if pop.is_empty() {
            r.is_err() && scored.borrow().is_empty() && rng.pos == 4
        } else {
            let g = 50 + pop.len() as u64;
            matches!(&r, Ok(i) if i.genome == g && i.test_results == g as i64 - 3) && *scored.borrow() == vec![g] && rng.pos == 5
        };
        if !ok {
            bad("genome_scorer", format!("GenomeScorer on population {pop:?}: {:?}, scorer saw {:?}", r.map(|i| (i.genome, i.test_results)), scored.borrow()));
        }
    }
    n
}

// ---- the error a failed composition reports, through the interface generic code has: Display and the
// ---- `source()` chain of std::error::Error (that is all a caller sees once the error is boxed)

#[derive(Debug, Clone, PartialEq, Eq)]
struct LeafErr(String);
impl std::fmt::Display for LeafErr {
    fn fmt(&self, f: &mut std::fmt::Formatter<'_>) -> std::fmt::Result {
        write!(f, "{}", self.0)
    }
}
impl std::error::Error for LeafErr {}
impl miette::Diagnostic for LeafErr {}

/// passes its input on, or fails with its own name
#[derive(Clone)]
struct Part(&'static str, bool);
impl Composable for Part {}
impl Operator<u64> for Part {
    type Output = u64;
    type Error = LeafErr;
    fn apply<R: Rng + ?Sized>(&self, x: u64, _: &mut R) -> Result<u64, LeafErr> {
        if self.1 {
            Err(LeafErr(format!("part {} failed", self.0)))
        } else {
            Ok(x + 1)
        }
    }
}
#[derive(Clone)]
struct Sum2;
impl Composable for Sum2 {}
impl Operator<(u64, u64)> for Sum2 {
    type Output = u64;
    type Error = LeafErr;
    fn apply<R: Rng + ?Sized>(&self, x: (u64, u64), _: &mut R) -> Result<u64, LeafErr> {
        Ok(x.0 + x.1)
    }
}
#[derive(Clone)]
struct Dup(usize);
impl Composable for Dup {}
impl Operator<u64> for Dup {
    type Output = Vec<u64>;
    type Error = LeafErr;
    fn apply<R: Rng + ?Sized>(&self, x: u64, _: &mut R) -> Result<Vec<u64>, LeafErr> {
        Ok(vec![x; self.0])
    }
}
/// fails on the k-th element it sees
struct FailAt(std::cell::Cell<usize>, usize);
impl Composable for FailAt {}
impl Operator<u64> for FailAt {
    type Output = u64;
    type Error = LeafErr;
    fn apply<R: Rng + ?Sized>(&self, x: u64, _: &mut R) -> Result<u64, LeafErr> {
        let k = self.0.get();
        self.0.set(k + 1);
        if k == self.1 {
            Err(LeafErr(format!("element {k} failed")))
        } else {
            Ok(x)
        }
    }
}

/// the chain miette renders: `diagnostic_source()` link by link
fn diagnostic_chain_of(e: &dyn miette::Diagnostic) -> Vec<String> {
    let mut out = vec![e.to_string()];
    let mut cur = e.diagnostic_source();
    while let Some(c) = cur {
        out.push(c.to_string());
        cur = c.diagnostic_source();
        if out.len() > 32 {
            break;
        }
    }
    out
}

fn chain_of(e: &(dyn std::error::Error + 'static)) -> Vec<String> {
    let mut out = vec![e.to_string()];
    let mut cur = e.source();
    while let Some(c) = cur {
        out.push(c.to_string());
        cur = c.source();
        if out.len() > 32 {
            break;
        }
    }
    out
}

/// draws one word, returns (input, word); fails at its k-th call
struct Draw(Rc<std::cell::Cell<usize>>, usize);
impl Composable for Draw {}
impl Operator<u64> for Draw {
    type Output = (u64, u64);
    type Error = LeafErr;
    fn apply<R: Rng + ?Sized>(&self, x: u64, rng: &mut R) -> Result<(u64, u64), LeafErr> {
        let w = rng.next_u64();
        let k = self.0.get();
        self.0.set(k + 1);
        if k == self.1 {
            Err(LeafErr(format!("application {k} failed")))
        } else {
            Ok((x, w))
        }
    }
}

/// `apply_n_times::<N>()` for larger N than the composition trees use: N results, each made from a copy of the
/// input, the words drawn left to right; a failure at application j stops after exactly j + 1 applications.
fn repeats(run: &mut Run) -> u64 {
    let mut n = 0u64;
    macro_rules! rep {
        ($($N:literal),*) => {$(
            for fail in [usize::MAX, 0, $N / 2, $N - 1] {
                if fail != usize::MAX && fail >= $N {
                    continue;
                }
                n += 1;
                let counter = Rc::new(std::cell::Cell::new(0usize));
                let op = Draw(counter.clone(), fail);
                let mut rng = TapeRng::default();
                let r = mcx::guarded(|| op.apply_n_times::<$N>().apply(7u64, &mut rng));
                let calls = counter.get();
                let what = match r {
                    Err(p) => Some(format!("panicked: {p}")),
                    Ok(Ok(out)) => {
                        if fail != usize::MAX {
                            Some(format!("succeeded although application {fail} fails"))
                        } else if out.len() != $N || out.iter().enumerate().any(|(i, (x, w))| *x != 7 || *w != i as u64 + 1) {
                            Some(format!("the results are not (input, i-th word) for i = 1..={}: first entries {:?}", $N, &out[..out.len().min(4)]))
                        } else if calls != $N || rng.pos != $N as u64 {
                            Some(format!("{calls} applications, {} words drawn", rng.pos))
                        } else {
                            None
                        }
                    }
                    Ok(Err(e)) => {
                        if fail == usize::MAX {
                            Some(format!("failed with {e}"))
                        } else if e.0 != format!("application {fail} failed") || calls != fail + 1 || rng.pos != fail as u64 + 1 {
                            Some(format!("error {e:?} after {calls} applications and {} words; application {fail} fails, so {} applications and words are due", rng.pos, fail + 1))
                        } else {
                            None
                        }
                    }
                };
                if let Some(w) = what {
                    run.violation(format!("compose/repeat/{}", $N), format!("apply_n_times::<{}>() with failing application {}: {w}", $N, if fail == usize::MAX { "none".to_string() } else { fail.to_string() }), json!({"check":"C14","scenario":"repeat"}));
                }
            }
        )*};
    }
    rep!(1, 2, 3, 4, 7, 8, 15, 16, 17, 31, 32, 33, 63, 64, 65, 100, 255, 256, 257, 1000);
    n
}

/// a stage that draws `n` bytes through `fill_bytes` (a generator's byte interface is part of the shared
/// stream: what a stage consumes there decides what the stages after it see) and then one word
struct ByteStage(usize);
impl Composable for ByteStage {}
impl Operator<u64> for ByteStage {
    type Output = u64;
    type Error = LeafErr;
    fn apply<R: Rng + ?Sized>(&self, x: u64, rng: &mut R) -> Result<u64, LeafErr> {
        let mut buf = vec![0u8; self.0];
        rng.fill_bytes(&mut buf);
        let sum: u64 = buf.iter().map(|b| *b as u64).sum();
        Ok(x.wrapping_mul(31).wrapping_add(sum).wrapping_mul(31).wrapping_add(rng.next_u64()))
    }
}

/// Compositions containing a byte-drawing stage, plain and with that stage (or the whole composition) behind
/// the type-erased forms, on the position-counting tape and on a generator whose byte interface is not its
/// word interface: same value, same final stream position.
fn byte_draws(run: &mut Run) -> u64 {
    /// words count 1, 2, 3, ...; bytes come from a separate counter and cost one position each
    #[derive(Default, Clone)]
    struct SplitRng {
        words: u64,
        bytes: u64,
    }
    impl rand::RngCore for SplitRng {
        fn next_u32(&mut self) -> u32 {
            self.words += 1;
            (self.words * 7) as u32
        }
        fn next_u64(&mut self) -> u64 {
            self.words += 1;
            self.words * 1_000_003
        }
        fn fill_bytes(&mut self, dst: &mut [u8]) {
            for b in dst {
                self.bytes += 1;
                *b = (self.bytes * 13) as u8;
            }
        }
    }
    let mut n = 0u64;
    for len in [0usize, 1, 2, 3, 4, 5, 7, 8, 9, 12, 13, 16, 17, 31, 33, 64, 65] {
        n += 1;
        let run_all = |which: usize| -> (Vec<Result<u64, String>>, (u64, u64, u64)) {
            let mut tape = TapeRng::default();
            let mut split = SplitRng::default();
            let mut out = vec![];
            macro_rules! go {
                ($op:expr) => {{
                    let op = $op;
                    out.push(op.apply(5u64, &mut tape).map_err(|_| "failed".to_string()));
                    out.push(op.apply(5u64, &mut split).map_err(|_| "failed".to_string()));
                }};
            }
            match which {
                // plain
                0 => go!(ByteStage(len).then(Part("g", false)).then(ByteStage(3))),
                // the byte-drawing stage boxed
                1 => {
                    let b: Box<dyn DynOperator<u64, LeafErr, Output = u64>> = Box::new(ByteStage(len));
                    go!(b.then(Part("g", false)).then(ByteStage(3)))
                }
                // the whole composition behind Arc<dyn ..>
                2 => {
                    let a: std::sync::Arc<dyn DynOperator<u64, Output = u64>> = std::sync::Arc::new(ByteStage(len).then(Part("g", false)).then(ByteStage(3)));
                    go!(a)
                }
                // behind a reference to the erased form, with the default boxed error
                _ => {
                    let inner = ByteStage(len).then(Part("g", false)).then(ByteStage(3));
                    let r: &dyn DynOperator<u64, Output = u64> = &inner;
                    go!(r)
                }
            }
            (out, (tape.pos, split.words, split.bytes))
        };
        let plain = run_all(0);
        for which in 1..=3 {
            let other = run_all(which);
            if other != plain {
                run.violation(
                    "compose/erased-byte-draws".to_string(),
                    format!("a stage drawing {len} bytes, then a word-drawing stage, then a stage drawing 3 bytes: plain composition gives {:?} leaving the generators at {:?}; with {} it gives {:?} at {:?} (tape position; words, bytes of the split generator)", plain.0, plain.1, ["", "the first stage boxed", "the composition behind Arc<dyn DynOperator>", "the composition behind &dyn DynOperator"][which], other.0, other.1),
                    json!({"check":"C14","scenario":"byte-draws"}),
                );
                break;
            }
        }
    }
    n
}
/// fails at its k-th application; input of a zero-sized type, output a word
struct UnitStage(Rc<std::cell::Cell<usize>>, usize);
impl Composable for UnitStage {}
impl Operator<()> for UnitStage {
    type Output = u64;
    type Error = LeafErr;
    fn apply<R: Rng + ?Sized>(&self, _: (), rng: &mut R) -> Result<u64, LeafErr> {
        let k = self.0.get();
        self.0.set(k + 1);
        if k == self.1 {
            Err(LeafErr(format!("element {k} failed")))
        } else {
            Ok(rng.next_u64())
        }
    }
}

/// Mapping over vectors as long as a vector can be (elements of a zero-sized type cost nothing): the map stops
/// at the first failing element, names it, and has applied the operator to exactly the elements before it.
fn huge_maps(run: &mut Run) -> u64 {
    let mut n = 0u64;
    // (lengths at which a buffer of sized outputs cannot even be requested: a request that could be attempted and
    // refused would abort the process instead of panicking)
    for len in [1usize << 61, usize::MAX / 3, usize::MAX] {
        for fail in [0usize, 1, 5] {
            n += 1;
            let counter = Rc::new(std::cell::Cell::new(0usize));
            let mut rng = TapeRng::default();
            let mut v: Vec<()> = Vec::new();
            unsafe { v.set_len(len) };
            let op = UnitStage(counter.clone(), fail);
            let r = mcx::guarded(|| Part("unused", false).map(op).apply(v, &mut rng).map(|out| out.len()).map_err(|e| format!("{e:?}")));
            let what = match r {
                Err(p) => Some(format!("panicked: {p}")),
                Ok(Ok(l)) => Some(format!("succeeded with {l} results although element {fail} fails")),
                Ok(Err(e)) => {
                    let named = e.contains(&format!("element {fail} failed")) && e.trim_end_matches(')').ends_with(&format!(", {fail}"));
                    if !named || counter.get() != fail + 1 || rng.pos != fail as u64 {
                        Some(format!("error {e} after {} applications and {} words; element {fail} fails, so {} applications and {fail} words are due and the error names element {fail}", counter.get(), rng.pos, fail + 1))
                    } else {
                        None
                    }
                }
            };
            if let Some(w) = what {
                run.violation("compose/huge-map".to_string(), format!("map over a vector of {len} zero-sized elements, element {fail} failing: {w}"), json!({"check":"C14","scenario":"huge-map"}));
            }
        }
    }
    n
}

/// For compositions whose failing part sits at nesting depth d: the chain of `source()` from the reported
/// error has d + 1 links and ends at the failing part's own error; every link has a non-empty message; the
/// same through `Box<dyn Error>`.
fn error_chains(run: &mut Run) -> u64 {
    let mut n = 0u64;
    let mut rng = TapeRng::default();
    let mut judge = |run: &mut Run, name: &str, r: Result<(), (Box<dyn std::error::Error + 'static>, Option<Vec<String>>)>, depth: usize, root: &str| {
        n += 1;
        let what = match r {
            Ok(()) => Some("the composition succeeded although a part failed".to_string()),
            Err((e, diag)) => {
                let chain = chain_of(e.as_ref());
                if let Some(d) = &diag {
                    if *d != chain {
                        run.violation(format!("compose/diagnostic-chain/{}", name.split(' ').next().unwrap_or(name)), format!("{name}: the diagnostic chain (diagnostic_source(), what a miette report shows) is {d:?}, the source() chain is {chain:?}: the report does not show which part failed"), json!({"check":"C14","scenario":"error-chain","case":name}));
                    }
                }
                if chain.last().map(String::as_str) != Some(root) {
                    Some(format!("following source() from the reported error gives {chain:?}; it does not end at the failing part's error {root:?}"))
                } else if chain.len() != depth + 1 {
                    Some(format!("following source() from the reported error gives {} links {chain:?}, the failing part sits at depth {depth}", chain.len()))
                } else if chain.iter().any(|m| m.trim().is_empty()) {
                    Some(format!("an error of the chain has an empty message: {chain:?}"))
                } else {
                    None
                }
            }
        };
        if let Some(w) = what {
            run.violation(format!("compose/error-chain/{}", name.split(' ').next().unwrap_or(name)), format!("{name}: {w}"), json!({"check":"C14","scenario":"error-chain","case":name}));
        }
    };
    let ok = |n: &'static str| Part(n, false);
    let bad = |n: &'static str| Part(n, true);
    fn b<T, E: std::error::Error + miette::Diagnostic + 'static>(r: Result<T, E>) -> Result<(), (Box<dyn std::error::Error + 'static>, Option<Vec<String>>)> {
        r.map(|_| ()).map_err(|e| {
            let d = diagnostic_chain_of(&e);
            (Box::new(e) as Box<dyn std::error::Error + 'static>, Some(d))
        })
    }
    judge(run, "then first", b(bad("f").then(ok("g")).apply(1, &mut rng)), 1, "part f failed");
    judge(run, "then second", b(ok("f").then(bad("g")).apply(1, &mut rng)), 1, "part g failed");
    judge(run, "and first", b(bad("f").and(ok("g")).apply(1, &mut rng)), 1, "part f failed");
    judge(run, "and second", b(ok("f").and(bad("g")).apply(1, &mut rng)), 1, "part g failed");
    judge(run, "and second, nested then second", b(ok("f").and(ok("g").then(bad("h"))).apply(1, &mut rng)), 2, "part h failed");
    judge(run, "and first, nested then first", b(bad("f").then(ok("g")).and(ok("h")).apply(1, &mut rng)), 2, "part f failed");
    judge(run, "then second, nested and second, nested then first", b(ok("e").then(ok("f").and(bad("g").then(ok("h"))).then(Sum2)).apply(1, &mut rng)), 4, "part g failed");
    judge(run, "and second inside and second", b(ok("f").and(ok("g").and(bad("h"))).apply(1, &mut rng)), 2, "part h failed");
    judge(run, "and first inside and first", b(bad("f").and(ok("g")).and(ok("h")).apply(1, &mut rng)), 2, "part f failed");
    for (len, at) in [(1usize, 0usize), (3, 0), (3, 2), (300, 257)] {
        judge(run, &format!("map vec of {len} failing at {at}"), b(Dup(len).then_map(FailAt(std::cell::Cell::new(0), at)).apply(1, &mut rng)), 2, &format!("element {at} failed"));
    }
    judge(run, "map pair second", b(ok("f").and(ok("g")).then_map(FailAt(std::cell::Cell::new(0), 1)).apply(1, &mut rng)), 2, "element 1 failed");
    judge(run, "repeat second application", b(FailAt(std::cell::Cell::new(0), 1).apply_n_times::<3>().apply(1, &mut rng)), 0, "element 1 failed");
    judge(run, "repeat inside and second", b(ok("f").and(FailAt(std::cell::Cell::new(0), 2).apply_n_times::<3>()).apply(1, &mut rng)), 1, "element 2 failed");
    // through the erased layer the error is boxed: the chain is all that is left
    {
        let op: Box<dyn DynOperator<u64, Output = (u64, u64)>> = Box::new(ok("f").and(ok("g").then(bad("h"))));
        let r = op.apply(1, &mut rng).map(|_| ()).map_err(|e| -> (Box<dyn std::error::Error + 'static>, Option<Vec<String>>) { (e, None) });
        judge(run, "boxed: and second, nested then second", r, 2, "part h failed");
    }
    n
}

pub fn run(run: &mut Run) {
    let depth = 3;
    // every tree up to depth 2 and a deterministic stride of the depth-3 trees
    let mut ts = trees(2);
    {
        let want = if run.quick() { 20_000 } else { 4_000_000 };
        let (extra, total) = depth3_sample(want);
        run.bound("depth3_trees_explored", json!(extra.len()));
        run.cap_hit(format!("depth-3 trees: {} of {total} explored (deterministic stride); depth <= 2 complete", extra.len()));
        ts.extend(extra);
    }
    // every tree builds its own probes (Rc-based, thread-local by construction): trees are sharded over the cores
    let per_tree = mcx::par_map(ts.len(), |i| {
        let t = &ts[i];
        let mut plans_run = 0u64;
        let mut viols: Vec<(String, String, Value)> = vec![];
        let (v, calls) = check_tree(t, &[]);
        plans_run += 1;
        let mut plans: Vec<Vec<usize>> = (1..=calls).map(|j| vec![j]).collect();
        if calls <= 12 {
            for j in 1..=calls {
                for k in j + 1..=calls {
                    plans.push(vec![j, k]);
                }
            }
        }
        if let Some((k, w)) = v {
            viols.push((k, w, json!({"check":"C14","scenario":"tree","tree":format!("{t:?}"),"fail_at":[]})));
        }
        for p in plans {
            plans_run += 1;
            if let (Some((k, w)), _) = check_tree(t, &p) {
                if viols.len() < 5 {
                    viols.push((k, w, json!({"check":"C14","scenario":"tree","tree":format!("{t:?}"),"fail_at":p})));
                }
            }
        }
        (plans_run, calls > 1, viols)
    });
    // long vectors under `map` (and inside then / and): an element index or counter narrower than usize
    // would wrap at 2^8 or 2^16; failures at the positions around those marks and at the ends
    let long_lens: Vec<usize> = if run.quick() { vec![255, 256, 257, 1009, 65535, 65536, 65537, 70001] } else { vec![127, 128, 129, 255, 256, 257, 1009, 4099, 65535, 65536, 65537, 70001, 131101] };
    let mut long_jobs: Vec<(T, Vec<usize>)> = vec![];
    for &n in &long_lens {
        let shapes = vec![
            T::MapVec(Box::new(T::Probe), n),
            T::Then(Box::new(T::Probe), Box::new(T::MapVec(Box::new(T::Probe), n))),
            T::And(Box::new(T::MapVec(Box::new(T::Probe), n)), Box::new(T::Probe)),
        ];
        for (si, t) in shapes.into_iter().enumerate() {
            let offset = if si == 1 { 1 } else { 0 }; // calls made before the map starts
            let mut plans: Vec<Vec<usize>> = vec![vec![]];
            for pos in [1usize, 2, 255, 256, 257, 258, 65535, 65536, 65537, 65538, n - 1, n] {
                if pos >= 1 && pos <= n {
                    plans.push(vec![pos + offset]);
                }
            }
            plans.sort();
            plans.dedup();
            for p in plans {
                long_jobs.push((t.clone(), p));
            }
        }
    }
    let long_results = mcx::par_map(long_jobs.len(), |i| check_tree(&long_jobs[i].0, &long_jobs[i].1).0.map(|(k, w)| (k, w.chars().take(600).collect::<String>())));
    let mut viols: Vec<(String, String, Value)> = vec![];
    for (i, r) in long_results.into_iter().enumerate() {
        if let Some((k, w)) = r {
            viols.push((format!("{k}/long"), w, json!({"check":"C14","scenario":"tree","tree":format!("{:?}", long_jobs[i].0),"fail_at":long_jobs[i].1})));
        }
    }
    run.bound("long_map_lengths", json!(long_lens));
    let long_n = long_jobs.len() as u64;
    let mut total_plans = long_n;
    let mut nontrivial = 0u64;
    for (p, nt, v) in per_tree {
        total_plans += p;
        if nt {
            nontrivial += 1;
        }
        for x in v {
            if viols.len() < 200 {
                viols.push(x);
            }
        }
    }
    for (k, w, r) in viols {
        run.violation(k, w, r);
    }
    let w = wrappers(run) + error_chains(run) + repeats(run) + byte_draws(run) + huge_maps(run);
    run.states = ts.len() as u64;
    run.evaluations = total_plans + w;
    run.transitions = run.evaluations;
    run.traces_validated = run.evaluations;
    run.distinct_nontrivial = nontrivial;
    run.rule = "all composition trees up to the depth bound over {probe, Identity, then, and, map over [T;2] / (T,T) / Vec (0,1,3 elements), then_map, apply_n_times 0..3 / apply_twice}, built from the real combinators and boxed through the erased layer; failure plans: none, every single probe call, every pair of calls; value, error path, probe log (order, inputs, words) and tape position compared with CompRef; plus map over vectors of 255..70001 (131101) elements with failures around positions 2^8, 2^16 and at the ends; non-trivial = trees with more than one probe call".into();
    run.bound("max_depth", json!(depth));
    run.bound("trees", json!(ts.len()));
    run.bound("failure_deviation_bound", json!(2));
    run.assumptions = vec!["CompRef is the meaning of then/and/map/repeat; error paths are compared through the derived Debug of ThenError/AndError/MapError".into()];
    run.sample(json!({"tree":"Then(And(Probe, Probe), MapVec(Probe, 3))","fail_at":[4],"expected":"Second(...MapError(probe2@call4, 1)...), calls 1..4 logged, tape at 4"}));
    run.sample(json!({"tree":"Repeat(Probe, 3)","fail_at":[],"expected":"three calls on clones of the input, words 1,2,3"}));
}

fn parse_tree(s: &str) -> Option<T> {
    // inverse of the derived Debug (small recursive descent)
    fn go(s: &str) -> Option<(T, &str)> {
        let s = s.trim_start();
        if let Some(r) = s.strip_prefix("Probe") {
            return Some((T::Probe, r));
        }
        if let Some(r) = s.strip_prefix("Identity") {
            return Some((T::Identity, r));
        }
        for (name, arity, num) in [("ThenMapArr", 1, false), ("Then", 2, false), ("And", 2, false), ("MapArr", 1, false), ("MapTup", 1, false), ("MapVec", 1, true), ("Repeat", 1, true)] {
            if let Some(r) = s.strip_prefix(name).and_then(|r| r.strip_prefix('(')) {
                let (a, r) = go(r)?;
                if arity == 2 {
                    let r = r.trim_start().strip_prefix(',')?;
                    let (b, r) = go(r)?;
                    let r = r.trim_start().strip_prefix(')')?;
                    return Some((if name == "Then" { T::Then(Box::new(a), Box::new(b)) } else { T::And(Box::new(a), Box::new(b)) }, r));
                }
                if num {
                    let r = r.trim_start().strip_prefix(',')?.trim_start();
                    let end = r.find(')')?;
                    let n: usize = r[..end].trim().parse().ok()?;
                    let r = &r[end + 1..];
                    return Some((if name == "MapVec" { T::MapVec(Box::new(a), n) } else { T::Repeat(Box::new(a), n) }, r));
                }
                let r = r.trim_start().strip_prefix(')')?;
                return Some((
                    match name {
                        "MapArr" => T::MapArr(Box::new(a)),
                        "MapTup" => T::MapTup(Box::new(a)),
                        _ => T::ThenMapArr(Box::new(a)),
                    },
                    r,
                ));
            }
        }
        None
    }
    go(s).map(|x| x.0)
}

pub fn replay(v: &Value) -> bool {
    if v["scenario"] == json!("wrapper") {
        let mut r = Run::new("C14", "quick");
        wrappers(&mut r);
        let n = r.violations.lock().unwrap().len();
        println!("wrapper checks: {n} violations");
        return n == 0;
    }
    if v["scenario"] == json!("error-chain") || v["scenario"] == json!("repeat") || v["scenario"] == json!("byte-draws") || v["scenario"] == json!("huge-map") {
        let mut r = Run::new("C14", "quick");
        huge_maps(&mut r);
        error_chains(&mut r);
        repeats(&mut r);
        byte_draws(&mut r);
        let g = r.violations.lock().unwrap();
        for (k, x) in g.iter() {
            println!("MISMATCH [{k}]: {}", x.what);
        }
        println!("error chains: {} violations", g.len());
        return g.is_empty();
    }
    let Some(t) = parse_tree(v["tree"].as_str().unwrap_or("")) else {
        println!("cannot parse tree");
        return false;
    };
    let fail: Vec<usize> = v["fail_at"].as_array().map(|a| a.iter().filter_map(|x| x.as_u64().map(|y| y as usize)).collect()).unwrap_or_default();
    let (viol, calls) = check_tree(&t, &fail);
    println!("tree {t:?}, failing calls {fail:?}: {calls} reference calls");
    match viol {
        Some((k, w)) => {
            println!("MISMATCH [{k}]: {w}");
            false
        }
        None => {
            println!("replay: property held");
            true
        }
    }
}
