//! C18 — generators deliver exactly the requested collections and uniform
//! member choices.  Engine E1, exact laws.

use ec_core::distributions::choices::ChoicesDistribution;
use ec_core::distributions::collection::{ConvertToCollectionGenerator, Generator};
use ec_core::distributions::conversion::{IntoDistribution, ToDistribution};
use ec_core::distributions::wrappers::choose_cloning::ChooseCloning;
use ec_core::distributions::wrappers::owned::OneOfCloning;
use ec_core::individual::ec::{EcIndividual, WithScorer};
use ec_core::uniform_distribution_of;
use ec_linear::genome::bitstring::Bitstring;
use mcx::{explore, Alphabet, ChoiceRng, Env, Law, Ratio, Run};
use push::genome::plushy::{Plushy, PushGene};
use push::instruction::PushInstruction;
use rand::distr::Distribution;
use rand::Rng;
use serde_json::{json, Value};
use std::cell::Cell;

/// element generator that numbers its products and draws one word for each
struct Tape {
    n: Cell<u64>,
}
impl Distribution<u64> for Tape {
    fn sample<R: Rng + ?Sized>(&self, rng: &mut R) -> u64 {
        let _ = rng.next_u32();
        let k = self.n.get();
        self.n.set(k + 1);
        k
    }
}
impl Distribution<bool> for Tape {
    fn sample<R: Rng + ?Sized>(&self, rng: &mut R) -> bool {
        let _ = rng.next_u32();
        let k = self.n.get();
        self.n.set(k + 1);
        k % 3 == 0
    }
}
impl Distribution<PushGene> for Tape {
    fn sample<R: Rng + ?Sized>(&self, rng: &mut R) -> PushGene {
        let _ = rng.next_u32();
        let k = self.n.get();
        self.n.set(k + 1);
        PushGene::Instruction(PushInstruction::push_int(k as i64))
    }
}

pub const FLAVOURS: [&str; 16] = [
    "Vec.into_distribution (OneOfCloning)",
    "&Vec.into_distribution -> &T (Choose)",
    "&Vec.into_distribution -> T (ChooseCloning)",
    "Vec.to_distribution -> T (ChooseCloning)",
    "Vec.to_distribution -> &T (Choose)",
    "[T;N].into_distribution (OneOfCloning)",
    "&[T;N].into_distribution -> &T (Choose)",
    "&[T;N].into_distribution -> T (ChooseCloning)",
    "[T;N].to_distribution -> T (ChooseCloning)",
    "[T;N].to_distribution -> &T (Choose)",
    "&[T].into_distribution -> &T (Choose)",
    "&[T].into_distribution -> T (ChooseCloning)",
    "[T].to_distribution -> &T (Choose)",
    "[T].to_distribution -> T (ChooseCloning)",
    "OneOfCloning::new / ChooseCloning::new",
    "uniform_distribution_of!",
];

#[derive(Clone, Debug, PartialEq, Eq, PartialOrd, Ord)]
pub enum Pick {
    /// index of the chosen member; `by_ref` flavours also assert the reference points into the source
    Member(usize),
    /// two consecutive samples from one distribution value
    Two(usize, usize),
    /// many consecutive samples from one distribution value
    Many(Vec<usize>),
    NotAMember,
    ConstructionError,
    WrongNumChoices(usize),
    RefOutsideSource,
    Panic(String),
}

fn arr<const N: usize>() -> [u32; N] {
    let mut a = [0u32; N];
    for (i, x) in a.iter_mut().enumerate() {
        *x = 100 + i as u32;
    }
    a
}

fn judge_val(src: &[u32], v: u32) -> Pick {
    src.iter().position(|x| *x == v).map(Pick::Member).unwrap_or(Pick::NotAMember)
}
fn judge_ref(src: &[u32], r: &u32) -> Pick {
    match src.iter().position(|x| std::ptr::eq(x, r)) {
        Some(i) => Pick::Member(i),
        None => Pick::RefOutsideSource,
    }
}

thread_local! {
    /// sample every distribution value twice (joint law of consecutive samples)
    static TWICE: Cell<bool> = const { Cell::new(false) };
    /// sample every distribution value this many times (0 = off)
    static MANY: Cell<usize> = const { Cell::new(0) };
}

macro_rules! sample_val {
    ($d:expr, $src:expr, $rng:expr, $n:expr) => {{
        match $d {
            Ok(d) => {
                if ChoicesDistribution::num_choices(&d).get() != $n {
                    Pick::WrongNumChoices(ChoicesDistribution::num_choices(&d).get())
                } else if MANY.with(|t| t.get()) > 0 {
                    let mut out = vec![];
                    let mut bad = None;
                    for _ in 0..MANY.with(|t| t.get()) {
                        let v: u32 = d.sample($rng);
                        match judge_val($src, v) {
                            Pick::Member(i) => out.push(i),
                            other => bad = Some(other),
                        }
                    }
                    bad.unwrap_or(Pick::Many(out))
                } else if TWICE.with(|t| t.get()) {
                    let v: u32 = d.sample($rng);
                    let w: u32 = d.sample($rng);
                    match (judge_val($src, v), judge_val($src, w)) {
                        (Pick::Member(a), Pick::Member(b)) => Pick::Two(a, b),
                        (Pick::Member(_), other) | (other, _) => other,
                    }
                } else {
                    let v: u32 = d.sample($rng);
                    judge_val($src, v)
                }
            }
            Err(_) => Pick::ConstructionError,
        }
    }};
}
macro_rules! sample_ref {
    ($d:expr, $src:expr, $rng:expr, $n:expr) => {{
        match $d {
            Ok(d) => {
                if ChoicesDistribution::num_choices(&d).get() != $n {
                    Pick::WrongNumChoices(ChoicesDistribution::num_choices(&d).get())
                } else if MANY.with(|t| t.get()) > 0 {
                    let mut out = vec![];
                    let mut bad = None;
                    for _ in 0..MANY.with(|t| t.get()) {
                        let v: &u32 = d.sample($rng);
                        match judge_ref($src, v) {
                            Pick::Member(i) => out.push(i),
                            other => bad = Some(other),
                        }
                    }
                    bad.unwrap_or(Pick::Many(out))
                } else if TWICE.with(|t| t.get()) {
                    let v: &u32 = d.sample($rng);
                    let w: &u32 = d.sample($rng);
                    match (judge_ref($src, v), judge_ref($src, w)) {
                        (Pick::Member(a), Pick::Member(b)) => Pick::Two(a, b),
                        (Pick::Member(_), other) | (other, _) => other,
                    }
                } else {
                    let v: &u32 = d.sample($rng);
                    judge_ref($src, v)
                }
            }
            Err(_) => Pick::ConstructionError,
        }
    }};
}

fn with_array<const N: usize>(flavour: usize, rng: &mut ChoiceRng) -> Pick {
    let a: [u32; N] = arr::<N>();
    let src: Vec<u32> = a.to_vec();
    match flavour {
        5 => sample_val!(IntoDistribution::<u32>::into_distribution(a), &src, rng, N),
        6 => sample_ref!(IntoDistribution::<&u32>::into_distribution(&a), &a, rng, N),
        7 => sample_val!(IntoDistribution::<u32>::into_distribution(&a), &src, rng, N),
        8 => sample_val!(ToDistribution::<u32>::to_distribution(&a), &src, rng, N),
        9 => sample_ref!(ToDistribution::<&u32>::to_distribution(&a), &a, rng, N),
        _ => unreachable!(),
    }
}

pub fn pick_once(flavour: usize, n: usize, env: &mut Env, alpha: Alphabet) -> Pick {
    let mut rng = ChoiceRng::new(env, alpha);
    let src: Vec<u32> = (0..n as u32).map(|i| 100 + i).collect();
    let r = mcx::guarded(|| match flavour {
        0 => sample_val!(IntoDistribution::<u32>::into_distribution(src.clone()), &src, &mut rng, n),
        1 => sample_ref!(IntoDistribution::<&u32>::into_distribution(&src), &src, &mut rng, n),
        2 => sample_val!(IntoDistribution::<u32>::into_distribution(&src), &src, &mut rng, n),
        3 => sample_val!(ToDistribution::<u32>::to_distribution(&src), &src, &mut rng, n),
        4 => sample_ref!(ToDistribution::<&u32>::to_distribution(&src), &src, &mut rng, n),
        5..=9 => match n {
            0 => with_array::<0>(flavour, &mut rng),
            1 => with_array::<1>(flavour, &mut rng),
            2 => with_array::<2>(flavour, &mut rng),
            3 => with_array::<3>(flavour, &mut rng),
            4 => with_array::<4>(flavour, &mut rng),
            5 => with_array::<5>(flavour, &mut rng),
            _ => with_array::<6>(flavour, &mut rng),
        },
        10 => sample_ref!(IntoDistribution::<&u32>::into_distribution(&src[..]), &src, &mut rng, n),
        11 => sample_val!(IntoDistribution::<u32>::into_distribution(&src[..]), &src, &mut rng, n),
        12 => sample_ref!(ToDistribution::<&u32>::to_distribution(&src[..]), &src, &mut rng, n),
        13 => sample_val!(ToDistribution::<u32>::to_distribution(&src[..]), &src, &mut rng, n),
        14 => {
            // direct constructors, both must agree
            let a = sample_val!(OneOfCloning::<Vec<u32>, u32>::new(src.clone()), &src, &mut rng, n);
            if matches!(a, Pick::ConstructionError) {
                match ChooseCloning::new(&src[..]) {
                    Ok(_) => Pick::NotAMember,
                    Err(_) => Pick::ConstructionError,
                }
            } else {
                a
            }
        }
        _ => {
            // the macro needs at least one item by construction
            match n {
                1 => judge_val(&src, uniform_distribution_of![100u32].sample(&mut rng)),
                2 => judge_val(&src, uniform_distribution_of![100u32, 101u32].sample(&mut rng)),
                3 => judge_val(&src, uniform_distribution_of![<u32> 100u8, 101u8, 102u8].sample(&mut rng)),
                4 => judge_val(&src, uniform_distribution_of![100u32, 101u32, 102u32, 103u32].sample(&mut rng)),
                5 => judge_val(&src, uniform_distribution_of![<u32> 100u16, 101u16, 102u16, 103u16, 104u16].sample(&mut rng)),
                6 => judge_val(&src, uniform_distribution_of![100u32, 101, 102, 103, 104, 105].sample(&mut rng)),
                _ => Pick::ConstructionError,
            }
        }
    });
    r.unwrap_or_else(Pick::Panic)
}

fn choice_case(flavour: usize, n: usize) -> (u64, u64, Option<(String, String)>, usize) {
    let label = format!("{} on {n} members", FLAVOURS[flavour]);
    let mut law: Law<Pick> = Law::new();
    // Grid(60) resolves every size up to 6; larger sources get the grid of their own size
    let grid = if n <= 6 { 60 } else { n as u32 };
    let st = explore(|env| pick_once(flavour, n, env, Alphabet::Grid(grid)), |_, w, p| law.add(p, w), 1_000_000);
    // membership on every stream, including the extreme words (rand's rejection loop never accepts the
    // all-zero word, so the tree is cut at a short horizon; leaves beyond it are still judged)
    if n >= 1 {
        let mut bad: Option<Pick> = None;
        let st2 = explore(
            |env| {
                env.horizon = 5;
                pick_once(flavour, n, env, Alphabet::Ext(2))
            },
            |_, _, p| {
                if !matches!(p, Pick::Member(_)) && bad.is_none() {
                    bad = Some(p);
                }
            },
            100_000,
        );
        if let Some(p) = bad {
            return (st.leaves + st2.leaves, st.choice_points, Some((format!("choice/{flavour}/result"), format!("{label}: on a stream with extreme words the result was {p:?}, not a member"))), 0);
        }
    }
    let key = format!("choice/{}", flavour);
    if let Some(d) = &st.diverged {
        return (st.leaves, st.choice_points, Some((format!("{key}/nondeterministic"), format!("{label}: {d}"))), 0);
    }
    if st.capped || !st.total_weight_is_one {
        return (st.leaves, st.choice_points, Some(("machinery/cap".into(), format!("{label}: capped"))), 0);
    }
    // two consecutive samples from one distribution value are independent: the joint law is the product
    if (1..=4).contains(&n) && flavour != 15 && flavour != 14 {
        let mut law2: Law<Pick> = Law::new();
        TWICE.with(|t| t.set(true));
        let st2 = explore(|env| pick_once(flavour, n, env, Alphabet::Grid(12)), |_, w, p| law2.add(p, w), 1_000_000);
        TWICE.with(|t| t.set(false));
        let mut want2: Law<Pick> = Law::new();
        for i in 0..n {
            for j in 0..n {
                want2.add(Pick::Two(i, j), Ratio::new(1, (n * n) as u128));
            }
        }
        if !st2.capped && st2.total_weight_is_one && st2.diverged.is_none() && law2 != want2 {
            return (st.leaves + st2.leaves, st.choice_points, Some((format!("choice/{flavour}/law-of-two"), format!("{label}: two consecutive samples have the joint law {} but independent uniform choices give {}", law2.render(), want2.render()))), law2.mass.len());
        }
    }
    // many consecutive samples from one distribution value (a pooled or cached source of bits would run
    // out or go stale at some later sample): every stream with at most one non-default word; every one
    // of the K samples must be able to yield every member
    if (2..=5).contains(&n) && flavour != 15 && flavour != 14 {
        const K: usize = 70;
        let mut seen = vec![vec![false; n]; K];
        let mut bad: Option<Pick> = None;
        MANY.with(|t| t.set(K));
        let st3 = mcx::explore_bounded(
            |env| pick_once(flavour, n, env, Alphabet::Grid(60)),
            |_, p| match p {
                Pick::Many(v) => {
                    for (k, i) in v.iter().enumerate().take(K) {
                        seen[k][*i] = true;
                    }
                }
                other => bad = Some(other),
            },
            1,
            200_000,
        );
        MANY.with(|t| t.set(0));
        if let Some(p) = bad {
            return (st.leaves + st3.leaves, st.choice_points, Some((format!("choice/{flavour}/result"), format!("{label}: among {K} consecutive samples from one distribution value: {p:?}"))), 0);
        }
        if !st3.capped {
            if let Some((k, i)) = (0..K).flat_map(|k| (0..n).map(move |i| (k, i))).find(|(k, i)| !seen[*k][*i]) {
                return (
                    st.leaves + st3.leaves,
                    st.choice_points,
                    Some((format!("choice/{flavour}/later-samples"), format!("{label}: over every stream with at most one non-default word, sample number {} of one distribution value is never member {i}", k + 1))),
                    0,
                );
            }
        }
    }
    let mut want: Law<Pick> = Law::new();
    if n == 0 {
        want.add(Pick::ConstructionError, Ratio::ONE);
    } else {
        for i in 0..n {
            want.add(Pick::Member(i), Ratio::new(1, n as u128));
        }
    }
    if law != want {
        let kind = if n == 0 { "empty-source" } else if law.mass.keys().all(|p| matches!(p, Pick::Member(_))) { "law" } else { "result" };
        return (
            st.leaves,
            st.choice_points,
            Some((format!("{key}/{kind}"), format!("{label}: outcome law {} but expected {}", law.render(), want.render()))),
            law.mass.len(),
        );
    }
    (st.leaves, st.choice_points, None, law.mass.len())
}

/// Sources with more members than a `u32` can count.  Zero-sized members cost nothing: construction must
/// succeed and report the number of members, sampling must return.  One byte per member (4 GiB of lazily
/// zeroed memory, the second half set to 1): with the grid of two cells a uniform choice yields 0 and 1
/// with probability exactly 1/2 each (even member counts; the 64-bit range draw maps the cells to the
/// first and the third quarter).
fn huge_sources(found: &mut Vec<(String, String, Value)>, notes: &mut Vec<String>) -> u64 {
    let mut n_runs = 0u64;
    let mut report = |key: String, what: String, replay: Value| found.push((key, what, replay));
    // (a) zero-sized members
    for n in [(1usize << 32) - 1, 1 << 32, (1 << 32) + 1, (1 << 32) + 2, 1 << 33, 3 << 32, usize::MAX] {
        let unit_vec = |n: usize| -> Vec<()> {
            let mut v: Vec<()> = Vec::new();
            // a vector of zero-sized values has unlimited capacity; no memory is involved
            unsafe { v.set_len(n) };
            v
        };
        for flavour in [0usize, 1, 2, 14] {
            n_runs += 1;
            let r = mcx::guarded(|| {
                let mut env = Env::new(vec![]);
                let mut rng = ChoiceRng::new(&mut env, Alphabet::Grid(4));
                let v = unit_vec(n);
                let counted: Result<usize, ()> = match flavour {
                    0 => IntoDistribution::<()>::into_distribution(v).map(|d| { let _: () = d.sample(&mut rng); ChoicesDistribution::num_choices(&d).get() }).map_err(|_| ()),
                    1 => IntoDistribution::<&()>::into_distribution(&v).map(|d| { let _: &() = d.sample(&mut rng); ChoicesDistribution::num_choices(&d).get() }).map_err(|_| ()),
                    2 => IntoDistribution::<()>::into_distribution(&v).map(|d| { let _: () = d.sample(&mut rng); ChoicesDistribution::num_choices(&d).get() }).map_err(|_| ()),
                    _ => OneOfCloning::<Vec<()>, ()>::new(v).map(|d| { let _: () = d.sample(&mut rng); ChoicesDistribution::num_choices(&d).get() }).map_err(|_| ()),
                };
                counted
            });
            let label = format!("{} on {n} zero-sized members", FLAVOURS[flavour]);
            let bad = match r {
                Err(p) => Some(("panic", format!("{label}: panicked: {p}"))),
                Ok(Err(())) => Some(("rejected", format!("{label}: construction was rejected although the source is not empty"))),
                Ok(Ok(c)) if c != n => Some(("num-choices", format!("{label}: reports {c} members"))),
                _ => None,
            };
            if let Some((k, w)) = bad {
                report(format!("choice/{flavour}/huge/{k}"), w, json!({"check":"C18","scenario":"huge","flavour":flavour,"n":n.to_string()}));
            }
        }
    }
    // (b) one byte per member
    for n in [1usize << 32, (1 << 32) + 2] {
        let mut v: Vec<u8> = Vec::new();
        if v.try_reserve_exact(n).is_err() {
            notes.push(format!("allocation of {n} bytes refused"));
            continue;
        }
        drop(v);
        let mut v: Vec<u8> = vec![0u8; n];
        for x in &mut v[n / 2..] {
            *x = 1;
        }
        for flavour in [1usize, 2, 0] {
            // (flavour 0 takes the vector: last)
            n_runs += 2;
            let mut law: Law<u8> = Law::new();
            let mut panicked: Option<String> = None;
            let mut rejected = false;
            let mut sig_ok = true;
            let mut owned: Option<Result<OneOfCloning<Vec<u8>, u8>, ()>> = None;
            if flavour == 0 {
                owned = Some(IntoDistribution::<u8>::into_distribution(std::mem::take(&mut v)).map_err(|_| ()));
            }
            let st = explore(
                |env| {
                    let mut rng = ChoiceRng::new(env, Alphabet::Grid(2));
                    let r = mcx::guarded(|| match flavour {
                        1 => IntoDistribution::<&u8>::into_distribution(&v).map(|d| *d.sample(&mut rng)).map_err(|_| ()),
                        2 => IntoDistribution::<u8>::into_distribution(&v).map(|d| d.sample(&mut rng)).map_err(|_| ()),
                        _ => match owned.as_ref().unwrap() {
                            Ok(d) => Ok(d.sample(&mut rng)),
                            Err(()) => Err(()),
                        },
                    });
                    drop(rng);
                    (r, env.draws())
                },
                |_, w, (r, draws)| {
                    if draws != 1 {
                        sig_ok = false;
                    }
                    match r {
                        Ok(Ok(b)) => law.add(b, w),
                        Ok(Err(())) => rejected = true,
                        Err(p) => panicked = Some(p),
                    }
                },
                1000,
            );
            let label = format!("{} on {n} one-byte members (first half 0, second half 1)", FLAVOURS[flavour]);
            let mut want: Law<u8> = Law::new();
            want.add(0, Ratio::new(1, 2));
            want.add(1, Ratio::new(1, 2));
            let bad = if let Some(p) = panicked {
                Some(("panic", format!("{label}: panicked: {p}")))
            } else if rejected {
                Some(("rejected", format!("{label}: construction was rejected although the source is not empty")))
            } else if sig_ok && !st.capped && st.total_weight_is_one && law != want {
                Some(("law", format!("{label}: value law {} but a uniform choice gives {}", law.render(), want.render())))
            } else {
                None
            };
            if let Some((k, w)) = bad {
                report(format!("choice/{flavour}/huge/{k}"), w, json!({"check":"C18","scenario":"huge","flavour":flavour,"n":n.to_string(),"bytes":true}));
            }
        }
    }
    // (c) fine grids.  One sample is one draw, so the whole grid of m words is enumerated directly (no tree):
    // member i must be returned for exactly m/n of the m words.  Grids finer than 2^24 cells resolve a sampler
    // that goes through an f32 or any other 24-bit intermediate; sources larger than 2^24 members likewise.
    {
        struct OneWord {
            w32: u32,
            w64: u64,
            draws: u32,
        }
        impl rand::RngCore for OneWord {
            fn next_u32(&mut self) -> u32 {
                self.draws += 1;
                self.w32
            }
            fn next_u64(&mut self) -> u64 {
                self.draws += 1;
                self.w64
            }
            fn fill_bytes(&mut self, dst: &mut [u8]) {
                self.draws += 1;
                for (i, b) in dst.iter_mut().enumerate() {
                    *b = self.w64.to_le_bytes()[i % 8];
                }
            }
        }
        // (members, cells per member)
        let shapes: Vec<(usize, usize)> = vec![((1 << 24) + (1 << 23), 1), (3 << 20, 16), (3 << 22, 4), (1_000_000, 17), (65_537, 257), (1009, 16_661)];
        for (n, per) in shapes {
            let m = n * per;
            let v: Vec<u32> = (0..n as u32).collect();
            for flavour in [0usize, 2] {
                n_runs += m as u64;
                let owned: Option<OneOfCloning<Vec<u32>, u32>> = if flavour == 0 { IntoDistribution::<u32>::into_distribution(v.clone()).ok() } else { None };
                let borrowed = if flavour == 2 { IntoDistribution::<u32>::into_distribution(&v).ok() } else { None };
                let alpha = Alphabet::Grid(m as u32);
                let chunks = 64usize;
                let outs = mcx::par_map(chunks, |c| {
                    let (lo, hi) = (c * m / chunks, (c + 1) * m / chunks);
                    // members come back in order over the grid for every monotone sampler; counted generally
                    let mut wrong: Option<String> = None;
                    let mut multi = false;
                    let mut count_prev: (u32, usize) = (u32::MAX, 0);
                    let mut bad_counts = 0u64;
                    let mut example: Option<(u32, usize)> = None;
                    let mut note = |member: u32, cnt: usize, bad_counts: &mut u64, example: &mut Option<(u32, usize)>, edge: bool| {
                        // (a member whose cells straddle the chunk boundary is judged by the caller)
                        if !edge && cnt != per {
                            *bad_counts += 1;
                            example.get_or_insert((member, cnt));
                        }
                    };
                    let mut first_member: Option<(u32, usize)> = None;
                    for j in lo..hi {
                        let mut rng = OneWord { w32: alpha.word32(j as u32), w64: alpha.word64(j as u32), draws: 0 };
                        let r = match (&owned, &borrowed) {
                            (Some(d), _) => d.sample(&mut rng),
                            (_, Some(d)) => d.sample(&mut rng),
                            _ => {
                                wrong = Some("construction was rejected".into());
                                break;
                            }
                        };
                        if rng.draws != 1 {
                            multi = true;
                        }
                        if r as usize >= n {
                            wrong = Some(format!("returned {r}, not a member"));
                            break;
                        }
                        if r == count_prev.0 {
                            count_prev.1 += 1;
                        } else {
                            if count_prev.0 != u32::MAX {
                                if first_member.is_none() {
                                    first_member = Some(count_prev);
                                } else {
                                    note(count_prev.0, count_prev.1, &mut bad_counts, &mut example, false);
                                }
                            }
                            if count_prev.0 != u32::MAX && r < count_prev.0 {
                                wrong = Some("the sampler is not monotone in its word: counting by runs does not apply".into());
                                break;
                            }
                            count_prev = (r, 1);
                        }
                    }
                    (wrong, multi, bad_counts, example, first_member, count_prev)
                });
                let label = format!("{} on {n} members, all {m} words of the grid ({per} per member)", FLAVOURS[flavour]);
                let mut problem: Option<String> = None;
                let mut multi = false;
                let mut bad_counts = 0u64;
                let mut example: Option<(u32, usize)> = None;
                // stitch the runs that straddle chunk boundaries
                let mut carry: Option<(u32, usize)> = None;
                for (wrong, mu, bc, ex, first, last) in outs {
                    if let Some(w) = wrong {
                        problem.get_or_insert(w);
                    }
                    multi |= mu;
                    bad_counts += bc;
                    if example.is_none() {
                        example = ex;
                    }
                    let mut close = |run_: (u32, usize), bad_counts: &mut u64, example: &mut Option<(u32, usize)>| {
                        if run_.1 != per {
                            *bad_counts += 1;
                            example.get_or_insert(run_);
                        }
                    };
                    match (carry, first) {
                        (Some(c), Some(f)) if c.0 == f.0 => close((c.0, c.1 + f.1), &mut bad_counts, &mut example),
                        (Some(c), Some(f)) => {
                            close(c, &mut bad_counts, &mut example);
                            close(f, &mut bad_counts, &mut example);
                        }
                        (None, Some(f)) => close(f, &mut bad_counts, &mut example),
                        (Some(c), None) if c.0 == last.0 => {
                            carry = Some((c.0, c.1 + last.1));
                            continue;
                        }
                        (Some(c), None) => close(c, &mut bad_counts, &mut example),
                        (None, None) => {}
                    }
                    carry = Some(last);
                }
                if let Some(c) = carry {
                    if c.1 != per {
                        bad_counts += 1;
                        example.get_or_insert(c);
                    }
                }
                if let Some(p) = problem {
                    if p.contains("not monotone") {
                        notes.push(format!("{label}: {p}"));
                    } else {
                        report(format!("choice/{flavour}/huge/result"), format!("{label}: {p}"), json!({"check":"C18","scenario":"huge","flavour":flavour,"n":n.to_string()}));
                    }
                } else if !multi && bad_counts > 0 {
                    let (mem, cnt) = example.unwrap_or((0, 0));
                    report(format!("choice/{flavour}/huge/law"), format!("{label}: {bad_counts} members are not returned for exactly {per} words, e.g. member {mem} for {cnt}"), json!({"check":"C18","scenario":"huge","flavour":flavour,"n":n.to_string()}));
                }
            }
        }
    }
    // (d) every 32-bit word.  A choice among n members that consumes one 32-bit word and never redraws cannot be
    // uniform unless n divides 2^32; one that redraws for some words is uniform iff the words it accepts at once
    // are shared equally.  All 2^32 first words are enumerated (redraws are answered with word 0 and not counted).
    {
        struct FirstWord {
            w: u32,
            draws: u32,
            wide: bool,
            /// a fixed word handed out before `w` (a first word the sampler redraws after): `w` is then the second word
            before: Option<u32>,
        }
        impl rand::RngCore for FirstWord {
            fn next_u32(&mut self) -> u32 {
                self.draws = self.draws.saturating_add(1);
                let at = if self.before.is_some() { self.draws - 1 } else { self.draws };
                if let (Some(b), 1) = (self.before, self.draws) {
                    b
                } else if at == 1 {
                    self.w
                } else {
                    // redraws: a fixed scrambled sequence (a constant word could be one the sampler never accepts)
                    let mut z = (self.w as u64 ^ 0x9e37_79b9_7f4a_7c15).wrapping_add((self.draws as u64).wrapping_mul(0xbf58_476d_1ce4_e5b9));
                    z = (z ^ (z >> 30)).wrapping_mul(0x94d0_49bb_1331_11eb);
                    (z >> 32) as u32
                }
            }
            fn next_u64(&mut self) -> u64 {
                self.draws = self.draws.saturating_add(1);
                self.wide = true;
                0x8000_0000_0000_0001
            }
            fn fill_bytes(&mut self, dst: &mut [u8]) {
                self.draws = self.draws.saturating_add(1);
                self.wide = true;
                dst.fill(0x55);
            }
        }
        let lens: Vec<usize> = if std::env::var("VERIF_TIER").map(|t| t == "thorough").unwrap_or(false) || std::env::args().any(|a| a == "thorough") { vec![3, 7, 1009, 65_537, 1_000_003] } else { vec![3, 1009] };
        for n in lens {
            let v: Vec<u32> = (0..n as u32).collect();
            for flavour in [0usize, 2] {
                // (quick tier: the cloning flavour for 3 members only)
                if flavour == 2 && n != 3 && n != 7 && n != 65_537 {
                    continue;
                }
                n_runs += 1u64 << 32;
                let owned: Option<OneOfCloning<Vec<u32>, u32>> = if flavour == 0 { IntoDistribution::<u32>::into_distribution(v.clone()).ok() } else { None };
                let borrowed = if flavour == 2 { IntoDistribution::<u32>::into_distribution(&v).ok() } else { None };
                let chunks = 64u64;
                // one pass over all 2^32 values of the enumerated word; `before`: a fixed first word that is redrawn
                let pass = |before: Option<u32>| {
                    let accepted_at: u32 = if before.is_some() { 2 } else { 1 };
                    let outs = mcx::par_map(chunks as usize, |c| {
                        let r = mcx::guarded(|| {
                            let (lo, hi) = ((c as u64) << 26, (c as u64 + 1) << 26);
                            let mut counts = vec![0u64; n];
                            let mut redrawn = 0u64;
                            let mut wide = false;
                            let mut wrong: Option<String> = None;
                            let mut first_redrawn: Option<u32> = None;
                            for w in lo..hi {
                                let mut rng = FirstWord { w: w as u32, draws: 0, wide: false, before };
                                let r = match (&owned, &borrowed) {
                                    (Some(d), _) => d.sample(&mut rng),
                                    (_, Some(d)) => d.sample(&mut rng),
                                    _ => {
                                        wrong = Some("construction was rejected".into());
                                        break;
                                    }
                                };
                                wide |= rng.wide;
                                if r as usize >= n {
                                    wrong = Some(format!("returned {r}, not a member"));
                                    break;
                                }
                                if rng.draws == accepted_at {
                                    counts[r as usize] += 1;
                                } else {
                                    redrawn += 1;
                                    if first_redrawn.is_none() {
                                        first_redrawn = Some(w as u32);
                                    }
                                }
                            }
                            (counts, redrawn, wide, wrong, first_redrawn)
                        });
                        match r {
                            Ok(x) => x,
                            Err(p) => (vec![0u64; n], 0, false, Some(format!("panicked: {p}")), None),
                        }
                    });
                    let mut counts = vec![0u64; n];
                    let (mut redrawn, mut wide, mut wrong, mut first_redrawn) = (0u64, false, None, None);
                    for (c, r, w, p, f) in outs {
                        for (a, b) in counts.iter_mut().zip(c) {
                            *a += b;
                        }
                        redrawn += r;
                        wide |= w;
                        if wrong.is_none() {
                            wrong = p;
                        }
                        if first_redrawn.is_none() {
                            first_redrawn = f;
                        }
                    }
                    (counts, redrawn, wide, wrong, first_redrawn)
                };
                let (mut counts, mut redrawn, mut wide, mut wrong, first_redrawn) = pass(None);
                let mut which_word = "first";
                // the redraw is a draw like the first: after a first word that is redrawn, every second word
                if n == 3 && wrong.is_none() && !wide && counts.iter().min() == counts.iter().max() {
                    if let Some(w0) = first_redrawn {
                        n_runs += 1u64 << 32;
                        let second = pass(Some(w0));
                        if second.3.is_some() || second.0.iter().min() != second.0.iter().max() {
                            counts = second.0;
                            redrawn = second.1;
                            wide = second.2;
                            wrong = second.3;
                            which_word = "second (after a first word that is redrawn)";
                        }
                    }
                }
                let label = format!("{} on {n} members, every 32-bit {which_word} word", FLAVOURS[flavour]);
                if let Some(p) = wrong {
                    report(format!("choice/{flavour}/words/result"), format!("{label}: {p}"), json!({"check":"C18","scenario":"huge","flavour":flavour,"n":n.to_string()}));
                } else if wide {
                    notes.push(format!("{label}: the choice does not draw 32-bit words first; the enumeration does not apply"));
                } else {
                    let (mn, mx) = (counts.iter().min().copied().unwrap_or(0), counts.iter().max().copied().unwrap_or(0));
                    if mn != mx {
                        let (imn, imx) = (counts.iter().position(|c| *c == mn).unwrap(), counts.iter().position(|c| *c == mx).unwrap());
                        report(format!("choice/{flavour}/words/law"), format!("{label}: of the words accepted at once ({redrawn} are redrawn) member {imx} gets {mx} and member {imn} gets {mn}: the choice is not uniform"), json!({"check":"C18","scenario":"huge","flavour":flavour,"n":n.to_string()}));
                    }
                }
            }
        }
    }
    n_runs
}
fn huge_bound() -> Value {
    json!("zero-sized members: 2^32-1, 2^32, 2^32+1, 2^32+2, 2^33, 3*2^32, usize::MAX (construction, member count, one sample); one-byte members: 2^32 and 2^32+2 (exact value law 1/2, 1/2 on the grid of two cells); fine grids enumerated word by word (one draw per sample): 2^24+2^23 members x 1 cell, 3*2^20 x 16, 3*2^22 x 4, 10^6 x 17, 65537 x 257, 1009 x 16661 cells per member - every member returned for exactly its share of the words (owning and cloning flavours); all 2^32 first words for 3 and 1009 members (thorough: 7, 65537, 1000003 too): the words accepted without a redraw are shared equally, and so are the second words after a first word that is redrawn (3 members); owning, borrowing and cloning flavours")
}

/// collection generators: exactly `size` elements, element i is the i-th product
fn collection_case(kind: usize, size: usize) -> (u64, u64, Option<(String, String)>, usize) {
    let names = ["Vec<u64> via into_collection_generator", "Vec<u64> via to_collection_generator", "Bitstring", "Plushy", "Vec<EcIndividual> via with_scorer", "Generator::new"];
    let label = format!("{} of size {size}", names[kind]);
    let mut env = Env::new(vec![]);
    env.horizon = usize::MAX; // a one-word alphabet does not branch: count every draw
    let mut rng = ChoiceRng::new(&mut env, Alphabet::Grid(1));
    let tape = Tape { n: Cell::new(0) };
    let r = mcx::guarded(|| -> Result<(), String> {
        let want: Vec<u64> = (0..size as u64).collect();
        match kind {
            0 => {
                let v: Vec<u64> = Tape { n: Cell::new(0) }.into_collection_generator(size).sample(&mut rng);
                if v != want {
                    return Err(format!("produced {v:?}"));
                }
            }
            1 => {
                let v: Vec<u64> = tape.to_collection_generator(size).sample(&mut rng);
                if v != want {
                    return Err(format!("produced {v:?}"));
                }
            }
            2 => {
                let b: Bitstring = tape.to_collection_generator(size).sample(&mut rng);
                let w: Vec<bool> = want.iter().map(|k| k % 3 == 0).collect();
                if b.bits != w {
                    return Err(format!("produced {:?}", b.bits));
                }
            }
            3 => {
                let p: Plushy = tape.to_collection_generator(size).sample(&mut rng);
                let w: Vec<PushGene> = want.iter().map(|k| PushGene::Instruction(PushInstruction::push_int(*k as i64))).collect();
                if p.get_genes() != w {
                    return Err(format!("produced {p}"));
                }
            }
            4 => {
                // a population of scored individuals: genome i is the i-th product, scored by the scorer
                let pop: Vec<EcIndividual<u64, u64>> = (&tape).with_scorer_fn(|g: &u64| g * 10).into_collection_generator(size).sample(&mut rng);
                let got: Vec<(u64, u64)> = pop.iter().map(|i| (i.genome, i.test_results)).collect();
                let w: Vec<(u64, u64)> = want.iter().map(|k| (*k, k * 10)).collect();
                if got != w {
                    return Err(format!("produced {got:?}"));
                }
            }
            _ => {
                let v: Vec<u64> = Generator::new(&tape, size).sample(&mut rng);
                if v != want {
                    return Err(format!("produced {v:?}"));
                }
            }
        }
        Ok(())
    });
    let drawn = env.draws() + env.tail as usize;
    let v = match r {
        Err(p) => Some((format!("collection/{kind}/panic"), format!("{label}: panicked: {p}"))),
        Ok(Err(e)) => Some((format!("collection/{kind}/content"), format!("{label}: {e}; expected exactly {size} elements in generation order"))),
        Ok(Ok(())) if drawn != size => Some((format!("collection/{kind}/draws"), format!("{label}: the element generator was asked {drawn} times"))),
        _ => None,
    };
    (1, drawn as u64, v, 1)
}

pub fn run(run: &mut Run) {
    if let Err(e) = mcx::rng::calibrate() {
        run.machinery(format!("calibration failed: {e}"));
        return;
    }
    let max_n = if run.quick() { 5 } else { 6 };
    let mut nontrivial = 0;
    for flavour in 0..FLAVOURS.len() {
        for n in 0..=max_n {
            if flavour == 15 && n == 0 {
                continue; // the macro cannot be invoked without items
            }
            let (leaves, cps, v, outcomes) = choice_case(flavour, n);
            run.evaluations += leaves;
            run.transitions += cps;
            run.states += 1;
            if outcomes > 1 {
                nontrivial += 1;
            }
            if let Some((k, w)) = v {
                if k.starts_with("machinery/") {
                    run.machinery(w);
                } else {
                    run.violation(k, w, json!({"check":"C18","scenario":"choice","flavour":flavour,"n":n}));
                }
            }
        }
    }
    // larger sources (vector and slice flavours; arrays need a const length): sizes around powers of two
    let big: Vec<usize> = if run.quick() { (7usize..=70).chain([97, 100, 127, 128, 129, 255, 256, 257]).collect() } else { (7usize..=300).chain([511, 512, 513, 1000, 1009]).collect() };
    for flavour in [0usize, 1, 2, 3, 4, 10, 11, 12, 13, 14] {
        for &n in &big {
            let (leaves, cps, v, outcomes) = choice_case(flavour, n);
            run.evaluations += leaves;
            run.transitions += cps;
            run.states += 1;
            if outcomes > 1 {
                nontrivial += 1;
            }
            if let Some((k, w)) = v {
                if k.starts_with("machinery/") {
                    run.machinery(w);
                } else {
                    run.violation(k, w, json!({"check":"C18","scenario":"choice","flavour":flavour,"n":n}));
                }
            }
        }
    }
    run.bound("large_source_sizes", json!(big));
    let (mut found, mut notes) = (vec![], vec![]);
    let h = huge_sources(&mut found, &mut notes);
    for (k, w, r) in found {
        run.violation(k, w, r);
    }
    if !notes.is_empty() {
        run.note("huge.skipped", json!(notes));
    }
    run.bound("huge_sources", huge_bound());
    run.evaluations += h;
    run.transitions += h;
    let sizes: Vec<usize> = (0..=max_n).chain(if run.quick() { (7usize..=130).chain([255, 256, 257, 1000, 4097, 65537, 100_003]).collect::<Vec<usize>>() } else { (7usize..=300).chain([1000, 1009, 4096, 4097, 65536, 65537, 100_003, 1_000_003]).collect() }).collect();
    run.bound("collection_sizes", json!(sizes));
    // nested: a collection of `outer` collections of `inner` elements each, in generation order
    for outer in 0..=3usize {
        for inner in 0..=3usize {
            let tape = Tape { n: Cell::new(0) };
            let mut env = Env::new(vec![]);
            let mut rng = ChoiceRng::new(&mut env, Alphabet::Grid(1));
            let r = mcx::guarded(|| {
                let a: Vec<Vec<u64>> = tape.to_collection_generator(inner).into_collection_generator(outer).sample(&mut rng);
                let b: Vec<Vec<u64>> = Tape { n: Cell::new(0) }.into_collection_generator(inner).to_collection_generator(outer).sample(&mut rng);
                (a, b)
            });
            let want: Vec<Vec<u64>> = (0..outer).map(|o| (0..inner).map(|i| (o * inner + i) as u64).collect()).collect();
            run.evaluations += 2;
            run.states += 1;
            match r {
                Err(p) => run.violation("collection/nested/panic", format!("{outer} collections of {inner}: panicked: {p}"), json!({"check":"C18","scenario":"nested","outer":outer,"inner":inner})),
                Ok((a, b)) => {
                    if a != want || b != want {
                        run.violation("collection/nested/content", format!("{outer} collections of {inner} elements: produced {a:?} (borrowing inner) / {b:?} (owning inner), expected {want:?}"), json!({"check":"C18","scenario":"nested","outer":outer,"inner":inner}));
                    }
                }
            }
        }
    }
    // the library's own random genome constructors: exactly the requested size, for every size 0..=300
    // (thorough ..=1100) and both extreme streams plus a mixed one
    {
        use ec_core::distributions::conversion::IntoDistribution as _;
        use push::genome::plushy::ConvertToGeneGenerator;
        let top = if run.quick() { 300usize } else { 1100 };
        for n in 0..=top {
            for (wname, alpha, pick) in [("all-zero", Alphabet::Ext(1), 1u32), ("all-ones", Alphabet::Ext(1), 2), ("mid", Alphabet::Grid(1), 0)] {
                let sizes_of = |which: usize| -> Result<usize, String> {
                    let picks: Vec<u32> = vec![pick; 4 * n + 8];
                    let mut env = Env::from_picks(&picks);
                    env.horizon = usize::MAX;
                    let mut rng = ChoiceRng::new(&mut env, alpha);
                    mcx::guarded(|| match which {
                        0 => Bitstring::random(n, &mut rng).bits.len(),
                        1 => Bitstring::random_with_probability(n, 0.5, &mut rng).bits.len(),
                        _ => {
                            let dist = IntoDistribution::<PushInstruction>::into_distribution(vec![PushInstruction::push_int(1), PushInstruction::push_int(2)]).expect("two instructions");
                            let p: Plushy = dist.into_gene_generator().into_collection_generator(n).sample(&mut rng);
                            p.get_genes().len()
                        }
                    })
                };
                for (which, name) in ["Bitstring::random", "Bitstring::random_with_probability", "random Plushy"].iter().enumerate() {
                    run.evaluations += 1;
                    match sizes_of(which) {
                        Ok(got) if got == n => {}
                        Ok(got) => run.violation(format!("collection/size/{name}"), format!("{name} asked for {n} genes produced {got} ({wname} stream)"), json!({"check":"C18","scenario":"genome-size","which":which,"n":n})),
                        Err(p) => run.violation(format!("collection/size/{name}/panic"), format!("{name} of size {n} panicked: {p}"), json!({"check":"C18","scenario":"genome-size","which":which,"n":n})),
                    }
                }
            }
        }
        run.states += top as u64 + 1;
        run.bound("random_genome_sizes", json!(format!("0..={top}")));
    }
    for kind in 0..6 {
        for &size in &sizes {
            let (leaves, cps, v, _) = collection_case(kind, size);
            run.evaluations += leaves;
            run.transitions += cps;
            run.states += 1;
            if size > 1 {
                nontrivial += 1;
            }
            if let Some((k, w)) = v {
                run.violation(k, w, json!({"check":"C18","scenario":"collection","kind":kind,"size":size}));
            }
        }
    }
    run.traces_validated = run.evaluations;
    run.distinct_nontrivial = nontrivial;
    run.rule = "every conversion flavour of conversion.rs (Vec, &Vec, array, &array, slice; into/to; owning OneOfCloning, borrowing Choose, cloning ChooseCloning), the direct constructors and uniform_distribution_of! x source sizes 0..n with pairwise distinct members x all 60 grid words (vector/slice flavours also sizes around powers of two up to 257 (1000) on the grid of their own size; membership additionally on every stream over the extreme words 0 and all-ones): empty source => construction error; otherwise num_choices == len and each member exactly 1/len (borrowing flavours: pointer into the source), two consecutive samples from one distribution value have the product law (sizes 1..4), each of 70 consecutive samples can yield every member (sizes 2..5, every stream with at most one non-default word); collection generators for Vec, Bitstring, Plushy and scored populations: exactly `size` elements in generation order (sizes 0..n and around powers of two up to 257 (4096); nested collections 0..3 x 0..3). non-trivial = scenarios with more than one outcome".into();
    run.bound("max_source_size", json!(max_n));
    run.bound("alphabet", json!("Grid(60)"));
    run.assumptions = vec!["rand's Uniform / slice::Choose map grid cells to members as calibrated".into()];
    run.sample(json!({"flavour": FLAVOURS[1], "n": 3, "law": "each of the 3 references into the source with 1/3"}));
    run.sample(json!({"flavour": FLAVOURS[0], "n": 0, "expected": "Err(EmptySlice) at construction"}));
}

pub fn replay(v: &Value) -> bool {
    if v["scenario"] == json!("nested") || v["scenario"] == json!("genome-size") {
        println!("nested collections are re-checked by the full run: ./check C18");
        return false;
    }
    if v["scenario"] == json!("huge") {
        let (mut found, mut notes) = (vec![], vec![]);
        huge_sources(&mut found, &mut notes);
        for (k, w, _) in &found {
            println!("MISMATCH [{k}]: {w}");
        }
        if found.is_empty() {
            println!("replay: property held");
        }
        return found.is_empty();
    }
    let r = if v["scenario"] == json!("choice") {
        choice_case(v["flavour"].as_u64().unwrap_or(0) as usize, v["n"].as_u64().unwrap_or(0) as usize)
    } else {
        collection_case(v["kind"].as_u64().unwrap_or(0) as usize, v["size"].as_u64().unwrap_or(0) as usize)
    };
    match r.2 {
        Some((k, w)) => {
            println!("MISMATCH [{k}]: {w}");
            false
        }
        None => {
            println!("replay: property held");
            true
        }
    }
}
