//! C16 — all randomness comes from the supplied generator; evaluation is
//! deterministic.  The explorer's replay obligation made the property: every
//! explored leaf of every scenario is re-executed from the identical choice
//! sequence (twice), and again after the same operator value has served a call
//! with other arguments; results, draw traces and counts must coincide.  A
//! process-level digest comparison (two child processes) and the input
//! declaration orders of Push states complete it.

use crate::c06::{alphabet_for, combo_configs, leaf_configs, pop_of};
use crate::c08;
use crate::c10;
use crate::c11::{self, FlipKind, GenomeKind, UmadKind};
use crate::c12;
use crate::c13;
use crate::c18;
use crate::pushref::{Lit, RState};
use crate::selectors::*;
use crate::vm::{observe as observe_state, OF};
use ec_core::operator::selector::lexicase::Lexicase;
use ec_core::operator::selector::tournament::Tournament;
use ec_core::operator::selector::Selector;
use ec_core::weighted::weighted_pair::WeightedPair;
use ec_core::weighted::Weighted;
use ec_linear::mutator::with_rate::WithRate;
use ec_core::operator::mutator::Mutator;
use ec_core::operator::recombinator::Recombinator;
use ec_linear::recombinator::two_point_xo::TwoPointXo;
use ec_linear::recombinator::uniform_xo::UniformXo;
use mcx::{explore, replay as replay_trace, Alphabet, Choice, ChoiceRng, Env, Run, TapeRng};
use ordered_float::OrderedFloat;
use push::genome::plushy::{Plushy, PushGene};
use push::instruction::variable_name::VariableName;
use push::instruction::{IntInstruction, PushInstruction};
use push::push_vm::program::PushProgram;
use push::push_vm::push_state::PushState;
use push::push_vm::State;
use serde_json::{json, Value};
use std::num::NonZeroUsize;

pub struct Scenario {
    pub name: String,
    /// one execution, observation rendered as text (no addresses)
    pub run: Box<dyn Fn(&mut Env) -> String + Send + Sync>,
    /// the specification says the outcome depends on the random stream
    pub expect_random: bool,
}

fn sc(name: impl Into<String>, expect_random: bool, f: impl Fn(&mut Env) -> String + Send + Sync + 'static) -> Scenario {
    Scenario { name: name.into(), run: Box::new(f), expect_random }
}

pub fn scenarios(quick: bool) -> Vec<Scenario> {
    let mut v: Vec<Scenario> = vec![];
    // --- selectors (all C06 configurations on three populations)
    let pops: Vec<Vec<i64>> = vec![vec![2, 1, 3], vec![1, 1], vec![]];
    let mut configs = leaf_configs(3);
    configs.extend(combo_configs(true));
    let configs: std::sync::Arc<Vec<crate::c06::Config>> = std::sync::Arc::new(configs);
    for ci in 0..configs.len() {
        if quick && ci % 3 != 0 && ci > 60 {
            continue;
        }
        for values in &pops {
            let cfgs = configs.clone();
            let values = values.clone();
            let name = format!("select/{} on {values:?}", cfgs[ci].name);
            let random = cfgs[ci].name == "Random" && values.len() >= 2;
            v.push(sc(name, random, move |env| {
                let pop = pop_of(&values);
                let a = alphabet_for(cfgs[ci].alpha, values.len());
                env.horizon = 8;
                format!("{:?}", (cfgs[ci].run)(&pop, env, a))
            }));
        }
    }
    // --- lexicase on matrices
    for (rows, cases, errors) in [(vec![vec![3, 1], vec![1, 3], vec![2, 2]], 2usize, false), (vec![vec![1, 1, 2], vec![1, 1, 2]], 3, true), (vec![vec![5], vec![5], vec![5]], 0, false)] {
        let c = c08::Case { rows: rows.clone(), cases, errors, grouped: false };
        let k = mcx::factorial(rows.len().max(cases) as u128) as u32;
        v.push(sc(format!("lexicase/{rows:?}/{cases}/{errors}"), true, move |env| format!("{:?}", c08::observe(&c, env, Alphabet::Rep { r: 479_001_600, k }))));
    }
    // --- weighted shapes
    for (s, w) in [(c13::Shape::L3, vec![1u32, 2, 1]), (c13::Shape::Bal4, vec![1, 0, 2, 1]), (c13::Shape::Dyn, vec![2, 1, 1]), (c13::Shape::Pair, vec![0, 0])] {
        let random = w.iter().filter(|x| **x > 0).count() > 1;
        v.push(sc(format!("weighted/{s:?}{w:?}"), random, move |env| {
            let pop = mk_pop(&(0..w.len() as i64).collect::<Vec<_>>());
            format!("{:?}", c13::build_and_select(s, &w, &pop, env, Alphabet::Grid(4)).map_err(|e| e.to_string()))
        }));
    }
    // --- crossover
    for tp in [true, false] {
        for f in [c10::Flavour::VecArr, c10::Flavour::BitTuple, c10::Flavour::VecArrRecombine] {
            for (l1, l2) in [(3usize, 3usize), (2, 3), (0, 0)] {
                let m = if tp { (l1 * (l1 + 1)).max(1) as u32 } else { 2 };
                v.push(sc(format!("xo/{tp}/{f:?}/{l1},{l2}"), l1 == l2 && l1 > 0, move |env| format!("{:?}", c10::recombine(tp, f, l1, l2, env, Alphabet::Grid(m)))));
            }
        }
    }
    // --- mutation
    for fk in [FlipKind::VecTag, FlipKind::VectorTag, FlipKind::Bits, FlipKind::VecTagViaMutate] {
        for ool in [false, true] {
            v.push(sc(format!("flip/{fk:?}/{ool}"), true, move |env| format!("{:?}", c11::flip_once(fk, ool, 0.5, 3, env, if ool { Alphabet::Grid(3) } else { Alphabet::Grid(2) }))));
        }
    }
    for gk in [GenomeKind::Vector, GenomeKind::Plushy, GenomeKind::Bits] {
        for (kind, l) in [(UmadKind::Plain, 2usize), (UmadKind::Plain, 0), (UmadKind::WithoutEmpty, 0), (UmadKind::EmptyRate(1, 2), 0)] {
            let random = !(l == 0 && kind == UmadKind::WithoutEmpty);
            v.push(sc(format!("umad/{gk:?}/{kind:?}/{l}"), random, move |env| format!("{:?}", c11::umad_once(gk, kind, 0.5, 0.5, 2, l, env, Alphabet::Grid(2), false).map(|x| x.0))));
        }
    }
    // --- generators
    for which in 0..6u8 {
        v.push(sc(format!("gene_generator/{which}"), true, move |env| format!("{:?}", c12::gene_gen_once(which, (1, 4), 3, env, Alphabet::Grid(12)))));
    }
    for which in 0..4u8 {
        v.push(sc(format!("bits/{which}"), true, move |env| format!("{:?}", c12::bits_once(which, (1, 2), 3, env, Alphabet::Grid(2)))));
    }
    for flavour in 0..c18::FLAVOURS.len() {
        for n in [0usize, 1, 3] {
            if flavour == 15 && n == 0 {
                continue;
            }
            v.push(sc(format!("choice/{flavour}/{n}"), n >= 2, move |env| format!("{:?}", c18::pick_once(flavour, n, env, Alphabet::Grid(6)))));
        }
    }
    v
}

fn fnv(h: &mut u64, s: &str) {
    for b in s.as_bytes() {
        *h ^= *b as u64;
        *h = h.wrapping_mul(0x100000001b3);
    }
}

pub struct Outcome {
    pub leaves: u64,
    pub replays: u64,
    pub digest: u64,
    pub nontrivial: u64,
    pub capped: u64,
    pub viols: Vec<(String, String, Value)>,
}

pub fn run_scenarios(quick: bool) -> Outcome {
    let scs = scenarios(quick);
    let per = mcx::par_map(scs.len(), |i| {
        let s = &scs[i];
        let mut leaves: Vec<(Vec<Choice>, String)> = vec![];
        let st = explore(|env| (s.run)(env), |t, _, o| leaves.push((t.to_vec(), o)), 20_000);
        let mut viols = vec![];
        let mut h: u64 = 0xcbf29ce484222325;
        let mut replays = 0u64;
        if let Some(d) = &st.diverged {
            viols.push((format!("determinism/{}", s.name.split('/').next().unwrap_or("")), format!("{}: the same choice prefix led to different choice points: {d}", s.name)));
        }
        let distinct: std::collections::BTreeSet<&String> = leaves.iter().map(|l| &l.1).collect();
        if s.expect_random && (leaves.len() < 2 || distinct.len() < 2) && viols.is_empty() {
            viols.push((
                format!("foreign-randomness/{}", s.name.split('/').next().unwrap_or("")),
                format!("{}: the specification makes the outcome depend on the random stream, but over all streams of the supplied generator there are {} executions and {} distinct outcomes", s.name, leaves.len(), distinct.len()),
            ));
        }
        for (trace, obs) in &leaves {
            fnv(&mut h, &s.name);
            fnv(&mut h, obs);
            for round in 0..2 {
                let (o2, env) = replay_trace(|e| (s.run)(e), trace);
                replays += 1;
                if viols.len() < 3 && (o2 != *obs || env.trace != *trace || env.diverged.is_some()) {
                    viols.push((
                        format!("determinism/{}", s.name.split('/').next().unwrap_or("")),
                        format!("{}: replay {round} of choices {:?} gave {o2} with {} draws; first run gave {obs} with {} draws", s.name, trace.iter().map(|c| c.pick).collect::<Vec<_>>(), env.trace.len(), trace.len()),
                    ));
                }
            }
        }
        (leaves.len() as u64, replays, h, u64::from(distinct.len() > 1), viols, s.name.clone(), st.capped)
    });
    let mut out = Outcome { leaves: 0, replays: 0, digest: 0xcbf29ce484222325, nontrivial: 0, capped: 0, viols: vec![] };
    for (l, r, h, nt, viols, name, capped) in per {
        out.capped += u64::from(capped);
        out.leaves += l;
        out.replays += r;
        out.digest = (out.digest ^ h).wrapping_mul(0x100000001b3);
        out.nontrivial += nt;
        for (k, w) in viols {
            out.viols.push((k, w, json!({"check":"C16","scenario":name})));
        }
    }
    out
}

/// history independence: one operator value, a call with other arguments in between
fn history_independence(run: &mut Run) -> u64 {
    let mut n = 0u64;
    macro_rules! hist {
        ($name:expr, $mk:expr, $call:expr, $other:expr, $alpha:expr) => {{
            let mut fresh: Vec<(Vec<Choice>, String)> = vec![];
            explore(
                |env| {
                    let op = $mk;
                    let mut rng = ChoiceRng::new(env, $alpha);
                    $call(&op, &mut rng)
                },
                |t, _, o| fresh.push((t.to_vec(), o)),
                20_000,
            );
            let op = $mk;
            for (trace, want) in &fresh {
                // the same operator value first serves other arguments from an unrelated stream
                let mut side = TapeRng { pos: n };
                let _ = $other(&op, &mut side);
                let (got, env) = replay_trace(
                    |env| {
                        let mut rng = ChoiceRng::new(env, $alpha);
                        $call(&op, &mut rng)
                    },
                    trace,
                );
                n += 1;
                if got != *want || env.trace != *trace {
                    run.violation(
                        format!("history/{}", $name),
                        format!("{}: after serving another call the same operator value answered {got} ({} draws) instead of {want} ({} draws) for choices {:?}", $name, env.trace.len(), trace.len(), trace.iter().map(|c| c.pick).collect::<Vec<_>>()),
                        json!({"check":"C16","scenario":format!("history/{}", $name)}),
                    );
                    break;
                }
            }
        }};
    }
    let pop = mk_pop(&[3, 1, 2, 2]);
    let pop2 = mk_pop(&[9, 9]);
    let idx = |p: &Pop, r: Result<&Ind, String>| -> String {
        match r {
            Ok(x) => format!("{:?}", index_of(p, x)),
            Err(e) => e,
        }
    };
    hist!("tournament", Tournament::new(NonZeroUsize::new(2).unwrap()), |op: &Tournament, rng: &mut ChoiceRng| idx(&pop, op.select(&pop, rng).map_err(|e| e.to_string())), |op: &Tournament, rng: &mut TapeRng| op.select(&pop2, rng).is_ok(), Alphabet::Grid(12));
    let lpop = mk_pop_matrix(&[vec![1, 2], vec![2, 1], vec![2, 2]]);
    let lpop2 = mk_pop_matrix(&[vec![0, 0]]);
    hist!("lexicase", Lexicase::new(2), |op: &Lexicase, rng: &mut ChoiceRng| idx(&lpop, op.select(&lpop, rng).map_err(|e| e.to_string())), |op: &Lexicase, rng: &mut TapeRng| op.select(&lpop2, rng).is_ok(), Alphabet::Rep { r: 479_001_600, k: 6 });
    hist!(
        "weighted_pair",
        WeightedPair::new(Weighted::new(Marker(0), 1), Weighted::new(Marker(2), 3)).unwrap(),
        |op: &WeightedPair<Weighted<Marker>, Weighted<Marker>>, rng: &mut ChoiceRng| idx(&pop, op.select(&pop, rng).map_err(|e| format!("{e:?}"))),
        |op: &WeightedPair<Weighted<Marker>, Weighted<Marker>>, rng: &mut TapeRng| op.select(&pop2, rng).is_ok(),
        Alphabet::Grid(4)
    );
    hist!("with_rate", WithRate::new(0.5), |op: &WithRate, rng: &mut ChoiceRng| format!("{:?}", op.mutate(vec![true, false, true], rng)), |op: &WithRate, rng: &mut TapeRng| op.mutate(vec![false; 5], rng).is_ok(), Alphabet::Grid(2));
    hist!("two_point_xo", TwoPointXo, |op: &TwoPointXo, rng: &mut ChoiceRng| format!("{:?}", op.recombine([vec![1, 2, 3], vec![4, 5, 6]], rng)), |op: &TwoPointXo, rng: &mut TapeRng| op.recombine([vec![0u8; 2], vec![1u8; 2]], rng).is_ok(), Alphabet::Grid(12));
    hist!("uniform_xo", UniformXo, |op: &UniformXo, rng: &mut ChoiceRng| format!("{:?}", op.recombine([vec![1, 2, 3], vec![4, 5, 6]], rng)), |op: &UniformXo, rng: &mut TapeRng| op.recombine([vec![0u8; 2], vec![1u8; 2]], rng).is_ok(), Alphabet::Grid(2));
    n
}

/// Push evaluation is independent of the order in which inputs were declared
fn input_orders(run: &mut Run, quick: bool) -> u64 {
    // plain names, and names that differ only in case, by a trailing space, or by being a prefix of
    // one another (a name is a string: these are four different inputs)
    input_orders_named(run, quick, ["a", "b", "c", "d"]) + input_orders_named(run, quick, ["x", "X", "x ", "xx"]) + input_orders_named(run, quick, ["\u{e9}", "\u{c9}", "e", "e\u{301}"])
}
fn input_orders_named(run: &mut Run, quick: bool, names: [&'static str; 4]) -> u64 {
    let lits = [Lit::I(5), Lit::F(0.75), Lit::B(true), Lit::I(-8)];
    let alphabet: Vec<PushGene> = {
        let mut g: Vec<PushGene> = names.iter().map(|n| PushGene::Instruction(PushInstruction::InputVar(VariableName::from(*n)))).collect();
        g.push(PushGene::Instruction(IntInstruction::Add.into()));
        g.push(PushGene::Instruction(IntInstruction::LessThan.into()));
        g.push(PushGene::Instruction(crate::interp::int_variant("Print").into()));
        g
    };
    let mut perms: Vec<Vec<usize>> = vec![];
    fn permute(cur: &mut Vec<usize>, used: &mut [bool; 4], out: &mut Vec<Vec<usize>>) {
        if cur.len() == 4 {
            out.push(cur.clone());
            return;
        }
        for i in 0..4 {
            if !used[i] {
                used[i] = true;
                cur.push(i);
                permute(cur, used, out);
                cur.pop();
                used[i] = false;
            }
        }
    }
    permute(&mut vec![], &mut [false; 4], &mut perms);
    let build = |program: &[PushProgram], order: &[usize], limit: usize| -> PushState {
        let mut b = PushState::builder().with_max_stack_size(6).with_program(program.to_vec()).expect("fits");
        for i in order {
            b = match &lits[*i] {
                Lit::I(v) => b.with_int_input(names[*i], *v),
                Lit::F(v) => b.with_float_input(names[*i], OrderedFloat(*v)),
                Lit::B(v) => b.with_bool_input(names[*i], *v),
            };
        }
        b.with_instruction_step_limit(limit).build()
    };
    let max_len = if quick { 3 } else { 4 };
    let mut n = 0u64;
    let mut genomes: Vec<Vec<usize>> = vec![vec![]];
    let mut layer: Vec<Vec<usize>> = vec![vec![]];
    for _ in 0..max_len {
        let mut next = vec![];
        for g in &layer {
            for a in 0..alphabet.len() {
                let mut h = g.clone();
                h.push(a);
                next.push(h);
            }
        }
        genomes.extend(next.iter().cloned());
        layer = next;
    }
    let results = mcx::par_map(genomes.len(), |gi| {
        let g = &genomes[gi];
        let genes: Vec<PushGene> = g.iter().map(|i| alphabet[*i].clone()).collect();
        let program: Vec<PushProgram> = Vec::<PushProgram>::from(Plushy::new(genes));
        if program.len() > 6 {
            return (0u64, None);
        }
        let mut k = 0u64;
        let mut first: Option<(Result<PushState, String>, RState)> = None;
        for order in &perms {
            for _rep in 0..2 {
                let s = build(&program, order, 20);
                let r = mcx::guarded(|| s.run_to_completion());
                let (res, obs): (Result<PushState, String>, RState) = match r {
                    Ok(Ok(s)) => {
                        let o = observe_state(&s);
                        (Ok(s), o)
                    }
                    Ok(Err(e)) => {
                        use push::error::into_state::IntoState;
                        let s = e.into_state();
                        let o = observe_state(&s);
                        (Err("fatal".into()), o)
                    }
                    Err(p) => (Err(format!("panic {p}")), RState::empty([0; 4])),
                };
                k += 1;
                // a program that is one input variable ends with that input's value on its stack
                if g.len() == 1 && g[0] < 4 {
                    let fine = match &lits[g[0]] {
                        Lit::I(v) => obs.int == vec![*v] && obs.float.is_empty() && obs.boolean.is_empty(),
                        Lit::F(v) => obs.float == vec![*v] && obs.int.is_empty() && obs.boolean.is_empty(),
                        Lit::B(v) => obs.boolean == vec![*v] && obs.int.is_empty() && obs.float.is_empty(),
                    };
                    if !fine {
                        return (k, Some(format!("the program [{:?}] with inputs {names:?} = {lits:?} declared in order {order:?} ends with int {:?} float {:?} bool {:?}", names[g[0]], obs.int, obs.float, obs.boolean)));
                    }
                }
                match &first {
                    None => first = Some((res, obs)),
                    Some((r0, o0)) => {
                        let same = match (r0, &res) {
                            (Ok(a), Ok(b)) => a == b,
                            (Err(a), Err(b)) => a == b && *o0 == obs,
                            _ => false,
                        };
                        if !same || *o0 != obs {
                            return (k, Some(format!("program {g:?} (genes 0..3 = the inputs {names:?}) with inputs declared in order {order:?} ends differently than with order {:?}", perms[0])));
                        }
                    }
                }
            }
        }
        (k, None)
    });
    for (gi, (k, v)) in results.into_iter().enumerate() {
        n += k;
        if let Some(w) = v {
            run.violation(if names[0] == "a" { "push/input-declaration-order".to_string() } else { format!("push/input-declaration-order/names {names:?}") }, w, json!({"check":"C16","scenario":"input-orders","genome":genomes[gi],"names":names}));
        }
    }
    let _ = OF::default();
    n
}

/// A run of more than 10^8 steps: the outcome is a function of the program and the limit alone - whatever
/// time it takes.  The counting loop `0 DupBlock (Inc DupBlock)` adds one every third step; the law
/// counter(limit + 3) = counter(limit) + 1 is read off the reference semantics on short runs and the long
/// run must land on it exactly.
fn long_run(run: &mut Run) -> u64 {
    use crate::pushref::{ref_run_long, Final};
    let body = PushProgram::Block(vec![PushProgram::Instruction(IntInstruction::Inc.into()), PushProgram::Instruction(push::instruction::ExecInstruction::dup_block().into())]);
    let program = vec![PushProgram::Instruction(PushInstruction::push_int(0)), PushProgram::Instruction(push::instruction::ExecInstruction::dup_block().into()), body];
    let counter_ref = |limit: usize| -> Option<i64> {
        let mut r = RState::empty([16; 4]);
        r.exec = program.iter().rev().cloned().collect();
        match ref_run_long(&r, limit) {
            Ok(Final::Done(s)) => s.int.last().copied(),
            _ => None,
        }
    };
    // the period law on the reference, limits 40..100
    let base: Vec<Option<i64>> = (40..=100).map(counter_ref).collect();
    if base.iter().any(|c| c.is_none()) || (0..58).any(|i| base[i + 3] != base[i].map(|c| c + 1)) {
        run.machinery("long run: the reference semantics do not show the period-3 counting law on limits 40..100".to_string());
        return 0;
    }
    let real = |limit: usize| -> Result<i64, String> {
        let s = PushState::builder().with_max_stack_size(16).with_program(program.clone()).map_err(|e| format!("{e:?}"))?.with_instruction_step_limit(limit).build();
        match mcx::guarded(|| s.run_to_completion()) {
            Ok(Ok(end)) => observe_state(&end).int.last().copied().ok_or_else(|| "empty int stack".to_string()),
            Ok(Err(_)) => Err("the run ended with an error".into()),
            Err(p) => Err(format!("panicked: {p}")),
        }
    };
    let limits: Vec<usize> = if run.quick() { vec![1 << 20, (1 << 20) + 1, (1 << 21) + 2, (1 << 27) + 5] } else { vec![1 << 20, (1 << 20) + 1, (1 << 21) + 2, (1 << 27) + 5, (1 << 30) + 7] };
    let mut steps = 0u64;
    for limit in limits {
        steps += limit as u64;
        let k = (limit - 40) / 3;
        let want = base[(limit - 40) % 3].unwrap() + k as i64;
        let started = std::time::Instant::now();
        match real(limit) {
            Ok(c) if c == want => {}
            Ok(c) => run.violation("push/long-run".to_string(), format!("the counting loop under a step limit of {limit} ended with counter {c} after {:.1} s; the program and the limit determine {want}", started.elapsed().as_secs_f64()), json!({"check":"C16","scenario":"long-run"})),
            Err(e) => run.violation("push/long-run".to_string(), format!("the counting loop under a step limit of {limit}: {e}"), json!({"check":"C16","scenario":"long-run"})),
        }
    }
    run.bound("long_run_step_limits", json!(if run.quick() { "2^20, 2^20+1, 2^21+2, 2^27+5" } else { "2^20, 2^20+1, 2^21+2, 2^27+5, 2^30+7" }));
    steps
}

/// child mode: print the digest of all observations
pub fn child(tier: &str) {
    let o = run_scenarios(tier != "thorough");
    println!("DIGEST {:016x} {}", o.digest, o.leaves);
}

pub fn run(run: &mut Run) {
    if let Err(e) = mcx::rng::calibrate() {
        run.machinery(format!("calibration failed: {e}"));
        return;
    }
    let quick = run.quick();
    let o = run_scenarios(quick);
    for (k, w, r) in &o.viols {
        run.violation(k.clone(), w.clone(), r.clone());
    }
    if o.capped > 0 {
        run.cap_hit(format!("{} scenarios stopped at 20,000 leaves (all leaves below the cap were replayed)", o.capped));
    }
    let h = history_independence(run);
    let io = input_orders(run, quick);
    let lr = long_run(run);
    run.note("long_run_steps", json!(lr));
    // process level: two fresh processes (different hasher keys, addresses, start times)
    let exe = std::env::current_exe().expect("exe");
    let mut digests = vec![];
    for _ in 0..2 {
        let out = std::process::Command::new(&exe).args(["C16-child", "--tier", &run.tier]).output();
        match out {
            Ok(o2) => {
                let s = String::from_utf8_lossy(&o2.stdout).to_string();
                digests.push(s.lines().find(|l| l.starts_with("DIGEST")).unwrap_or("").to_string());
            }
            Err(e) => run.machinery(format!("cannot spawn child: {e}")),
        }
    }
    let mine = format!("DIGEST {:016x} {}", o.digest, o.leaves);
    if digests.len() == 2 && (digests[0] != digests[1] || digests[0] != mine) {
        if digests.iter().any(|d| d.is_empty()) {
            run.machinery(format!("a digest child produced no digest: {digests:?}"));
        } else {
            run.violation("process/digest", format!("observation digests differ between processes: {mine} / {} / {}", digests[0], digests[1]), json!({"check":"C16","scenario":"digest"}));
        }
    }
    run.states = scenarios(quick).len() as u64;
    run.evaluations = o.leaves + o.replays + h + io;
    run.transitions = run.evaluations;
    run.traces_validated = o.replays + h + io;
    run.distinct_nontrivial = o.nontrivial;
    run.rule = "every scenario of the selector, weighted, crossover, mutation and generator checks: explore all word sequences (cap 20,000 leaves per scenario), replay every leaf twice from its recorded choice sequence and compare observation and complete draw trace; scenarios whose specification is random must show >= 2 outcomes over the supplied generator's streams (a subject using rand::rng() shows one leaf); history independence on shared operator values; observation digest compared across three processes; Push programs with 4 inputs (three families of names: plain; differing only in case, a trailing space or by prefix; composed and decomposed accents) under all 24 declaration orders, each built twice; non-trivial = scenarios with more than one outcome".into();
    run.bound("scenarios", json!(run.states));
    run.bound("input_order_genome_len", json!(if quick { 3 } else { 4 }));
    run.note("leaves", json!(o.leaves));
    run.note("replays", json!(o.replays));
    run.note("history_replays", json!(h));
    run.note("input_order_runs", json!(io));
    run.note("digest", json!(mine));
    run.assumptions = vec!["'all seeds' is covered as 'all word sequences on the scenario's alphabet'; real PRNG streams are not needed for the verdict".into()];
    run.sample(json!({"scenario":"select/Tour(2) on [2, 1, 3]","leaves":144,"each_leaf":"replayed twice, identical result and draw trace"}));
    run.sample(json!({"scenario":"input-orders","program":"a b Int-Add d Int-LessThan","orders":24}));
}

pub fn replay(v: &Value) -> bool {
    let mut r = Run::new("C16", "quick");
    match v["scenario"].as_str() {
        Some("long-run") => {
            long_run(&mut r);
        }
        Some("input-orders") => {
            input_orders(&mut r, false);
        }
        Some(s) if s.starts_with("history/") => {
            history_independence(&mut r);
        }
        Some(name) => {
            for quick in [true, false] {
                if let Some(s) = scenarios(quick).into_iter().find(|s| s.name == name) {
                    let mut leaves: Vec<(Vec<Choice>, String)> = vec![];
                    explore(|env| (s.run)(env), |t, _, o| leaves.push((t.to_vec(), o)), 20_000);
                    println!("{name}: {} leaves", leaves.len());
                    let mut ok = true;
                    for (t, o) in &leaves {
                        let (o2, env) = replay_trace(|e| (s.run)(e), t);
                        if o2 != *o || env.trace != *t {
                            println!("MISMATCH: choices {:?}: {o} vs {o2}", t.iter().map(|c| c.pick).collect::<Vec<_>>());
                            ok = false;
                            break;
                        }
                    }
                    return ok;
                }
            }
        }
        None => {}
    }
    let g = r.violations.lock().unwrap();
    for (k, x) in g.iter() {
        println!("MISMATCH [{k}]: {}", x.what);
    }
    g.is_empty()
}
