//! C12 — configured probabilities are the probabilities applied.
//! Engine E1 with exact rational laws on lattice rates.

use crate::c11::{flip_once, umad_once, FlipKind, Gene, GenomeKind, UmadKind};
use ec_core::distributions::collection::ConvertToCollectionGenerator;
use ec_core::distributions::conversion::IntoDistribution;
use ec_linear::genome::bitstring::{Bitstring, BoolGenerator};
use mcx::{explore, explore_bounded, lcm, Alphabet, ChoiceRng, Env, Law, Ratio, Run};
use push::genome::plushy::{ConvertToGeneGenerator, GeneGenerator, PushGene};
use push::instruction::PushInstruction;
use rand::distr::Distribution;
use serde_json::{json, Value};

type R2 = (u32, u32);
fn rr(r: R2) -> Ratio {
    Ratio::new(r.0.min(r.1) as u128, r.1 as u128)
}
fn f(r: R2) -> f64 {
    r.0 as f64 / r.1 as f64
}

#[derive(Clone, Debug)]
pub enum Case {
    /// WithRate / WithOneOverLength: law over flip masks
    Flip { kind: FlipKind, ool: bool, rate: R2, l: usize },
    /// Umad on a Vector<Gene> parent: law over output genomes
    Umad { kind: UmadKind, a: R2, d: R2, g: usize, l: usize, genome: GenomeKind },
    /// Bitstring::random / random_with_probability / BoolGenerator collection
    Bits { which: u8, p: R2, l: usize },
    /// GeneGenerator: which = 0 explicit probability, 1 with_uniform_close_probability, 2 into_gene_generator, 3 to_gene_generator
    GeneGen { which: u8, p: R2, n: usize },
    /// long genomes (around the 64- and 128-gene marks): every stream with at most `dev` non-default
    /// words over the grid plus the extreme words; every position must be seen with both outcomes
    /// (0..=2: WithRate 1/2 on Vec / Vector / Bitstring, 3: WithOneOverLength on Vec, 4..=7: the four
    /// bit generators with p = 1/2, 8..=11: UniformXo on [Vec;2], (Vec,Vec), [Bitstring;2], (Bitstring,Bitstring))
    Long { which: u8, l: usize, dev: usize },
    /// whole random genomes: `l` genes from a GeneGenerator through the collection generator
    /// (which = 0: Plushy via to_collection_generator, 1: Plushy via into_collection_generator,
    /// 2: Vec<PushGene>); p = (0, 0) means the default close probability 1/(n+1).
    /// Law: independent genes, each Close with p and otherwise a uniformly chosen instruction.
    PlushyGen { which: u8, p: R2, n: usize, l: usize },
    /// one Umad value (new_with_empty_rate, empty rate != addition rate) used for two genomes in a row,
    /// of lengths l1 and l2: the joint law is the product of the two single-genome laws
    UmadTwo { a: R2, e: R2, d: R2, l1: usize, l2: usize },
}

fn product_mask_law(l: usize, p: Ratio) -> Law<Vec<bool>> {
    let mut law: Law<Vec<bool>> = Law::new();
    for mask in 0..(1u32 << l) {
        let bits: Vec<bool> = (0..l).map(|i| mask >> i & 1 == 1).collect();
        let mut w = Ratio::ONE;
        for b in &bits {
            w = w.mul(if *b { p } else { p.one_minus() });
        }
        law.add(bits, w);
    }
    law
}

/// `laws::umad`: per parent gene, independently: kept with 1-d; a new gene is
/// proposed with a and survives with 1-d; the generator is uniform over g genes.
/// Output genomes are rendered without serial numbers: O(i) / N(choice).
fn umad_law(l: usize, a: Ratio, d: Ratio, g: usize, kind: UmadKind) -> Law<Vec<(bool, usize)>> {
    let mut law: Law<Vec<(bool, usize)>> = Law::new();
    if l == 0 {
        let e = match kind {
            UmadKind::Plain => a,
            UmadKind::EmptyRate(n, dn) => Ratio::new(n as u128, dn as u128),
            UmadKind::WithoutEmpty => Ratio::ZERO,
        };
        law.add(vec![], e.one_minus());
        for c in 0..g {
            law.add(vec![(false, c)], e.mul(Ratio::new(1, g as u128)));
        }
        return law;
    }
    // per gene outcomes
    let keep = d.one_minus();
    let newp = a.mul(d.one_minus());
    let mut per_gene: Vec<(Vec<(bool, usize)>, Ratio)> = vec![];
    for old in [true, false] {
        let po = if old { keep } else { d };
        // no new gene
        per_gene.push((if old { vec![(true, 0)] } else { vec![] }, po.mul(newp.one_minus())));
        for c in 0..g {
            let mut v = if old { vec![(true, 0)] } else { vec![] };
            v.push((false, c));
            per_gene.push((v, po.mul(newp).mul(Ratio::new(1, g as u128))));
        }
    }
    let mut acc: Vec<(Vec<(bool, usize)>, Ratio)> = vec![(vec![], Ratio::ONE)];
    for i in 0..l {
        let mut next = vec![];
        for (pre, w) in &acc {
            for (piece, pw) in &per_gene {
                if pw.is_zero() {
                    continue;
                }
                let mut v = pre.clone();
                for (is_old, c) in piece {
                    v.push(if *is_old { (true, i) } else { (false, *c) });
                }
                next.push((v, w.mul(*pw)));
            }
        }
        acc = next;
    }
    for (v, w) in acc {
        law.add(v, w);
    }
    law
}

fn grid_for(rates: &[R2], extra: &[u32]) -> u32 {
    let mut m: u128 = 1;
    for r in rates {
        m = lcm(m, r.1 as u128);
    }
    for e in extra {
        m = lcm(m, *e as u128);
    }
    m as u32
}

fn instr_set(n: usize) -> Vec<PushInstruction> {
    (0..n).map(|i| PushInstruction::push_int(i as i64)).collect()
}

pub fn gene_gen_once(which: u8, p: R2, n: usize, env: &mut Env, alpha: Alphabet) -> Result<Option<usize>, String> {
    let mut rng = ChoiceRng::new(env, alpha);
    let instrs = instr_set(n);
    mcx::guarded(|| {
        let dist = IntoDistribution::<PushInstruction>::into_distribution(instrs.clone()).expect("non-empty instruction set");
        let gene: PushGene = match which {
            0 => GeneGenerator::new(p.0 as f32 / p.1 as f32, dist).sample(&mut rng),
            1 => GeneGenerator::with_uniform_close_probability(dist).sample(&mut rng),
            2 => dist.into_gene_generator().sample(&mut rng),
            3 => dist.to_gene_generator().sample(&mut rng),
            4 => dist.into_gene_generator_with_close_probability(p.0 as f32 / p.1 as f32).sample(&mut rng),
            _ => dist.to_gene_generator_with_close_probability(p.0 as f32 / p.1 as f32).sample(&mut rng),
        };
        match gene {
            PushGene::Close => None,
            PushGene::Instruction(i) => Some(instrs.iter().position(|x| *x == i).unwrap_or(usize::MAX)),
        }
    })
}

pub fn bits_once(which: u8, p: R2, l: usize, env: &mut Env, alpha: Alphabet) -> Result<Vec<bool>, String> {
    let mut rng = ChoiceRng::new(env, alpha);
    mcx::guarded(|| match which {
        0 => Bitstring::random(l, &mut rng).bits,
        1 => Bitstring::random_with_probability(l, f(p), &mut rng).bits,
        2 => {
            let b: Bitstring = BoolGenerator::new(f(p)).into_collection_generator(l).sample(&mut rng);
            b.bits
        }
        _ => {
            let v: Vec<bool> = BoolGenerator::new(f(p)).to_collection_generator(l).sample(&mut rng);
            v
        }
    })
}

type Out = (u64, u64, Option<(String, String)>, usize);

pub fn plushy_gen_once(which: u8, p: R2, n: usize, l: usize, env: &mut Env, alpha: Alphabet) -> Result<Vec<Option<usize>>, String> {
    use push::genome::plushy::Plushy;
    let mut rng = ChoiceRng::new(env, alpha);
    let instrs = instr_set(n);
    mcx::guarded(|| {
        let dist = IntoDistribution::<PushInstruction>::into_distribution(instrs.clone()).expect("non-empty instruction set");
        let gg = if p.1 == 0 { GeneGenerator::with_uniform_close_probability(dist) } else { GeneGenerator::new(p.0 as f32 / p.1 as f32, dist) };
        let genes: Vec<PushGene> = match which {
            0 => {
                let g: Plushy = gg.to_collection_generator(l).sample(&mut rng);
                g.get_genes()
            }
            1 => {
                let g: Plushy = gg.into_collection_generator(l).sample(&mut rng);
                g.get_genes()
            }
            _ => gg.to_collection_generator(l).sample(&mut rng),
        };
        genes
            .iter()
            .map(|g| match g {
                PushGene::Close => None,
                PushGene::Instruction(i) => Some(instrs.iter().position(|x| x == i).unwrap_or(usize::MAX)),
            })
            .collect()
    })
}

fn compare<K: Ord + Clone + std::fmt::Debug>(name: &str, label: &str, got: &Law<K>, want: &Law<K>, st: &mcx::ExploreStats, panic: Option<String>) -> Out {
    if let Some(p) = panic {
        return (st.leaves, st.choice_points, Some((format!("{name}/panic"), format!("{label}: panicked: {p}"))), 0);
    }
    if let Some(d) = &st.diverged {
        return (st.leaves, st.choice_points, Some((format!("{name}/nondeterministic"), format!("{label}: {d}"))), 0);
    }
    if st.capped || !st.total_weight_is_one {
        return (st.leaves, st.choice_points, Some(("machinery/cap".into(), format!("{label}: exploration capped or weights do not sum to 1"))), 0);
    }
    if got != want {
        return (
            st.leaves,
            st.choice_points,
            Some((format!("{name}/law"), format!("{label}: observed law {} differs from the configured law {}", got.render(), want.render()))),
            got.mass.len(),
        );
    }
    (st.leaves, st.choice_points, None, got.mass.len())
}

fn long_case(which: u8, l: usize, dev: usize) -> Out {
    let names = ["with_rate", "with_rate", "with_rate", "with_one_over_length", "bitstring_random", "bitstring_random_with_probability", "bool_generator_into_collection", "bool_generator_to_collection", "uniform_xo", "uniform_xo", "uniform_xo", "uniform_xo"];
    let name = names[which as usize];
    let label = format!("{name} (variant {which}) on a genome of length {l}");
    let alpha = if which == 3 { Alphabet::Ext(l as u32) } else { Alphabet::Bits };
    let mut seen = vec![[false; 2]; l];
    let mut differ = vec![false; l * l];
    let mut bad: Option<String> = None;
    let st = explore_bounded(
        |env| -> Result<Vec<bool>, String> {
            match which {
                0 => flip_once(FlipKind::VecTag, false, 0.5, l, env, alpha).and_then(|x| x),
                1 => flip_once(FlipKind::VectorTag, false, 0.5, l, env, alpha).and_then(|x| x),
                2 => flip_once(FlipKind::Bits, false, 0.5, l, env, alpha).and_then(|x| x),
                3 => flip_once(FlipKind::VecTag, true, 0.0, l, env, alpha).and_then(|x| x),
                4..=7 => bits_once(which - 4, (1, 2), l, env, alpha),
                _ => {
                    use crate::c10::{recombine, Flavour, XoObs};
                    let f = [Flavour::VecArr, Flavour::VecTuple, Flavour::BitArr, Flavour::BitTuple][which as usize - 8];
                    match recombine(false, f, l, l, env, alpha) {
                        XoObs::Child(c) => Ok(c.iter().map(|p| *p == 2).collect()),
                        other => Err(format!("{other:?}")),
                    }
                }
            }
        },
        |_, o| match o {
            Ok(bits) => {
                if bits.len() != l {
                    bad = Some(format!("output of length {}", bits.len()));
                }
                for (i, b) in bits.iter().enumerate().take(l) {
                    seen[i][*b as usize] = true;
                }
                if bits.len() == l {
                    for i in 0..l {
                        for j in i + 1..l {
                            if bits[i] != bits[j] {
                                differ[i * l + j] = true;
                            }
                        }
                    }
                }
            }
            Err(e) => bad = Some(e),
        },
        dev,
        5_000_000,
    );
    if st.capped {
        return (st.leaves, st.choice_points, Some(("machinery/cap".into(), format!("{label}: capped"))), 0);
    }
    if let Some(b) = bad {
        return (st.leaves, st.choice_points, Some((format!("{name}/long-result"), format!("{label}: {b}"))), 0);
    }
    let stuck: Vec<(usize, bool)> = (0..l).flat_map(|i| [(i, false), (i, true)]).filter(|(i, v)| !seen[*i][*v as usize]).collect();
    if !stuck.is_empty() {
        return (
            st.leaves,
            st.choice_points,
            Some((format!("{name}/long-support"), format!("{label}: over every stream with at most {dev} non-default words, {} (position, outcome) pairs never occur, e.g. {:?} -- these genes are not decided by the random stream with the configured probability", stuck.len(), &stuck[..stuck.len().min(4)]))),
            1,
        );
    }
    // independence: two genes that are decided independently with a probability strictly between 0 and 1
    // can come out differently (for 1/l on a long genome: one flipped, the other not)
    let tied: Vec<(usize, usize)> = (0..l).flat_map(|i| (i + 1..l).map(move |j| (i, j))).filter(|(i, j)| !differ[i * l + j]).collect();
    if !tied.is_empty() {
        return (
            st.leaves,
            st.choice_points,
            Some((format!("{name}/long-independence"), format!("{label}: {} pairs of positions always have the same outcome, e.g. {:?} -- these genes are not decided independently", tied.len(), &tied[..tied.len().min(4)]))),
            1,
        );
    }
    (st.leaves, st.choice_points, None, 2)
}

fn umad_two_case(a: R2, e: R2, d: R2, l1: usize, l2: usize) -> Out {
    use crate::c11::TagGen;
    use ec_core::operator::mutator::Mutator;
    use ec_linear::genome::vector::Vector;
    use ec_linear::mutator::umad::Umad;
    let m = grid_for(&[a, e, d], &[]);
    let label = format!("one Umad::new_with_empty_rate(a={}, empty={}, d={}) value mutating a genome of length {l1}, then one of length {l2}", rr(a), rr(e), rr(d));
    let render = |out: &[Gene]| -> Vec<(bool, usize)> {
        out.iter().map(|x| match x { Gene::Old(i) => (true, *i), Gene::New { choice, .. } => (false, *choice) }).collect()
    };
    let mut law: Law<(Vec<(bool, usize)>, Vec<(bool, usize)>)> = Law::new();
    let mut panic = None;
    let st = explore(
        |env| {
            let gen = TagGen { g: 1, serial: std::cell::Cell::new(0) };
            let mut rng = ChoiceRng::new(env, Alphabet::Grid(m));
            mcx::guarded(|| {
                let um = Umad::new_with_empty_rate(f(a), f(e), f(d), &gen);
                let p1: Vector<Gene> = (0..l1).map(Gene::Old).collect();
                let p2: Vector<Gene> = (0..l2).map(Gene::Old).collect();
                let o1 = um.mutate(p1, &mut rng).unwrap().genes;
                let o2 = um.mutate(p2, &mut rng).unwrap().genes;
                (o1, o2)
            })
        },
        |_, w, o| match o {
            Ok((o1, o2)) => law.add((render(&o1), render(&o2)), w),
            Err(p) => panic = Some(p),
        },
        50_000_000,
    );
    let w1 = umad_law(l1, rr(a), rr(d), 1, UmadKind::EmptyRate(e.0, e.1));
    let w2 = umad_law(l2, rr(a), rr(d), 1, UmadKind::EmptyRate(e.0, e.1));
    let mut want: Law<(Vec<(bool, usize)>, Vec<(bool, usize)>)> = Law::new();
    for (k1, p1) in &w1.mass {
        for (k2, p2) in &w2.mass {
            want.add((k1.clone(), k2.clone()), p1.mul(*p2));
        }
    }
    compare("umad-reused", &label, &law, &want, &st, panic)
}

pub fn run_case(c: &Case) -> Out {
    match c {
        Case::Long { which, l, dev } => long_case(*which, *l, *dev),
        Case::UmadTwo { a, e, d, l1, l2 } => umad_two_case(*a, *e, *d, *l1, *l2),
        Case::PlushyGen { which, p, n, l } => {
            let pc = if p.1 == 0 { Ratio::new(1, *n as u128 + 1) } else { rr(*p) };
            let m = if p.1 == 0 { (*n * (*n + 1)) as u32 } else { grid_for(&[*p], &[*n as u32]) };
            let names = ["plushy_to_collection_generator", "plushy_into_collection_generator", "gene_vec_collection_generator"];
            let name = names[*which as usize];
            let label = format!("{name}: {l} genes, close probability {pc}, {n} instructions");
            let mut law: Law<Vec<Option<usize>>> = Law::new();
            let mut panic = None;
            let st = explore(
                |env| plushy_gen_once(*which, *p, *n, *l, env, Alphabet::Grid(m)),
                |_, w, o| match o {
                    Ok(x) => law.add(x, w),
                    Err(p) => panic = Some(p),
                },
                50_000_000,
            );
            // product law over the l positions
            let mut per: Vec<(Option<usize>, Ratio)> = vec![(None, pc)];
            for i in 0..*n {
                per.push((Some(i), pc.one_minus().mul(Ratio::new(1, *n as u128))));
            }
            let mut acc: Vec<(Vec<Option<usize>>, Ratio)> = vec![(vec![], Ratio::ONE)];
            for _ in 0..*l {
                let mut next = vec![];
                for (pre, w) in &acc {
                    for (g, pw) in &per {
                        if pw.is_zero() {
                            continue;
                        }
                        let mut v = pre.clone();
                        v.push(*g);
                        next.push((v, w.mul(*pw)));
                    }
                }
                acc = next;
            }
            let mut want: Law<Vec<Option<usize>>> = Law::new();
            for (v, w) in acc {
                want.add(v, w);
            }
            compare(name, &label, &law, &want, &st, panic)
        }
        Case::Flip { kind, ool, rate, l } => {
            let p = if *ool { Ratio::new(1, (*l).max(1) as u128) } else { rr(*rate) };
            let m = if *ool { (*l).max(1) as u32 } else { grid_for(&[*rate], &[]) };
            let name = if *ool { "with_one_over_length" } else { "with_rate" };
            let label = format!("{name} {kind:?} rate {p} length {l}");
            let mut law: Law<Vec<bool>> = Law::new();
            let mut panic = None;
            let st = explore(
                |env| flip_once(*kind, *ool, rate.0 as f32 / rate.1 as f32, *l, env, Alphabet::Grid(m)),
                |_, w, o| match o {
                    Ok(Ok(mask)) => law.add(mask, w),
                    Ok(Err(e)) => panic = Some(e),
                    Err(p) => panic = Some(p),
                },
                50_000_000,
            );
            let want = product_mask_law(*l, p);
            let mut out = compare(name, &label, &law, &want, &st, panic);
            if out.2.is_none() && *ool && *l >= 1 {
                // expected number of flips is exactly one
                let mut e = Ratio::ZERO;
                for (mask, w) in &law.mass {
                    e = e.add(w.mul(Ratio::int(mask.iter().filter(|b| **b).count() as u128)));
                }
                if e != Ratio::ONE {
                    out.2 = Some((format!("{name}/expected-flips"), format!("{label}: expected flips {e}")));
                }
            }
            out
        }
        Case::Umad { kind, a, d, g, l, genome } => {
            let m = grid_for(&[*a, *d], &[*g as u32, if let UmadKind::EmptyRate(_, dn) = kind { *dn } else { 1 }]);
            let label = format!("UMAD {kind:?} {genome:?} a={} d={} generator size {g} parent length {l}", rr(*a), rr(*d));
            let mut law: Law<Vec<(bool, usize)>> = Law::new();
            let mut panic = None;
            let st = explore(
                |env| umad_once(*genome, *kind, f(*a), f(*d), *g, *l, env, Alphabet::Grid(m), false),
                |_, w, o| match o {
                    Ok((out, _)) => law.add(
                        out.iter()
                            .map(|x| match x {
                                Gene::Old(i) => (true, *i),
                                Gene::New { choice, .. } => (false, *choice),
                            })
                            .collect(),
                        w,
                    ),
                    Err(p) => panic = Some(p),
                },
                100_000_000,
            );
            let want = umad_law(*l, rr(*a), rr(*d), *g, *kind);
            let mut out = compare("umad", &label, &law, &want, &st, panic);
            if out.2.is_none() && *l >= 1 {
                // expected size l(1-d)(1+a), in particular preserved when d = a/(1+a)
                let mut e = Ratio::ZERO;
                for (v, w) in &law.mass {
                    e = e.add(w.mul(Ratio::int(v.len() as u128)));
                }
                let want_e = Ratio::int(*l as u128).mul(rr(*d).one_minus()).mul(Ratio::ONE.add(rr(*a)));
                if e != want_e {
                    out.2 = Some(("umad/expected-size".into(), format!("{label}: expected output size {e}, configured rates give {want_e}")));
                }
            }
            out
        }
        Case::Bits { which, p, l } => {
            let (pp, m) = if *which == 0 { (Ratio::new(1, 2), 2) } else { (rr(*p), grid_for(&[*p], &[])) };
            let names = ["bitstring_random", "bitstring_random_with_probability", "bool_generator_into_collection", "bool_generator_to_collection"];
            let name = names[*which as usize];
            let label = format!("{name} p={pp} length {l}");
            let mut law: Law<Vec<bool>> = Law::new();
            let mut panic = None;
            let st = explore(
                |env| bits_once(*which, *p, *l, env, Alphabet::Grid(m)),
                |_, w, o| match o {
                    Ok(bits) => law.add(bits, w),
                    Err(p) => panic = Some(p),
                },
                50_000_000,
            );
            let mut want: Law<Vec<bool>> = Law::new();
            for (k, v) in product_mask_law(*l, pp).mass {
                want.add(k, v);
            }
            // exactly l bits
            if law.mass.keys().any(|b| b.len() != *l) && panic.is_none() {
                return (st.leaves, st.choice_points, Some((format!("{name}/size"), format!("{label}: a bitstring of another length was produced"))), 0);
            }
            compare(name, &label, &law, &want, &st, panic)
        }
        Case::GeneGen { which, p, n } => {
            let explicit = matches!(which, 0 | 4 | 5);
            let pc = if explicit { rr(*p) } else { Ratio::new(1, *n as u128 + 1) };
            let m = if explicit { grid_for(&[*p], &[*n as u32]) } else { (*n * (*n + 1)) as u32 };
            let names = ["gene_generator_new", "with_uniform_close_probability", "into_gene_generator", "to_gene_generator", "into_gene_generator_with_close_probability", "to_gene_generator_with_close_probability"];
            let name = names[*which as usize];
            let label = format!("{name} close probability {pc} over {n} instructions");
            let mut law: Law<Option<usize>> = Law::new();
            let mut panic = None;
            let st = explore(
                |env| gene_gen_once(*which, *p, *n, env, Alphabet::Grid(m)),
                |_, w, o| match o {
                    Ok(x) => law.add(x, w),
                    Err(p) => panic = Some(p),
                },
                50_000_000,
            );
            let mut want: Law<Option<usize>> = Law::new();
            want.add(None, pc);
            for i in 0..*n {
                want.add(Some(i), pc.one_minus().mul(Ratio::new(1, *n as u128)));
            }
            compare(name, &label, &law, &want, &st, panic)
        }
    }
}

pub fn cases(quick: bool) -> Vec<Case> {
    let lattice: Vec<R2> = vec![(0, 1), (1, 4), (1, 3), (1, 2), (3, 4), (1, 1)];
    let mut v = vec![];
    let fl = if quick { 2 } else { 3 };
    for kind in [FlipKind::VecTag, FlipKind::VectorTag, FlipKind::Bits, FlipKind::VecSpare, FlipKind::VectorSpare, FlipKind::BitsSpare] {
        for l in 0..=fl {
            for r in &lattice {
                v.push(Case::Flip { kind, ool: false, rate: *r, l });
            }
        }
        for l in 1..=if quick { 3 } else { 4 } {
            v.push(Case::Flip { kind, ool: true, rate: (1, l as u32), l });
        }
    }
    // UMAD on the m = 4 lattice: lengths 1 and 2; the thirds on length 1
    let q4: Vec<R2> = vec![(0, 1), (1, 4), (1, 2), (3, 4), (1, 1)];
    for genome in [GenomeKind::Vector, GenomeKind::Plushy] {
        for a in &q4 {
            for d in &q4 {
                for g in [1usize, 2] {
                    for l in 1..=2usize {
                        if quick && l == 2 && (g == 2 || genome == GenomeKind::Plushy) {
                            continue;
                        }
                        v.push(Case::Umad { kind: UmadKind::Plain, a: *a, d: *d, g, l, genome });
                    }
                }
            }
        }
        // size-preserving pairs d = a/(1+a)
        for (a, d) in [((1, 1), (1, 2)), ((1, 3), (1, 4)), ((1, 2), (1, 3))] {
            v.push(Case::Umad { kind: UmadKind::Plain, a, d, g: 1, l: 1, genome });
            if !quick {
                v.push(Case::Umad { kind: UmadKind::Plain, a, d, g: 3, l: 1, genome });
            }
        }
        // empty parents
        for a in &q4 {
            v.push(Case::Umad { kind: UmadKind::Plain, a: *a, d: (1, 2), g: 2, l: 0, genome });
            v.push(Case::Umad { kind: UmadKind::WithoutEmpty, a: *a, d: (1, 2), g: 2, l: 0, genome });
            for e in [(0u32, 4u32), (1, 4), (1, 3), (4, 4)] {
                v.push(Case::Umad { kind: UmadKind::EmptyRate(e.0, e.1), a: *a, d: (1, 2), g: 2, l: 0, genome });
            }
        }
    }
    for l in 0..=3usize {
        v.push(Case::Bits { which: 0, p: (1, 2), l });
        for p in &lattice {
            for which in 1..=3u8 {
                v.push(Case::Bits { which, p: *p, l });
            }
        }
    }
    for l in if quick { (9usize..=80).chain([97, 100, 127, 128, 129]).collect::<Vec<usize>>() } else { (9usize..=140).chain([191, 192, 193, 255, 256, 257, 300]).collect() } {
        for which in 0..12u8 {
            v.push(Case::Long { which, l, dev: if quick || which == 3 || l > 130 { 1 } else { 2 } });
        }
    }
    for (a, e) in [((1u32, 4u32), (3u32, 4u32)), ((3, 4), (1, 4)), ((0, 1), (1, 1)), ((1, 1), (0, 1)), ((1, 2), (1, 4))] {
        for d in [(0u32, 1u32), (1, 2)] {
            for (l1, l2) in [(0usize, 1usize), (1, 0), (0, 0), (1, 1)] {
                v.push(Case::UmadTwo { a, e, d, l1, l2 });
            }
        }
    }
    for which in 0..3u8 {
        for n in 1..=if quick { 2usize } else { 3 } {
            for l in 0..=if quick { 2usize } else { 3 } {
                for p in [(0u32, 0u32), (1, 2), (1, 4), (0, 1), (1, 1)] {
                    let m = if p.1 == 0 { (n * (n + 1)) as u64 } else { lcm(p.1 as u128, n as u128) as u64 };
                    if m.pow(2 * l as u32) > 3_000_000 {
                        continue;
                    }
                    v.push(Case::PlushyGen { which, p, n, l });
                }
            }
        }
    }
    for n in 1..=5usize {
        for which in 1..=3u8 {
            v.push(Case::GeneGen { which, p: (0, 1), n });
        }
        for p in &lattice {
            for which in [0u8, 4, 5] {
                v.push(Case::GeneGen { which, p: *p, n });
            }
        }
    }
    v
}

/// a generator that hands out `first` and then the all-ones word
pub struct FirstWordThenOnes {
    pub first: u64,
    pub used: bool,
}
impl rand::RngCore for FirstWordThenOnes {
    fn next_u32(&mut self) -> u32 {
        if self.used {
            u32::MAX
        } else {
            self.used = true;
            (self.first >> 32) as u32
        }
    }
    fn next_u64(&mut self) -> u64 {
        if self.used {
            u64::MAX
        } else {
            self.used = true;
            self.first
        }
    }
    fn fill_bytes(&mut self, dst: &mut [u8]) {
        dst.fill(0xff);
    }
}

/// Locate the threshold of a coin that comes up "true" for small first words: the smallest first word (to
/// within `resolution`) for which `probe` is false.  Err: the coin is not of that form.
pub fn coin_threshold(mut probe: impl FnMut(u64) -> Option<bool>, resolution: u64) -> Result<u64, String> {
    match (probe(0), probe(u64::MAX)) {
        (Some(true), Some(false)) => {}
        (Some(false), Some(false)) => return Ok(0),
        (Some(true), Some(true)) => return Ok(u64::MAX),
        other => return Err(format!("first word 0 and the all-ones word give {other:?}: not a coin that is true for small words")),
    }
    let (mut lo, mut hi) = (0u64, u64::MAX);
    while hi - lo > resolution.max(1) {
        let mid = lo + (hi - lo) / 2;
        match probe(mid) {
            Some(true) => lo = mid,
            Some(false) => hi = mid,
            None => return Err(format!("with the first word {mid:#x} something else than the coin's outcome changed")),
        }
    }
    Ok(hi)
}
fn as_probability(t: u64) -> f64 {
    if t == u64::MAX {
        1.0
    } else {
        t as f64 / 18_446_744_073_709_551_616.0
    }
}

/// Rates deep inside the domain (not on the 1/12 lattice of the exact-law cases): each configured rate is the
/// probability of the first coin, located by bisection of its threshold.  `tolerance`: 2^-24 for coins drawn
/// as f32, 2^-52 for `random_bool`.
fn deep_rates(run: &mut Run) -> u64 {
    use ec_core::operator::mutator::Mutator;
    use ec_linear::mutator::with_rate::WithRate;
    let mut n = 0u64;
    let rates: Vec<f64> = vec![1e-7, 1e-5, 0.001, 0.01, 0.013, 0.05, 0.1, 0.2, 0.3, 1.0 / 3.0, 0.49, 0.5, 0.51, 2.0 / 3.0, 0.75, 0.9, 0.99, 0.999, 0.999_999];
    let mut judge = |run: &mut Run, what: String, r: Result<u64, String>, want: f64, tol: f64| {
        let bad = match r {
            Err(e) => Some(("result", e)),
            Ok(t) => {
                let p = as_probability(t);
                ((p - want).abs() > tol).then(|| ("rate", format!("the coin comes up for first words below {t:#x}, i.e. with probability {p:e}; configured: {want:e}")))
            }
        };
        if let Some((k, w)) = bad {
            run.violation(format!("deep-rate/{}/{k}", what.split(' ').next().unwrap_or("")), format!("{what}: {w}"), json!({"check":"C12","scenario":"deep-rates"}));
        }
    };
    for r in &rates {
        let (r, rf) = (*r, *r as f32);
        // WithRate on three genes: the first gene's flip
        for bits in [true, false] {
            let t = mcx::guarded(|| {
                coin_threshold(
                    |w| {
                        n += 1;
                        let mut rng = FirstWordThenOnes { first: w, used: false };
                        let out: Vec<bool> = if bits { WithRate::new(rf).mutate(Bitstring { bits: vec![false; 3] }, &mut rng).ok()?.bits } else { WithRate::new(rf).mutate(vec![false; 3], &mut rng).ok()? };
                        (out.len() == 3 && !out[1] && !out[2]).then_some(out[0])
                    },
                    1 << 30,
                )
            })
            .unwrap_or_else(Err);
            judge(run, format!("WithRate({rf}) on a {} of 3 genes", if bits { "Bitstring" } else { "Vec<bool>" }), t, rf as f64, 1.0 / 16_777_216.0);
        }
        // random bits: the first bit
        for which in 0..2 {
            let t = mcx::guarded(|| {
                coin_threshold(
                    |w| {
                        n += 1;
                        let mut rng = FirstWordThenOnes { first: w, used: false };
                        let b: Vec<bool> = if which == 0 { Bitstring::random_with_probability(3, r, &mut rng).bits } else { BoolGenerator::new(r).into_collection_generator(3).sample(&mut rng) };
                        (b.len() == 3 && !b[1] && !b[2]).then_some(b[0])
                    },
                    1 << 8,
                )
            })
            .unwrap_or_else(Err);
            judge(run, format!("{}({r}) first of 3 bits", if which == 0 { "Bitstring::random_with_probability" } else { "BoolGenerator" }), t, r, 1e-15);
        }
        // gene generator: the close marker
        for nn in [1usize, 3, 7] {
            let t = mcx::guarded(|| {
                coin_threshold(
                    |w| {
                        n += 1;
                        let mut rng = FirstWordThenOnes { first: w, used: false };
                        let dist = IntoDistribution::<PushInstruction>::into_distribution(instr_set(nn)).ok()?;
                        Some(matches!(GeneGenerator::new(rf, dist).sample(&mut rng), PushGene::Close))
                    },
                    1 << 30,
                )
            })
            .unwrap_or_else(Err);
            judge(run, format!("GeneGenerator::new({rf}, {nn} instructions) close marker"), t, rf as f64, 1.0 / 16_777_216.0);
        }
    }
    // the default close probability 1/(n+1) for many instruction counts
    for nn in (1usize..=40).chain([63, 64, 99, 100, 255, 256, 1000, 4095, 65_535]) {
        let t = mcx::guarded(|| {
            coin_threshold(
                |w| {
                    n += 1;
                    let mut rng = FirstWordThenOnes { first: w, used: false };
                    let dist = IntoDistribution::<PushInstruction>::into_distribution(instr_set(nn)).ok()?;
                    Some(matches!(GeneGenerator::with_uniform_close_probability(dist).sample(&mut rng), PushGene::Close))
                },
                1 << 30,
            )
        })
        .unwrap_or_else(Err);
        judge(run, format!("GeneGenerator::with_uniform_close_probability({nn} instructions) close marker"), t, 1.0 / (nn as f64 + 1.0), 1.0 / 16_777_216.0);
    }
    run.bound("deep_rates", json!(rates));
    n
}

/// The rate of the length-scaled flip on genomes far too long for any tree: the first gene's coin is a
/// threshold on its word (flip iff word < T), so T is located by bisection over the word - every later gene
/// is handed the all-ones word and keeps its value - and T / 2^64 must be 1/length as exactly as a 24-bit
/// draw allows.  (32 executions of 2^24 genes each instead of 2^24 executions.)
fn length_scaled_threshold(run: &mut Run) -> u64 {
    use ec_core::operator::mutator::Mutator;
    use ec_linear::mutator::with_one_over_length::WithOneOverLength;
    struct FirstThenOnes {
        first: u64,
        used: bool,
    }
    impl rand::RngCore for FirstThenOnes {
        fn next_u32(&mut self) -> u32 {
            if self.used {
                u32::MAX
            } else {
                self.used = true;
                (self.first >> 32) as u32
            }
        }
        fn next_u64(&mut self) -> u64 {
            if self.used {
                u64::MAX
            } else {
                self.used = true;
                self.first
            }
        }
        fn fill_bytes(&mut self, dst: &mut [u8]) {
            dst.fill(0xff);
        }
    }
    let lens: Vec<usize> = if run.quick() { vec![1 << 24] } else { vec![(1 << 24) - 1, 1 << 24, (1 << 24) + 1, 3 << 23, 1 << 25, 10_000_000] };
    let mut n = 0u64;
    for l in lens {
        for bits in [true, false] {
            // does the first gene flip when its coin is decided by `word`?  None: the mutator failed or changed something else
            let mut probe = |word: u64| -> Option<bool> {
                n += 1;
                let mut rng = FirstThenOnes { first: word, used: false };
                let out: Vec<bool> = if bits {
                    WithOneOverLength.mutate(Bitstring { bits: vec![false; l] }, &mut rng).ok()?.bits
                } else {
                    WithOneOverLength.mutate(vec![false; l], &mut rng).ok()?
                };
                (out.len() == l && out[1..].iter().all(|b| !*b)).then_some(out[0])
            };
            let label = format!("WithOneOverLength on a {} of {l} genes", if bits { "Bitstring" } else { "Vec<bool>" });
            let what = match (mcx::guarded(|| (probe(0), probe(u64::MAX)))) {
                Err(p) => Some(("panic", format!("panicked: {p}"))),
                Ok((Some(true), Some(false))) => {
                    // smallest word that does not flip
                    let (mut lo, mut hi) = (0u64, u64::MAX);
                    let mut broken = None;
                    while hi - lo > 1 {
                        let mid = lo + (hi - lo) / 2;
                        match mcx::guarded(|| probe(mid)) {
                            Ok(Some(true)) => lo = mid,
                            Ok(Some(false)) => hi = mid,
                            other => {
                                broken = Some(format!("with the first word {mid:#x}: {other:?}"));
                                break;
                            }
                        }
                    }
                    match broken {
                        Some(b) => Some(("result", b)),
                        None => {
                            let p = hi as f64 / 18_446_744_073_709_551_616.0;
                            let want = 1.0 / l as f64;
                            ((p - want).abs() >= 1.0 / 16_777_216.0).then(|| ("rate", format!("the first gene flips for first words below {hi:#x}, i.e. with probability {p:e}; 1/length is {want:e} (a 24-bit draw can be off by less than 2^-24)")))
                        }
                    }
                }
                Ok(other) => Some(("result", format!("the first gene does not flip exactly for small first words: word 0 and the all-ones word give {other:?} (Some(flipped), None = something else changed)"))),
            };
            if let Some((k, w)) = what {
                run.violation(format!("with_one_over_length/huge/{k}"), format!("{label}: {w}"), json!({"check":"C12","scenario":"length-scaled-threshold"}));
            }
        }
    }
    run.bound("length_scaled_threshold_lengths", json!(if run.quick() { "2^24" } else { "2^24-1, 2^24, 2^24+1, 3*2^23, 2^25, 10^7" }));
    n
}

pub fn run(run: &mut Run) {
    if let Err(e) = mcx::rng::calibrate() {
        run.machinery(format!("calibration failed: {e}"));
        return;
    }
    let t = length_scaled_threshold(run) + deep_rates(run);
    run.evaluations += t;
    run.transitions += t;
    let cs = cases(run.quick());
    let results = mcx::par_map(cs.len(), |i| run_case(&cs[i]));
    let mut nontrivial = 0;
    for (i, (leaves, cps, v, outcomes)) in results.into_iter().enumerate() {
        run.evaluations += leaves;
        run.transitions += cps;
        if outcomes > 1 {
            nontrivial += 1;
        }
        if let Some((k, w)) = v {
            if k.starts_with("machinery/") {
                run.machinery(w);
            } else {
                run.violation(k, w, json!({"check":"C12","index":i,"quick":run.quick(),"case":format!("{:?}", cs[i])}));
            }
        }
    }
    run.states = cs.len() as u64;
    run.traces_validated = run.evaluations;
    run.distinct_nontrivial = nontrivial;
    run.rule = "lattice rates {0,1/4,1/3,1/2,3/4,1}: WithRate / WithOneOverLength flip-mask law = product law; one Umad value reused for an empty and a non-empty genome (product law); Umad output-genome law = per-gene law (keep 1-d, insert a(1-d), uniform generator) incl. expected size l(1-d)(1+a) and the empty-parent rate; Bitstring::random / random_with_probability / BoolGenerator product laws; GeneGenerator close probability (explicit and 1/(n+1)) and uniform instruction choice, for single genes and for whole random genomes of 0..2 (3) genes built through the collection generator (Plushy and Vec<PushGene>): product law over the positions; all grid word sequences, laws compared as exact rationals. (UniformXo's exact 1/2 law on short genomes is decided in C10.) Long genomes (every length 9..80 and 97..129, thorough 9..140 and up to 300): flips, bit generators and UniformXo under every stream with at most 1 (2) non-default words over the grid plus the extreme words: every gene must be seen with both outcomes and every pair of genes with different outcomes (alphabet with alternating bit-block words, so that implementations serving several genes from one word are driven through every pair as well). non-trivial = scenarios whose law has more than one outcome".into();
    run.bound("umad_parent_lengths", json!("0, 1, 2 (m=4 lattice); thirds on length 1"));
    run.bound("flip_lengths", json!(if run.quick() { "0..2 (1/l: 1..3)" } else { "0..3 (1/l: 1..4)" }));
    run.bound("instruction_set_sizes", json!("1..5"));
    run.assumptions = vec!["rates off the lattice (multiples of 1/12) are not explored; f32/f64 rounding below 2^-24 is invisible on the grid".into()];
    run.sample(json!({"op":"Umad::new(1/2, 1/4, gen of 2)","parent_length":1,"law":"[O0]: 15/32 (kept, no surviving new gene) ...","expected_size":"1*(3/4)*(3/2) = 9/8"}));
    run.sample(json!({"op":"into_gene_generator over 3 instructions","law":"Close 1/4, each instruction 1/4"}));
}

pub fn replay(v: &Value) -> bool {
    if v["scenario"] == json!("length-scaled-threshold") || v["scenario"] == json!("deep-rates") {
        let mut r = Run::new("C12", "quick");
        length_scaled_threshold(&mut r);
        deep_rates(&mut r);
        let g = r.violations.lock().unwrap();
        for (k, x) in g.iter() {
            println!("MISMATCH [{k}]: {}", x.what);
        }
        if g.is_empty() {
            println!("replay: property held");
        }
        return g.is_empty();
    }
    let cs = cases(v["quick"].as_bool().unwrap_or(false));
    let i = v["index"].as_u64().unwrap_or(0) as usize;
    let Some(c) = cs.get(i) else { return false };
    if Some(format!("{c:?}").as_str()) != v["case"].as_str() {
        println!("note: case list changed since the artefact was written; running the case at the recorded index");
    }
    let (leaves, _, viol, outcomes) = run_case(c);
    println!("{c:?}: {leaves} executions, {outcomes} distinct outcomes");
    match viol {
        Some((k, w)) => {
            println!("MISMATCH [{k}]: {w}");
            false
        }
        None => {
            println!("replay: property held");
            true
        }
    }
}
