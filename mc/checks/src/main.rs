//! `mc <ID> --tier quick|thorough` / `mc <ID> --replay <file>`
mod c01;
mod c02;
mod c03;
mod c04;
mod c05;
mod c06;
mod c07;
mod c08;
mod c09;
mod c10;
mod c11;
mod c12;
mod c13;
mod c14;
mod c15;
mod c16;
mod c18;
mod bigpop;
mod selectors;
mod interp;
mod pushref;
mod util;
mod vm;

use mcx::Run;

fn main() {
    mcx::quiet_panics();
    let args: Vec<String> = std::env::args().collect();
    if args.len() < 2 {
        eprintln!("usage: mc <ID> [--tier quick|thorough] [--replay file]");
        std::process::exit(2);
    }
    let id = args[1].clone();
    let mut tier = std::env::var("VERIF_TIER").unwrap_or_else(|_| "quick".into());
    let mut replay: Option<String> = None;
    let mut i = 2;
    while i < args.len() {
        match args[i].as_str() {
            "--tier" => {
                tier = args[i + 1].clone();
                i += 2;
            }
            "--replay" => {
                replay = Some(args[i + 1].clone());
                i += 2;
            }
            other => {
                eprintln!("unknown argument {other}");
                std::process::exit(2);
            }
        }
    }
    if id == "C16-child" {
        c16::child(&tier);
        return;
    }
    if id == "C03-child" {
        c03::child(&tier);
        return;
    }
    if id == "calibrate" {
        match mcx::rng::calibrate() {
            Ok(n) => println!("calibration ok: {n} runs"),
            Err(e) => {
                eprintln!("MACHINERY: calibration failed: {e}");
                std::process::exit(2)
            }
        }
        return;
    }
    if let Some(path) = replay {
        let text = std::fs::read_to_string(&path).unwrap_or_else(|e| {
            eprintln!("cannot read {path}: {e}");
            std::process::exit(2)
        });
        let v: serde_json::Value = serde_json::from_str(&text).unwrap_or_else(|e| {
            eprintln!("cannot parse {path}: {e}");
            std::process::exit(2)
        });
        let ok = match id.as_str() {
            "C04" => c04::replay(&v["replay"]),
            "C03" => c03::replay(&v["replay"]),
            "C05" => c05::replay(&v["replay"]),
            "C07" => c07::replay(&v["replay"]),
            "C06" => c06::replay(&v["replay"]),
            "C08" => c08::replay(&v["replay"]),
            "C13" => c13::replay(&v["replay"]),
            "C14" => c14::replay(&v["replay"]),
            "C15" => c15::replay(&v["replay"]),
            "C09" => c09::replay(&v["replay"]),
            "C16" => c16::replay(&v["replay"]),
            "C18" => c18::replay(&v["replay"]),
            "C12" => c12::replay(&v["replay"]),
            "C11" => c11::replay(&v["replay"]),
            "C10" => c10::replay(&v["replay"]),
            "C01" => c01::replay(c01::Mode::C01, &v["replay"]),
            "C02" => c01::replay(c01::Mode::C02, &v["replay"]),
            _ => {
                eprintln!("no replay for {id}");
                std::process::exit(2)
            }
        };
        std::process::exit(if ok { 0 } else { 1 });
    }
    let mut run = Run::new(&id, &tier);
    // one execution of any exploration takes microseconds to milliseconds; one that does not return within
    // two minutes is reported as a hang of the subject (C03 watches its child process itself)
    if id != "C03" {
        mcx::watch::start(&id, &tier, std::time::Duration::from_secs(120));
    }
    let outcome = mcx::guarded(|| match id.as_str() {
        "C04" => c04::run(&mut run),
        "C03" => c03::run(&mut run),
        "C05" => c05::run(&mut run),
        "C07" => c07::run(&mut run),
        "C06" => c06::run(&mut run),
        "C08" => c08::run(&mut run),
        "C13" => c13::run(&mut run),
        "C14" => c14::run(&mut run),
        "C15" => c15::run(&mut run),
        "C09" => c09::run(&mut run),
        "C16" => c16::run(&mut run),
        "C18" => c18::run(&mut run),
        "C12" => c12::run(&mut run),
        "C11" => c11::run(&mut run),
        "C10" => c10::run(&mut run),
        "C01" => c01::run(c01::Mode::C01, &mut run),
        "C02" => c01::run(c01::Mode::C02, &mut run),
        _ => {
            eprintln!("unknown check {id}");
            std::process::exit(2)
        }
    });
    if let Err(p) = outcome {
        eprintln!("MACHINERY: the check itself panicked: {p}");
        std::process::exit(2);
    }
    std::process::exit(run.finish());
}
