//! C15 — scores, errors and individuals are ordered and aggregated
//! consistently.  Engine E3: small-scope exhaustive algebra.

use ec_core::individual::ec::{EcIndividual, IndividualGenerator, WithScorer};
use ec_core::individual::scorer::FnScorer;
use ec_core::operator::genome_scorer::GenomeScorer;
use ec_core::operator::{Composable, Operator};
use ec_core::test_results::{Error, Score, TestResult, TestResults};
use mcx::{Run, TapeRng};
use rand::distr::Distribution;
use rand::Rng;
use serde_json::{json, Value};
use std::cell::RefCell;
use std::cmp::Ordering;
use std::collections::BTreeSet;

const D: [i64; 7] = [i64::MIN, -2, -1, 0, 1, 2, i64::MAX];

/// all comparison operators must agree with `cmp`
fn ops_consistent<T: Ord + PartialOrd + PartialEq + Copy>(a: T, b: T, expect: Ordering) -> Option<String> {
    let c = a.cmp(&b);
    if c != expect {
        return Some(format!("cmp gives {c:?}, expected {expect:?}"));
    }
    if a.partial_cmp(&b) != Some(c) {
        return Some(format!("partial_cmp {:?} disagrees with cmp {c:?}", a.partial_cmp(&b)));
    }
    let facts = [
        (a == b, c == Ordering::Equal, "=="),
        (a != b, c != Ordering::Equal, "!="),
        (a < b, c == Ordering::Less, "<"),
        (a <= b, c != Ordering::Greater, "<="),
        (a > b, c == Ordering::Greater, ">"),
        (a >= b, c != Ordering::Less, ">="),
    ];
    for (got, want, op) in facts {
        if got != want {
            return Some(format!("operator {op} gives {got}, cmp says {c:?}"));
        }
    }
    let mx = a.max(b);
    let mn = a.min(b);
    if (mx.cmp(&a) == Ordering::Less) || (mx.cmp(&b) == Ordering::Less) || (mn.cmp(&a) == Ordering::Greater) || (mn.cmp(&b) == Ordering::Greater) {
        return Some("max/min inconsistent with cmp".into());
    }
    None
}

fn vectors(max_len: usize, vals: &[i64]) -> Vec<Vec<i64>> {
    let mut out = vec![vec![]];
    let mut layer: Vec<Vec<i64>> = vec![vec![]];
    for _ in 0..max_len {
        let mut next = vec![];
        for v in &layer {
            for x in vals {
                let mut w = v.clone();
                w.push(*x);
                next.push(w);
            }
        }
        out.extend(next.iter().cloned());
        layer = next;
    }
    out
}

struct GenomeTape(RefCell<u64>);
impl Distribution<Vec<u64>> for GenomeTape {
    fn sample<R: Rng + ?Sized>(&self, rng: &mut R) -> Vec<u64> {
        let mut k = self.0.borrow_mut();
        *k += 1;
        vec![*k, rng.next_u64()]
    }
}

pub fn run(run: &mut Run) {
    let mut n = 0u64;
    let mut kinds: BTreeSet<&'static str> = BTreeSet::new();
    let mut bad = |run: &Run, k: &str, w: String| run.violation(format!("order/{k}"), w, json!({"check":"C15","which":k}));
    // Score ascending, Error descending; lawful total orders
    for &a in &D {
        for &b in &D {
            n += 2;
            if let Some(w) = ops_consistent(Score(a), Score(b), a.cmp(&b)) {
                bad(run, "score", format!("Score({a}) vs Score({b}): {w}"));
            }
            if let Some(w) = ops_consistent(Error(a), Error(b), b.cmp(&a)) {
                bad(run, "error", format!("Error({a}) vs Error({b}): {w}"));
            }
            // other value types
            let (x, y) = ((a.rem_euclid(5)) as u8, (b.rem_euclid(5)) as u8);
            if let Some(w) = ops_consistent(Score(x), Score(y), x.cmp(&y)) {
                bad(run, "score-u8", format!("Score({x}u8) vs Score({y}u8): {w}"));
            }
            if let Some(w) = ops_consistent(Error((x, y)), Error((y, x)), (y, x).cmp(&(x, y))) {
                bad(run, "error-pair", format!("Error(({x},{y})) vs Error(({y},{x})): {w}"));
            }
            // a score is never comparable to an error
            let s: TestResult<i64, i64> = TestResult::Score(Score(a));
            let e: TestResult<i64, i64> = TestResult::Error(Error(b));
            n += 1;
            if s.partial_cmp(&e).is_some() || e.partial_cmp(&s).is_some() || s < e || s > e || s <= e || s >= e || s == e || e < s || e > s || e <= s || e >= s {
                bad(run, "score-vs-error", format!("Score({a}) and Error({b}) must be incomparable"));
            }
            // individuals with incomparable results (score vs error, NaN vs anything) are incomparable under
            // every operator form, derived ones (<=, >=) included (seeded C15-k)
            {
                let (is, ie) = (EcIndividual::new(1u8, s.clone()), EcIndividual::new(2u8, e.clone()));
                if is.partial_cmp(&ie).is_some() || ie.partial_cmp(&is).is_some() || is < ie || is > ie || is <= ie || is >= ie || ie < is || ie > is || ie <= is || ie >= is {
                    bad(run, "individual-score-vs-error", format!("individuals with Score({a}) and Error({b}) must be incomparable under every operator"));
                }
                let (fx, fn_) = (EcIndividual::new(1u8, a as f64), EcIndividual::new(2u8, f64::NAN));
                if fx.partial_cmp(&fn_).is_some() || fx < fn_ || fx > fn_ || fx <= fn_ || fx >= fn_ || fn_ <= fx || fn_ >= fx || fn_ <= fn_.clone() || fn_ >= fn_.clone() {
                    bad(run, "individual-nan", format!("individuals with results {a} and NaN must be incomparable under every operator"));
                }
            }
            // within one polarity TestResult compares like the inner value
            let s2: TestResult<i64, i64> = TestResult::Score(Score(b));
            let e1: TestResult<i64, i64> = TestResult::Error(Error(a));
            if s.partial_cmp(&s2) != Some(a.cmp(&b)) || e1.partial_cmp(&e) != Some(b.cmp(&a)) {
                bad(run, "test-result", format!("TestResult comparison of {a} and {b} disagrees with the inner order"));
            }
            for &c in &D {
                // transitivity and antisymmetry on triples
                n += 1;
                let (sa, sb, sc) = (Score(a), Score(b), Score(c));
                if sa <= sb && sb <= sc && !(sa <= sc) {
                    bad(run, "score-transitive", format!("Score not transitive on {a},{b},{c}"));
                }
                let (ea, eb, ec) = (Error(a), Error(b), Error(c));
                if ea <= eb && eb <= ec && !(ea <= ec) {
                    bad(run, "error-transitive", format!("Error not transitive on {a},{b},{c}"));
                }
                if ea <= eb && eb <= ea && ea != eb {
                    bad(run, "error-antisymmetric", format!("Error not antisymmetric on {a},{b}"));
                }
            }
        }
    }
    kinds.insert("scalar orders");
    // TestResults: results kept in order, total = sum, comparison = comparison of totals
    let small = vectors(3, &[-2, -1, 0, 1, 2]);
    let mut with_ext = small.clone();
    with_ext.extend([vec![i64::MAX], vec![i64::MIN], vec![i64::MAX, -1], vec![i64::MIN, 1], vec![i64::MAX, i64::MIN, 1]]);
    // all vectors of length 4 over {-1, 0, 1} (equal totals with different per-case results abound), and
    // long vectors around 2^8 elements
    with_ext.extend(vectors(4, &[-1, 0, 1]).into_iter().filter(|v| v.len() == 4));
    for len in [255usize, 256, 257, 300] {
        with_ext.push(vec![1; len]);
        with_ext.push((0..len as i64).map(|i| if i % 2 == 0 { i } else { -i }).collect());
    }
    let mut built_s: Vec<(Vec<i64>, TestResults<Score<i64>>)> = vec![];
    let mut built_e: Vec<(Vec<i64>, TestResults<Error<i64>>)> = vec![];
    for v in &with_ext {
        n += 4;
        let total: i64 = v.iter().sum();
        let s: TestResults<Score<i64>> = TestResults::from(v.clone());
        let s2: TestResults<Score<i64>> = v.iter().copied().collect::<Vec<i64>>().into_iter().into();
        let e: TestResults<Error<i64>> = TestResults::from(v.clone());
        let e2: TestResults<Error<i64>> = v.iter().copied().into();
        let want_s: Vec<Score<i64>> = v.iter().map(|x| Score(*x)).collect();
        let want_e: Vec<Error<i64>> = v.iter().map(|x| Error(*x)).collect();
        if s.results != want_s || s2.results != want_s || s.total_result != Score(total) || s2.total_result != Score(total) || s.len() != v.len() || s.is_empty() != v.is_empty() {
            bad(run, "results-score", format!("TestResults<Score> from {v:?}: results {:?}, total {:?}", s.results, s.total_result));
        }
        if e.results != want_e || e2.results != want_e || e.total_result != Error(total) || e2.total_result != Error(total) {
            bad(run, "results-error", format!("TestResults<Error> from {v:?}: results {:?}, total {:?}", e.results, e.total_result));
        }
        // copies: clone, and clone_from onto a value that held something else before
        {
            let other: TestResults<Score<i64>> = TestResults::from(vec![7, -9, 11]);
            let c1 = s.clone();
            let mut c2 = other.clone();
            c2.clone_from(&s);
            let mut c3 = vec![other.clone(), other.clone()];
            c3.clone_from(&vec![s.clone(), s.clone()]);
            for (how, c) in [("clone", &c1), ("clone_from", &c2), ("Vec::clone_from", &c3[1])] {
                n += 1;
                if c.results != want_s || c.total_result != Score(total) || c.cmp(&s) != Ordering::Equal || *c != s {
                    bad(run, "results-copy", format!("TestResults<Score> from {v:?} copied by {how}: results {:?}, total {:?}", c.results, c.total_result));
                }
            }
            let ea: EcIndividual<u8, TestResults<Score<i64>>> = EcIndividual::new(3, s.clone());
            let mut eb: EcIndividual<u8, TestResults<Score<i64>>> = EcIndividual::new(9, other.clone());
            eb.clone_from(&ea);
            if eb != ea || eb.test_results.total_result != Score(total) || eb.cmp(&ea) != Ordering::Equal {
                bad(run, "individual-copy", format!("EcIndividual with results {v:?} copied by clone_from: {:?}", eb.test_results.total_result));
            }
        }
        built_s.push((v.clone(), s));
        built_e.push((v.clone(), e));
    }
    // float results: addition is not associative, so "the sum of the per-case results in the order given"
    // is one particular value; every length of a dense range and around the sizes where a blocked,
    // pairwise or vectorised summation would change its grouping
    {
        let mut lens: Vec<usize> = (0..=70).collect();
        lens.extend([127, 128, 129, 255, 256, 257, 511, 512, 513, 999, 1000, 1001, 1002, 1023, 1024, 1025, 1499, 2000, 2001, 2047, 2048, 2049, 4095, 4096, 4097, 10_000, 65_535, 65_536, 65_537, 70_001]);
        for len in lens {
            let pats: Vec<(&str, Vec<f64>)> = vec![
                ("1e16 then ones", (0..len).map(|i| if i == 0 { 1e16 } else { 1.0 }).collect()),
                ("ones then 1e16", (0..len).map(|i| if i + 1 == len { 1e16 } else { 1.0 }).collect()),
                ("tenths", vec![0.1; len]),
                ("1e16, 1, -1e16, 1, ...", (0..len).map(|i| match i % 4 { 0 => 1e16, 2 => -1e16, _ => 1.0 }).collect()),
            ];
            for (pname, v) in pats {
                n += 2;
                let want = v.iter().skip(1).fold(v.first().copied().unwrap_or(0.0), |a, b| a + *b);
                let e: TestResults<Error<f64>> = TestResults::from(v.clone());
                let sc: TestResults<Score<f64>> = v.iter().copied().into();
                let kept_e = e.results.len() == len && e.results.iter().zip(&v).all(|(r, x)| r.0.to_bits() == x.to_bits());
                let kept_s = sc.results.len() == len && sc.results.iter().zip(&v).all(|(r, x)| r.0.to_bits() == x.to_bits());
                let same = |t: f64| t.to_bits() == want.to_bits() || (len == 0 && t == 0.0);
                if !kept_e || !same(e.total_result.0) {
                    bad(run, "results-float-error", format!("TestResults<Error<f64>> from {len} results ({pname}): total {:?}, the results summed in the order given are {want:?}{}", e.total_result.0, if kept_e { "" } else { "; the per-case results are not the ones supplied" }));
                }
                if !kept_s || !same(sc.total_result.0) {
                    bad(run, "results-float-score", format!("TestResults<Score<f64>> from {len} results ({pname}): total {:?}, the results summed in the order given are {want:?}{}", sc.total_result.0, if kept_s { "" } else { "; the per-case results are not the ones supplied" }));
                }
            }
        }
        // integer results of the same lengths (totals only): large values whose sum stays within i64
        for len in [999usize, 1000, 1001, 1002, 1499, 2001, 4097, 65_536, 65_537, 70_001] {
            let big = i64::MAX / len as i64;
            for (pname, v) in [
                ("large values", (0..len as i64).map(|i| big - (i % 7)).collect::<Vec<i64>>()),
                ("alternating signs", (0..len as i64).map(|i| if i % 2 == 0 { big } else { -big + i }).collect()),
            ] {
                n += 1;
                let want: i64 = v.iter().fold(0i64, |a, b| a.wrapping_add(*b));
                let e: TestResults<Error<i64>> = TestResults::from(v.clone());
                let sc: TestResults<Score<i64>> = v.iter().copied().into();
                if e.total_result != Error(want) || sc.total_result != Score(want) || e.results.len() != len || e.results.iter().zip(&v).any(|(r, x)| r.0 != *x) {
                    bad(run, "results-long", format!("TestResults from {len} integer results ({pname}): totals {:?} / {:?}, the sum is {want}", e.total_result, sc.total_result));
                }
            }
        }
        kinds.insert("float aggregation");
    }
    kinds.insert("aggregation");
    for (va, a) in &built_s {
        for (vb, b) in &built_s {
            n += 1;
            let (ta, tb): (i64, i64) = (va.iter().sum(), vb.iter().sum());
            if a.cmp(b) != ta.cmp(&tb) || a.partial_cmp(b) != Some(ta.cmp(&tb)) || (a < b) != (ta < tb) || (a > b) != (ta > tb) {
                bad(run, "results-compare-score", format!("TestResults<Score> {va:?} vs {vb:?} do not compare as their totals {ta} vs {tb}"));
            }
            // individuals compare as their results, whatever the genomes
            let (ia, ib) = (EcIndividual::new(7u8, a.clone()), EcIndividual::new(3u8, b.clone()));
            if ia.cmp(&ib) != ta.cmp(&tb) || ia.partial_cmp(&ib) != Some(ta.cmp(&tb)) || (ia < ib) != (ta < tb) || (ia > ib) != (ta > tb) || (ia <= ib) != (ta <= tb) || (ia >= ib) != (ta >= tb) {
                bad(run, "individual-compare", format!("individuals with results {va:?} / {vb:?} do not compare as their totals"));
            }
        }
    }
    for (va, a) in &built_e {
        for (vb, b) in &built_e {
            n += 1;
            let (ta, tb): (i64, i64) = (va.iter().sum(), vb.iter().sum());
            if a.cmp(b) != tb.cmp(&ta) || a.partial_cmp(b) != Some(tb.cmp(&ta)) || (a < b) != (tb < ta) {
                bad(run, "results-compare-error", format!("TestResults<Error> {va:?} vs {vb:?} do not compare as their totals (reversed) {ta} vs {tb}"));
            }
            let (ia, ib) = (EcIndividual::new("x", a.clone()), EcIndividual::new("y", b.clone()));
            if ia.cmp(&ib) != tb.cmp(&ta) || (ia < ib) != (tb < ta) || (ia > ib) != (tb > ta) || (ia <= ib) != (tb <= ta) || (ia >= ib) != (tb >= ta) {
                bad(run, "individual-compare-error", format!("individuals with error results {va:?} / {vb:?} do not compare as their totals"));
            }
        }
    }
    kinds.insert("results and individuals");
    // scoring: the individual carries the generated genome; the scorer saw exactly it, once
    type ScoreFn = fn(&Vec<u64>) -> i64;
    let scorers: [(&str, ScoreFn); 5] = [
        ("sum", |g| g.iter().map(|x| (*x % 1000) as i64).sum()),
        ("len", |g| g.len() as i64),
        ("first", |g| (g[0] % 97) as i64),
        ("neg", |g| -((g[1] % 50) as i64)),
        ("const", |_| 5),
    ];
    for (name, sf) in scorers {
        for start in [0u64, 10, 99] {
            let seen: RefCell<Vec<Vec<u64>>> = RefCell::new(vec![]);
            let scorer = FnScorer(|g: &Vec<u64>| {
                seen.borrow_mut().push(g.clone());
                sf(g)
            });
            let gen = GenomeTape(RefCell::new(start));
            let mut rng = TapeRng { pos: 40 };
            let ind: EcIndividual<Vec<u64>, i64> = IndividualGenerator::new(&gen, &scorer).sample(&mut rng);
            n += 1;
            let want_g = vec![start + 1, 41];
            if ind.genome != want_g || *seen.borrow() != vec![want_g.clone()] || ind.test_results != sf(&want_g) || rng.pos != 41 {
                bad(run, "individual-generator", format!("IndividualGenerator with scorer {name}: genome {:?}, scorer saw {:?}, result {}", ind.genome, seen.borrow(), ind.test_results));
            }
            seen.borrow_mut().clear();
            let ind2: EcIndividual<Vec<u64>, i64> = (&gen).with_scorer(&scorer).sample(&mut rng);
            n += 1;
            let want_g2 = vec![start + 2, 42];
            if ind2.genome != want_g2 || *seen.borrow() != vec![want_g2.clone()] || ind2.test_results != sf(&want_g2) {
                bad(run, "with-scorer", format!("with_scorer({name}): genome {:?}, scorer saw {:?}", ind2.genome, seen.borrow()));
            }
            // GenomeScorer as an operator on a population
            struct Maker;
            impl Composable for Maker {}
            impl<'a> Operator<&'a Vec<u8>> for Maker {
                type Output = Vec<u64>;
                type Error = std::convert::Infallible;
                fn apply<R: Rng + ?Sized>(&self, p: &'a Vec<u8>, rng: &mut R) -> Result<Vec<u64>, Self::Error> {
                    Ok(vec![p.len() as u64, rng.next_u64()])
                }
            }
            seen.borrow_mut().clear();
            let pop = vec![1u8, 2, 3];
            let r = GenomeScorer::new(Maker, &scorer).apply(&pop, &mut rng).unwrap();
            n += 1;
            let want_g3 = vec![3, 43];
            if r.genome != want_g3 || *seen.borrow() != vec![want_g3.clone()] || r.test_results != sf(&want_g3) {
                bad(run, "genome-scorer", format!("GenomeScorer({name}): genome {:?}, scorer saw {:?}", r.genome, seen.borrow()));
            }
        }
    }
    kinds.insert("scoring");
    run.states = (D.len() * D.len() + with_ext.len()) as u64;
    run.evaluations = n;
    run.transitions = n;
    run.traces_validated = n;
    run.distinct_nontrivial = (D.len() * (D.len() - 1)) as u64 + with_ext.len() as u64;
    run.rule = "all pairs and triples over {i64::MIN,-2,-1,0,1,2,i64::MAX} for Score/Error/TestResult (also u8 and pair payloads); all result vectors of length 0..3 over -2..2 plus non-overflowing vectors with extremes, through From<IntoIterator> in both polarities; all pairs of those for TestResults / EcIndividual comparison; 5 scorers x 3 genome sources for IndividualGenerator, with_scorer and GenomeScorer; non-trivial = ordered pairs of distinct values + result vectors".into();
    run.bound("value_domain", json!(D.iter().map(|x| x.to_string()).collect::<Vec<_>>()));
    run.bound("result_vectors", json!(with_ext.len()));
    run.assumptions = vec!["value types with unlawful Ord are outside the property".into()];
    run.sample(json!({"pair":["Error(-1)","Error(2)"],"expected":"Greater (smaller error is better), all six operators agree"}));
    run.sample(json!({"results":[2,-1,2],"expected":"results kept in order, total 3; compares as 3"}));
}

pub fn replay(_: &Value) -> bool {
    let mut r = Run::new("C15", "quick");
    run(&mut r);
    let g = r.violations.lock().unwrap();
    for (k, v) in g.iter() {
        println!("MISMATCH [{k}]: {}", v.what);
    }
    if g.is_empty() {
        println!("replay: property held");
    }
    g.is_empty()
}
