//! Interpreter-level exploration (C01(c), C02 second half, shared by C03):
//! whole programs run by the real `run_to_completion` under every step limit,
//! compared with the set of results `PushRef` admits.

use crate::c01::{check_perform, prog_de, prog_ser, rstate_de, rstate_json, rstate_ser, Mode, Stats};
use crate::pushref::*;
use crate::vm::*;
use mcx::Run;
use ordered_float::OrderedFloat;
use push::error::into_state::IntoState;
use push::genome::plushy::{Plushy, PushGene};
use push::instruction::printing::PrintString;
use push::instruction::variable_name::VariableName;
use push::instruction::{BoolInstruction, ExecInstruction, IntInstruction, PushInstruction};
use push::push_vm::program::PushProgram;
use push::push_vm::State;
use serde_json::{json, Value};
use strum::IntoEnumIterator;

pub fn exec_variant(name: &str) -> ExecInstruction {
    ExecInstruction::iter()
        .find(|i| format!("{i}") == name)
        .unwrap_or_else(|| panic!("no exec instruction named {name}"))
}
pub fn int_variant(name: &str) -> IntInstruction {
    IntInstruction::iter()
        .find(|i| format!("{i}") == name)
        .unwrap_or_else(|| panic!("no int instruction named {name}"))
}

pub fn gene_alphabet() -> Vec<PushGene> {
    let i = |x: PushInstruction| PushGene::Instruction(x);
    vec![
        PushGene::Close,
        i(ExecInstruction::if_else().into()),
        i(ExecInstruction::when().into()),
        i(ExecInstruction::unless().into()),
        i(ExecInstruction::dup_block().into()),
        i(exec_variant("Dup").into()),
        i(exec_variant("Swap").into()),
        i(exec_variant("Pop").into()),
        i(PushInstruction::push_int(3)),
        i(PushInstruction::push_bool(true)),
        i(PushInstruction::push_bool(false)),
        i(PushInstruction::push_float(OrderedFloat(1.5))),
        i(IntInstruction::Subtract.into()),
        i(IntInstruction::LessThan.into()),
        i(BoolInstruction::Not.into()),
        i(PushInstruction::InputVar(VariableName::from("vi"))),
        i(int_variant("Print").into()),
        i(PushInstruction::PrintString(PrintString::new("s".into()))),
    ]
}

pub fn gene_name(g: &PushGene) -> String {
    match g {
        PushGene::Close => "Close".into(),
        PushGene::Instruction(i) => instr_name(i),
    }
}

/// One whole-program run on the real interpreter.
pub enum RealFinal {
    Done(push::push_vm::push_state::PushState),
    Aborted(push::push_vm::push_state::PushState, String),
    Panic(String),
}

pub fn run_real(r: &RState, limit: usize) -> RealFinal {
    let real = make_real(r, limit);
    {
        let st = r.clone();
        mcx::watch::enter(Box::new(move |_| {
            (
                "interp/hang".to_string(),
                format!("run_to_completion with step limit {limit} from {}", rstate_json(&st)),
                json!({"check": "C01", "kind": "run", "label": "hang", "limit": limit, "state": rstate_json(&st), "state_full": rstate_ser(&st)}),
            )
        }));
    }
    let out = run_real_inner(real);
    mcx::watch::leave();
    out
}
fn run_real_inner(real: push::push_vm::push_state::PushState) -> RealFinal {
    match mcx::guarded(move || real.run_to_completion()) {
        Ok(Ok(s)) => RealFinal::Done(s),
        Ok(Err(e)) => {
            let msg = format!("{e:?}");
            let msg = msg.chars().take(0).collect::<String>() + &short_err(&msg);
            RealFinal::Aborted(e.into_state(), msg)
        }
        Err(p) => RealFinal::Panic(p),
    }
}

fn short_err(s: &str) -> String {
    if let Some(i) = s.find("error:") {
        s[i..].chars().take(80).collect()
    } else {
        "fatal error".into()
    }
}

pub fn final_json(f: &Final) -> Value {
    match f {
        Final::Done(s) => json!({"result":"Ok","state": rstate_json(s)}),
        Final::Aborted(s) => json!({"result":"Err(fatal)","state": rstate_json(s)}),
    }
}

/// Is the real result one the reference admits?  Err(description) if not.
pub fn run_admissible(
    r: &RState,
    limit: usize,
    pop_cap: usize,
    undecided: &mut bool,
) -> Result<Result<(), String>, String> {
    let adm = admissible_finals(r, limit, pop_cap, undecided)?;
    let real = run_real(r, limit);
    let ok = match &real {
        RealFinal::Done(s) => adm.iter().any(|f| matches!(f, Final::Done(t) if real_matches(s, t))),
        RealFinal::Aborted(s, _) => adm.iter().any(|f| match f {
            Final::Aborted(t) => real_matches(s, t),
            _ => false,
        }),
        RealFinal::Panic(_) => false,
    };
    if ok || *undecided {
        return Ok(Ok(()));
    }
    let obs = match &real {
        RealFinal::Done(s) => format!("Ok {}", rstate_json(&observe(s))),
        RealFinal::Aborted(s, m) => format!("Err({m}) {}", rstate_json(&observe(s))),
        RealFinal::Panic(p) => format!("PANIC {p}"),
    };
    Ok(Err(format!(
        "run with step limit {limit} from {} ended as {obs}; the semantics admit {}",
        rstate_json(r),
        Value::Array(adm.iter().map(final_json).collect())
    )))
}

/// Running in two instalments: a state returned after L steps and run again for L steps must equal the
/// state returned after 2L steps (the step budget is per call and nothing about a run is remembered in
/// the state).  Real against real, no reference involved.  None = consistent or not applicable (abort).
pub fn rerun_consistent(r: &RState, limit: usize) -> Option<String> {
    let first = match run_real(r, limit) {
        RealFinal::Done(s) => s,
        _ => return None,
    };
    let again = match mcx::guarded(move || first.run_to_completion()) {
        Ok(Ok(s)) => RealFinal::Done(s),
        Ok(Err(e)) => RealFinal::Aborted(e.into_state(), String::new()),
        Err(p) => RealFinal::Panic(p),
    };
    let whole = run_real(r, 2 * limit);
    let same = match (&again, &whole) {
        (RealFinal::Done(a), RealFinal::Done(b)) => observe(a) == observe(b),
        (RealFinal::Aborted(a, _), RealFinal::Aborted(b, _)) => observe(a) == observe(b),
        _ => false,
    };
    if same {
        return None;
    }
    let show = |f: &RealFinal| match f {
        RealFinal::Done(s) => format!("Ok {}", rstate_json(&observe(s))),
        RealFinal::Aborted(s, _) => format!("Err {}", rstate_json(&observe(s))),
        RealFinal::Panic(p) => format!("PANIC {p}"),
    };
    Some(format!("running {limit} steps and then {limit} more from {} ends as {}, running {} steps at once as {}", rstate_json(r), show(&again), 2 * limit, show(&whole)))
}

/// Find a key naming the first deviating instruction, for stable known-finding keys.
pub fn localise(r: &RState, limit: usize, label: &str) -> String {
    let mut undec = false;
    for l in 0..=limit {
        if let Ok(Err(_)) = run_admissible(r, l, 4 * limit + 32, &mut undec) {
            if l == 0 {
                return format!("interp/{label}");
            }
            if let Ok((states, _)) = trace_every_pop(r, l) {
                if let Some(pre) = states.get(l - 1) {
                    let mut pre = pre.clone();
                    if let Some(PushProgram::Instruction(i)) = pre.exec.pop() {
                        let name = instr_name(&i);
                        let real = make_real(&pre, 100);
                        let mut st = Stats::default();
                        let (v, _) = check_perform(Mode::C01, &real, &pre, &i, &name, &mut st);
                        if let Some((k, _)) = v {
                            return k;
                        }
                    }
                }
            }
            return format!("interp/{label}");
        }
    }
    format!("interp/{label}")
}

pub fn run_replay_json(mode: Mode, r: &RState, limit: usize, label: &str) -> Value {
    json!({"check": format!("{mode:?}"), "kind": "run", "label": label, "limit": limit,
           "state": rstate_json(r), "state_full": rstate_ser(r)})
}

fn genomes_with_prefix(alpha_len: usize, prefix: &[usize], max_len: usize, f: &mut impl FnMut(&[usize])) {
    // all sequences that start with `prefix`, of length prefix.len()..=max_len
    fn go(alpha_len: usize, cur: &mut Vec<usize>, max_len: usize, f: &mut impl FnMut(&[usize])) {
        f(cur);
        if cur.len() == max_len {
            return;
        }
        for g in 0..alpha_len {
            cur.push(g);
            go(alpha_len, cur, max_len, f);
            cur.pop();
        }
    }
    let mut cur = prefix.to_vec();
    go(alpha_len, &mut cur, max_len, f);
}

pub struct InterpStats {
    pub programs: u64,
    pub runs: u64,
    pub undecided: u64,
    pub aborted_runs: u64,
    pub truncated_runs: u64,
    pub distinct_final_states: u64,
}

/// (c): all genomes up to `max_len` genes, every step limit 0..=max_limit, capacities.
pub fn genome_sweep(mode: Mode, run: &mut Run, max_len: usize, max_limit: usize, caps_list: &[usize]) -> InterpStats {
    let alpha = gene_alphabet();
    let n = alpha.len();
    let seeds: Vec<RState> = {
        let mut a = RState::empty([8; 4]);
        a.inputs = default_inputs();
        let mut b = a.clone();
        b.int = vec![4, -3];
        b.boolean = vec![false];
        b.float = vec![2.0];
        vec![a, b]
    };
    let mut shards: Vec<Vec<usize>> = vec![];
    // shard by the first two genes; shorter genomes go to dedicated shards
    shards.push(vec![]); // the empty genome only (max_len 0 semantics handled below)
    for a in 0..n {
        for b in 0..n {
            shards.push(vec![a, b]);
        }
    }
    let results = mcx::par_map(shards.len(), |k| {
        let prefix = &shards[k];
        let mut viols: Vec<(String, String, Value)> = vec![];
        let mut st = (0u64, 0u64, 0u64, 0u64, 0u64);
        let mut finals = std::collections::HashSet::new();
        let mut visit = |g: &[usize]| {
            let genes: Vec<PushGene> = g.iter().map(|i| alpha[*i].clone()).collect();
            let label: String = genes.iter().map(gene_name).collect::<Vec<_>>().join(" ");
            let program: Vec<PushProgram> = Vec::<PushProgram>::from(Plushy::new(genes));
            st.0 += 1;
            for seed in &seeds {
                for &cap in caps_list {
                    let mut r = seed.clone();
                    r.caps = [cap; 4];
                    if program.len() > cap || !r.within_caps() {
                        continue; // not a buildable initial state
                    }
                    r.exec = program.iter().rev().cloned().collect();
                    for limit in 0..=max_limit {
                        let mut undec = false;
                        st.1 += 1;
                        match run_admissible(&r, limit, 4 * max_limit + 32, &mut undec) {
                            Ok(Ok(())) => {}
                            Ok(Err(what)) => {
                                if viols.len() < 20 {
                                    let key = localise(&r, limit, &label);
                                    viols.push((key, format!("genome [{label}] cap {cap}: {what}"), run_replay_json(mode, &r, limit, &label)));
                                }
                            }
                            Err(e) => {
                                if viols.len() < 20 {
                                    viols.push((format!("machinery/{label}"), e, json!({})));
                                }
                            }
                        }
                        if undec {
                            st.2 += 1;
                        }
                        if limit >= 1 && 2 * limit <= max_limit {
                            st.1 += 1;
                            if let Some(what) = rerun_consistent(&r, limit) {
                                if viols.len() < 20 {
                                    viols.push(("interp/two-instalments".to_string(), format!("genome [{label}] cap {cap}: {what}"), run_replay_json(mode, &r, limit, &label)));
                                }
                            }
                        }
                        if limit == max_limit {
                            // classify the reference's view of this run for the evidence
                            let mut u = false;
                            if let Ok(f) = admissible_finals(&r, limit, 4 * max_limit + 32, &mut u) {
                                for x in &f {
                                    match x {
                                        Final::Aborted(s) => {
                                            st.3 += 1;
                                            finals.insert(s.key());
                                        }
                                        Final::Done(s) => {
                                            if !s.exec.is_empty() {
                                                st.4 += 1;
                                            }
                                            finals.insert(s.key());
                                        }
                                    }
                                }
                            }
                        }
                    }
                }
            }
        };
        if prefix.is_empty() {
            // genomes of length 0 and 1
            visit(&[]);
            for a in 0..n {
                visit(&[a]);
            }
        } else if max_len >= 2 {
            genomes_with_prefix(n, prefix, max_len, &mut visit);
        }
        (st, viols, finals)
    });
    let mut out = InterpStats {
        programs: 0,
        runs: 0,
        undecided: 0,
        aborted_runs: 0,
        truncated_runs: 0,
        distinct_final_states: 0,
    };
    let mut all_finals = std::collections::HashSet::new();
    for (st, viols, finals) in results {
        out.programs += st.0;
        out.runs += st.1;
        out.undecided += st.2;
        out.aborted_runs += st.3;
        out.truncated_runs += st.4;
        all_finals.extend(finals);
        for (k, w, r) in viols {
            if k.starts_with("machinery/") {
                run.machinery(w);
            } else {
                run.violation(k, w, r);
            }
        }
    }
    out.distinct_final_states = all_finals.len() as u64;
    out
}

/// every ordered pair of instructions as a two-instruction program from four seed states
pub fn pair_sweep(mode: Mode, run: &mut Run) -> (u64, u64) {
    let instrs = crate::c01::instruction_alphabet(false).instrs;
    let seeds: Vec<RState> = {
        let mut a = RState::empty([8; 4]);
        a.inputs = default_inputs();
        let mut b = a.clone();
        b.int = vec![-3, 7];
        b.float = vec![0.5, -2.0];
        b.boolean = vec![true, false];
        let mut c = b.clone();
        c.caps = [3, 2, 2, 2];
        let mut d = a.clone();
        d.int = vec![i64::MAX];
        d.float = vec![f64::NAN];
        d.boolean = vec![true];
        d.caps = [2, 1, 1, 1];
        vec![a, b, c, d]
    };
    let n = instrs.len();
    let results = mcx::par_map(n, |i| {
        let mut viols = vec![];
        let mut runs = 0u64;
        for j in 0..n {
            for seed in &seeds {
                let mut r = seed.clone();
                r.exec = vec![
                    PushProgram::Instruction(instrs[j].1.clone()),
                    PushProgram::Instruction(instrs[i].1.clone()),
                ];
                if !r.within_caps() {
                    continue;
                }
                let label = format!("{} {}", instrs[i].0, instrs[j].0);
                for limit in [1usize, 2, 10] {
                    runs += 1;
                    let mut undec = false;
                    match run_admissible(&r, limit, 64, &mut undec) {
                        Ok(Ok(())) => {}
                        Ok(Err(what)) => {
                            if viols.len() < 10 {
                                let key = localise(&r, limit, &label);
                                viols.push((key, format!("program [{label}]: {what}"), run_replay_json(mode, &r, limit, &label)));
                            }
                        }
                        Err(e) => viols.push((format!("machinery/{label}"), e, json!({}))),
                    }
                }
            }
        }
        (runs, viols)
    });
    let mut runs = 0;
    for (r, viols) in results {
        runs += r;
        for (k, w, rp) in viols {
            if k.starts_with("machinery/") {
                run.machinery(w);
            } else {
                run.violation(k, w, rp);
            }
        }
    }
    ((n * n) as u64, runs)
}

pub fn replay_run(mode: Mode, v: &Value) -> bool {
    let Some(r) = rstate_de(&v["state_full"]) else {
        println!("cannot decode state");
        return false;
    };
    let limit = v["limit"].as_u64().unwrap_or(0) as usize;
    println!("initial state: {}", rstate_json(&r));
    println!("step limit: {limit}");
    let _ = mode;
    match run_real(&r, limit) {
        RealFinal::Done(s) => println!("observed: Ok {}", rstate_json(&observe(&s))),
        RealFinal::Aborted(s, m) => println!("observed: Err({m}) {}", rstate_json(&observe(&s))),
        RealFinal::Panic(p) => println!("observed: PANIC {p}"),
    }
    let mut undec = false;
    match admissible_finals(&r, limit, 4 * limit + 32, &mut undec) {
        Ok(adm) => {
            for a in &adm {
                println!("admissible: {}", final_json(a));
            }
        }
        Err(e) => println!("reference error: {e}"),
    }
    match run_admissible(&r, limit, 4 * limit + 32, &mut undec) {
        Ok(Ok(())) => {
            println!("replay: property held");
            true
        }
        Ok(Err(w)) => {
            println!("MISMATCH: {w}");
            println!("replay: violation reproduced");
            false
        }
        Err(e) => {
            println!("reference error: {e}");
            false
        }
    }
}

#[allow(dead_code)]
pub fn unused(_: &Value) -> Option<PushProgram> {
    prog_de(&prog_ser(&PushProgram::Block(vec![])))
}
