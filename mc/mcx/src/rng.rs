//! `ChoiceRng`: an `RngCore` whose every word is a choice point of the explorer,
//! answered from a finite alphabet of representative words (DESIGN 2.1).

use crate::env::{Env, Kind};
use rand::RngCore;

#[derive(Clone, Copy, Debug, PartialEq, Eq)]
pub enum Alphabet {
    /// midpoints of `m` equal cells of the word space
    Grid(u32),
    /// the `k` smallest words whose multiply-shift image under range `r` is 0..k-1
    Rep { r: u64, k: u32 },
    /// the words of `Grid(m)` followed by those of `Rep{r,k}` (whose first word is 0) and the
    /// all-ones word: for support / membership oracles only (leaf weights carry no meaning)
    Mixed { m: u32, r: u64, k: u32 },
    /// the words of `Grid(m)` followed by the two extreme words 0 and all-ones: for oracles that
    /// must hold on *every* stream (structure, membership), where the extremes are the words a
    /// hand-rolled threshold or scaling is most likely to get wrong (leaf weights carry no meaning)
    Ext(u32),
    /// `Ext(2)` followed by the twelve words with alternating bit blocks of period 2, 4, ..., 64 and
    /// their complements: any two distinct bit positions of a word differ in one of them, so an
    /// implementation that serves several genes from the bits of one word can still be driven to
    /// every pair of differing outcomes (support / independence oracles only)
    Bits,
}

fn bit_pattern(k: u32) -> u64 {
    // blocks of 2^(k/2) zero bits and as many one bits, alternating; odd k: complemented
    let half = 1u32 << (k / 2);
    let mut w: u64 = 0;
    for b in 0..64u32 {
        if (b / half) % 2 == 1 {
            w |= 1u64 << b;
        }
    }
    if k % 2 == 1 {
        !w
    } else {
        w
    }
}

impl Alphabet {
    pub fn width(&self) -> u32 {
        match *self {
            Alphabet::Grid(m) => m,
            Alphabet::Rep { k, .. } => k,
            Alphabet::Mixed { m, k, .. } => m + k + 1,
            Alphabet::Ext(m) => m + 2,
            Alphabet::Bits => 16,
        }
    }
    pub fn word32(&self, j: u32) -> u32 {
        match *self {
            Alphabet::Grid(m) => {
                let w = ((2 * j as u128 + 1) << 31) / m as u128;
                w as u32
            }
            Alphabet::Rep { r, .. } => {
                // smallest w with floor(w * r / 2^32) == j  <=>  w = ceil(j * 2^32 / r)
                let n = (j as u128) << 32;
                let w = (n + r as u128 - 1) / r as u128;
                w as u32
            }
            Alphabet::Mixed { m, r, k } => {
                if j < m {
                    Alphabet::Grid(m).word32(j)
                } else if j < m + k {
                    Alphabet::Rep { r, k }.word32(j - m)
                } else {
                    u32::MAX
                }
            }
            Alphabet::Ext(m) => {
                if j < m {
                    Alphabet::Grid(m).word32(j)
                } else if j == m {
                    0
                } else {
                    u32::MAX
                }
            }
            Alphabet::Bits => {
                if j < 4 {
                    Alphabet::Ext(2).word32(j)
                } else {
                    // the high half, so that the top bits (which rand's float and bool samplers read) vary
                    (bit_pattern(j - 4) >> 32) as u32
                }
            }
        }
    }
    pub fn word64(&self, j: u32) -> u64 {
        match *self {
            Alphabet::Grid(m) => {
                let w = ((2 * j as u128 + 1) << 63) / m as u128;
                w as u64
            }
            Alphabet::Rep { r, .. } => {
                let n = (j as u128) << 64;
                let w = (n + r as u128 - 1) / r as u128;
                w as u64
            }
            Alphabet::Mixed { m, r, k } => {
                if j < m {
                    Alphabet::Grid(m).word64(j)
                } else if j < m + k {
                    Alphabet::Rep { r, k }.word64(j - m)
                } else {
                    u64::MAX
                }
            }
            Alphabet::Ext(m) => {
                if j < m {
                    Alphabet::Grid(m).word64(j)
                } else if j == m {
                    0
                } else {
                    u64::MAX
                }
            }
            Alphabet::Bits => {
                if j < 4 {
                    Alphabet::Ext(2).word64(j)
                } else {
                    bit_pattern(j - 4)
                }
            }
        }
    }
}

pub struct ChoiceRng<'a> {
    pub env: &'a mut Env,
    pub alphabet: Alphabet,
}

impl<'a> ChoiceRng<'a> {
    pub fn new(env: &'a mut Env, alphabet: Alphabet) -> Self {
        ChoiceRng { env, alphabet }
    }
}

impl RngCore for ChoiceRng<'_> {
    fn next_u32(&mut self) -> u32 {
        if self.env.past_horizon() {
            return (self.env.tail_word() >> 32) as u32;
        }
        let j = self.env.choose(self.alphabet.width(), Kind::U32);
        self.alphabet.word32(j)
    }
    fn next_u64(&mut self) -> u64 {
        if self.env.past_horizon() {
            return self.env.tail_word();
        }
        let j = self.env.choose(self.alphabet.width(), Kind::U64);
        self.alphabet.word64(j)
    }
    fn fill_bytes(&mut self, dst: &mut [u8]) {
        for chunk in dst.chunks_mut(8) {
            if self.env.past_horizon() {
                let w = self.env.tail_word().to_le_bytes();
                chunk.copy_from_slice(&w[..chunk.len()]);
                continue;
            }
            let j = self.env.choose(self.alphabet.width(), Kind::Bytes);
            let w = self.alphabet.word64(j).to_le_bytes();
            chunk.copy_from_slice(&w[..chunk.len()]);
        }
    }
}

/// A deterministic tape 1, 2, 3, ... (C14: makes evaluation order visible).
#[derive(Clone, Debug, Default, PartialEq, Eq)]
pub struct TapeRng {
    pub pos: u64,
}
impl RngCore for TapeRng {
    fn next_u32(&mut self) -> u32 {
        self.pos += 1;
        self.pos as u32
    }
    fn next_u64(&mut self) -> u64 {
        self.pos += 1;
        self.pos
    }
    fn fill_bytes(&mut self, dst: &mut [u8]) {
        for b in dst {
            self.pos += 1;
            *b = self.pos as u8;
        }
    }
}

/// Calibration of the trusted base: drive rand's own samplers through the
/// alphabets and assert exact uniformity.  Returns Err(description) when the
/// adequacy argument of DESIGN 2.1 does not hold for the linked rand.
pub fn calibrate() -> Result<u64, String> {
    use crate::env::explore;
    use rand::seq::{IndexedRandom, SliceRandom};
    use rand::Rng;
    use std::collections::BTreeMap;
    let mut runs = 0u64;

    // random_range(0..n) on Grid(m), n | m : exactly m/n leaves per value, one 32-bit draw
    for m in [2u32, 4, 6, 12, 60] {
        for n in 1..=m as usize {
            if m as usize % n != 0 {
                continue;
            }
            let mut counts: BTreeMap<usize, u32> = BTreeMap::new();
            let mut sig_ok = true;
            let st = explore(
                |env| {
                    let mut rng = ChoiceRng::new(env, Alphabet::Grid(m));
                    let v = rng.random_range(0..n);
                    (v, env.signature())
                },
                |_, _, (v, sig)| {
                    *counts.entry(v).or_default() += 1;
                    if sig != vec![Kind::U32] {
                        sig_ok = false;
                    }
                },
                u64::MAX,
            );
            runs += st.leaves;
            if !sig_ok {
                return Err(format!(
                    "random_range(0..{n}) does not consume exactly one u32"
                ));
            }
            if counts.len() != n || counts.values().any(|&c| c as usize != m as usize / n) {
                return Err(format!(
                    "random_range(0..{n}) not uniform on Grid({m}): {counts:?}"
                ));
            }
            // inclusive ranges as well
            if n >= 1 {
                let mut counts: BTreeMap<usize, u32> = BTreeMap::new();
                explore(
                    |env| {
                        let mut rng = ChoiceRng::new(env, Alphabet::Grid(m));
                        rng.random_range(0..=n - 1)
                    },
                    |_, _, v| *counts.entry(v).or_default() += 1,
                    u64::MAX,
                );
                if counts.len() != n || counts.values().any(|&c| c as usize != m as usize / n) {
                    return Err(format!(
                        "random_range(0..={}) not uniform on Grid({m}): {counts:?}",
                        n - 1
                    ));
                }
            }
        }
    }
    // random_bool(a/d) on Grid(m), d | m
    for (m, d) in [(4u32, 4u32), (12, 3), (12, 4), (2, 2), (12, 12)] {
        for a in 0..=d {
            let p = a as f64 / d as f64;
            let mut t = 0u32;
            let mut n = 0u32;
            explore(
                |env| {
                    let mut rng = ChoiceRng::new(env, Alphabet::Grid(m));
                    rng.random_bool(p)
                },
                |_, _, b| {
                    n += 1;
                    if b {
                        t += 1
                    }
                },
                u64::MAX,
            );
            runs += n as u64;
            // p = 1 consumes no randomness: a single leaf that is true
            let ok = if a == d {
                t == n
            } else {
                n == m && t * d == a * m
            };
            if !ok {
                return Err(format!(
                    "random_bool({a}/{d}) on Grid({m}): {t} of {n} true"
                ));
            }
        }
    }
    // random::<f32>() < a/d ; random::<f64>() < a/d ; random::<bool>()
    for (m, d) in [(4u32, 4u32), (12, 3), (6, 6), (12, 12), (30, 6)] {
        for a in 0..=d {
            let p32 = a as f32 / d as f32;
            let p64 = a as f64 / d as f64;
            let (mut t32, mut t64, mut n) = (0u32, 0u32, 0u32);
            explore(
                |env| {
                    let mut rng = ChoiceRng::new(env, Alphabet::Grid(m));
                    rng.random::<f32>() < p32
                },
                |_, _, b| {
                    n += 1;
                    if b {
                        t32 += 1
                    }
                },
                u64::MAX,
            );
            explore(
                |env| {
                    let mut rng = ChoiceRng::new(env, Alphabet::Grid(m));
                    rng.random::<f64>() < p64
                },
                |_, _, b| {
                    if b {
                        t64 += 1
                    }
                },
                u64::MAX,
            );
            runs += 2 * n as u64;
            if n != m || t32 * d != a * m || t64 * d != a * m {
                return Err(format!(
                    "random::<f32/f64>() < {a}/{d} on Grid({m}): {t32}/{t64} of {n}"
                ));
            }
        }
    }
    {
        let (mut t, mut n) = (0, 0);
        explore(
            |env| {
                let mut rng = ChoiceRng::new(env, Alphabet::Grid(2));
                rng.random::<bool>()
            },
            |_, _, b| {
                n += 1;
                if b {
                    t += 1
                }
            },
            u64::MAX,
        );
        if (t, n) != (1, 2) {
            return Err(format!("random::<bool>() on Grid(2): {t} of {n}"));
        }
    }
    // choose / choose_multiple on slices
    for n in 1..=5usize {
        let m = crate::ratio::lcm_upto(n as u128) as u32;
        let items: Vec<usize> = (0..n).collect();
        let mut counts: BTreeMap<usize, u32> = BTreeMap::new();
        explore(
            |env| {
                let mut rng = ChoiceRng::new(env, Alphabet::Grid(m));
                *items.choose(&mut rng).unwrap()
            },
            |_, _, v| *counts.entry(v).or_default() += 1,
            u64::MAX,
        );
        if counts.len() != n || counts.values().any(|&c| c as usize != m as usize / n) {
            return Err(format!("choose on {n} items not uniform: {counts:?}"));
        }
        for k in 1..=n {
            if (m as u64).pow(k as u32) > 300_000 {
                continue;
            }
            let mut law: crate::ratio::Law<Vec<usize>> = crate::ratio::Law::new();
            let st = explore(
                |env| {
                    let mut rng = ChoiceRng::new(env, Alphabet::Grid(m));
                    let mut v: Vec<usize> = items.choose_multiple(&mut rng, k).copied().collect();
                    v.sort();
                    v
                },
                |_, w, v| law.add(v, w),
                u64::MAX,
            );
            runs += st.leaves;
            let subsets = crate::ratio::binom(n as u128, k as u128);
            let each = crate::ratio::Ratio::new(1, subsets);
            if law.mass.len() as u128 != subsets || law.mass.values().any(|&p| p != each) {
                return Err(format!(
                    "choose_multiple({k}) of {n} not uniform over subsets: {}",
                    law.render()
                ));
            }
        }
    }
    // shuffle on Rep(12!, K)
    for s in 0..=5usize {
        let f = crate::ratio::factorial(s as u128) as u32;
        let k = f.max(1) * if s <= 3 { 2 } else { 1 };
        let mut counts: BTreeMap<Vec<usize>, u32> = BTreeMap::new();
        let mut sig_ok = true;
        explore(
            |env| {
                let mut rng = ChoiceRng::new(
                    env,
                    Alphabet::Rep {
                        r: 479_001_600,
                        k,
                    },
                );
                let mut v: Vec<usize> = (0..s).collect();
                v.shuffle(&mut rng);
                (v, env.signature())
            },
            |_, _, (v, sig)| {
                *counts.entry(v).or_default() += 1;
                let want: Vec<Kind> = if s >= 2 { vec![Kind::U32] } else { vec![] };
                if sig != want {
                    sig_ok = false;
                }
            },
            u64::MAX,
        );
        if !sig_ok {
            return Err(format!("shuffle of {s} items: unexpected draw signature"));
        }
        if s >= 2 && (counts.len() as u32 != f || counts.values().any(|&c| c != k / f)) {
            return Err(format!(
                "shuffle of {s} items not uniform on Rep(12!,{k}): {counts:?}"
            ));
        }
    }
    Ok(runs)
}
