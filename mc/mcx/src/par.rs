//! Sharding of independent scenario lists over the available cores, and
//! panic capture around calls into the subject.

use std::panic::{catch_unwind, AssertUnwindSafe};
use std::sync::atomic::{AtomicUsize, Ordering};
use std::sync::Mutex;

pub fn threads() -> usize {
    std::env::var("VERIF_THREADS")
        .ok()
        .and_then(|s| s.parse().ok())
        .unwrap_or_else(|| {
            std::thread::available_parallelism()
                .map(|n| n.get())
                .unwrap_or(4)
        })
        .max(1)
}

/// Apply `f` to 0..n on all cores; results in index order.
pub fn par_map<R: Send>(n: usize, f: impl Fn(usize) -> R + Sync) -> Vec<R> {
    let next = AtomicUsize::new(0);
    let out: Mutex<Vec<Option<R>>> = Mutex::new((0..n).map(|_| None).collect());
    let t = threads().min(n.max(1));
    std::thread::scope(|s| {
        for _ in 0..t {
            s.spawn(|| loop {
                let i = next.fetch_add(1, Ordering::Relaxed);
                if i >= n {
                    break;
                }
                let r = f(i);
                out.lock().unwrap()[i] = Some(r);
            });
        }
    });
    out.into_inner()
        .unwrap()
        .into_iter()
        .map(|o| o.expect("shard did not finish"))
        .collect()
}

/// Like `par_map`, on worker threads with a large stack (deeply nested subjects: the repository's
/// parser, `Clone`, `Drop` and `==` of programs are recursive).
pub fn par_map_big<R: Send>(n: usize, stack_bytes: usize, f: impl Fn(usize) -> R + Sync) -> Vec<R> {
    let next = AtomicUsize::new(0);
    let out: Mutex<Vec<Option<R>>> = Mutex::new((0..n).map(|_| None).collect());
    let t = threads().min(n.max(1));
    std::thread::scope(|s| {
        for _ in 0..t {
            std::thread::Builder::new()
                .stack_size(stack_bytes)
                .spawn_scoped(s, || loop {
                    let i = next.fetch_add(1, Ordering::Relaxed);
                    if i >= n {
                        break;
                    }
                    let r = f(i);
                    out.lock().unwrap()[i] = Some(r);
                })
                .expect("spawn worker with a large stack");
        }
    });
    out.into_inner()
        .unwrap()
        .into_iter()
        .map(|o| o.expect("shard did not finish"))
        .collect()
}

thread_local! {
    static LAST_PANIC: std::cell::RefCell<Option<String>> = const { std::cell::RefCell::new(None) };
}

/// Install a panic hook that records the message instead of printing it
/// (exploration provokes panics on purpose).
pub fn quiet_panics() {
    std::panic::set_hook(Box::new(|info| {
        let msg = if let Some(s) = info.payload().downcast_ref::<&str>() {
            (*s).to_string()
        } else if let Some(s) = info.payload().downcast_ref::<String>() {
            s.clone()
        } else {
            "panic".to_string()
        };
        let loc = info
            .location()
            .map(|l| format!("{}:{}", l.file(), l.line()))
            .unwrap_or_default();
        LAST_PANIC.with(|p| *p.borrow_mut() = Some(format!("{msg} @ {loc}")));
    }));
}

/// Run `f`, turning a panic into Err(message).
pub fn guarded<R>(f: impl FnOnce() -> R) -> Result<R, String> {
    match catch_unwind(AssertUnwindSafe(f)) {
        Ok(r) => Ok(r),
        Err(_) => Err(LAST_PANIC
            .with(|p| p.borrow_mut().take())
            .unwrap_or_else(|| "panic (no message)".to_string())),
    }
}
