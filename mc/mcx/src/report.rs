//! Evidence files, violation artefacts, known findings, exit codes.

use serde_json::{json, Map, Value};
use std::collections::BTreeMap;
use std::path::PathBuf;
use std::sync::Mutex;
use std::time::Instant;

pub fn verif_root() -> PathBuf {
    std::env::var("VERIF_ROOT")
        .map(PathBuf::from)
        .unwrap_or_else(|_| PathBuf::from("/verif"))
}

#[derive(Clone, Debug)]
pub struct Violation {
    /// check-defined key of the specific failing input / call site
    pub key: String,
    pub what: String,
    pub replay: Value,
}

#[derive(Clone, Debug)]
pub struct KnownFinding {
    pub status: String,
    pub property: String,
    pub key: String,
    pub what: String,
}

pub fn load_known_findings() -> Vec<KnownFinding> {
    let p = verif_root().join("known_findings.jsonl");
    let Ok(text) = std::fs::read_to_string(&p) else {
        return vec![];
    };
    let mut out = vec![];
    for line in text.lines() {
        let line = line.trim();
        if line.is_empty() || line.starts_with('#') {
            continue;
        }
        let Ok(v) = serde_json::from_str::<Value>(line) else {
            eprintln!("MACHINERY: unparsable line in known_findings.jsonl: {line}");
            std::process::exit(2);
        };
        out.push(KnownFinding {
            status: v["status"].as_str().unwrap_or("").to_string(),
            property: v["property"].as_str().unwrap_or("").to_string(),
            key: v["key"].as_str().unwrap_or("").to_string(),
            what: v["what"].as_str().unwrap_or("").to_string(),
        });
    }
    out
}

pub struct Run {
    pub property: String,
    pub tier: String,
    pub seed: i64,
    pub start: Instant,
    pub states: u64,
    pub transitions: u64,
    pub traces_validated: u64,
    pub evaluations: u64,
    pub distinct_nontrivial: u64,
    pub rule: String,
    pub samples: Vec<Value>,
    pub exhaustive: bool,
    pub caps: Vec<String>,
    pub bounds: Map<String, Value>,
    pub extra: Map<String, Value>,
    pub assumptions: Vec<String>,
    pub violations: Mutex<BTreeMap<String, Violation>>,
    pub violation_count: std::sync::atomic::AtomicU64,
    pub machinery_errors: Mutex<Vec<String>>,
}

impl Run {
    pub fn new(property: &str, tier: &str) -> Run {
        let seed = std::env::var("VERIF_SEED")
            .ok()
            .and_then(|s| s.parse::<i64>().ok())
            .unwrap_or(0);
        Run {
            property: property.to_string(),
            tier: tier.to_string(),
            seed,
            start: Instant::now(),
            states: 0,
            transitions: 0,
            traces_validated: 0,
            evaluations: 0,
            distinct_nontrivial: 0,
            rule: String::new(),
            samples: vec![],
            exhaustive: true,
            caps: vec![],
            bounds: Map::new(),
            extra: Map::new(),
            assumptions: vec![],
            violations: Mutex::new(BTreeMap::new()),
            violation_count: Default::default(),
            machinery_errors: Mutex::new(vec![]),
        }
    }
    pub fn quick(&self) -> bool {
        self.tier != "thorough"
    }
    /// Record a violation (deduplicated by key; the first artefact per key is kept).
    pub fn violation(&self, key: impl Into<String>, what: impl Into<String>, replay: Value) {
        self.violation_count
            .fetch_add(1, std::sync::atomic::Ordering::Relaxed);
        let key = key.into();
        let mut g = self.violations.lock().unwrap();
        if g.len() >= 200 && !g.contains_key(&key) {
            return;
        }
        g.entry(key.clone()).or_insert_with(|| Violation {
            key,
            what: what.into(),
            replay,
        });
    }
    pub fn machinery(&self, what: impl Into<String>) {
        self.machinery_errors.lock().unwrap().push(what.into());
    }
    pub fn sample(&mut self, v: Value) {
        if self.samples.len() < 12 {
            self.samples.push(v);
        }
    }
    pub fn cap_hit(&mut self, what: impl Into<String>) {
        self.exhaustive = false;
        self.caps.push(what.into());
    }
    pub fn bound(&mut self, k: &str, v: impl Into<Value>) {
        self.bounds.insert(k.to_string(), v.into());
    }
    pub fn note(&mut self, k: &str, v: impl Into<Value>) {
        self.extra.insert(k.to_string(), v.into());
    }
    pub fn add_counter(&mut self, k: &str, n: u64) {
        let cur = self.extra.get(k).and_then(|v| v.as_u64()).unwrap_or(0);
        self.extra.insert(k.to_string(), json!(cur + n));
    }

    /// Write evidence, print verdict lines, return the exit code.
    pub fn finish(mut self) -> i32 {
        let root = verif_root();
        let known = load_known_findings();
        let viol = std::mem::take(&mut *self.violations.lock().unwrap());
        let mach = std::mem::take(&mut *self.machinery_errors.lock().unwrap());
        let mut new_violations = 0u64;
        let mut known_hit = 0u64;
        let _ = std::fs::create_dir_all(root.join("replays"));
        let _ = std::fs::create_dir_all(root.join("evidence"));
        let mut viol_summ = vec![];
        for (i, (key, v)) in viol.iter().enumerate() {
            let is_known = known
                .iter()
                .any(|k| k.status == "known" && k.property == self.property && &k.key == key);
            if is_known {
                known_hit += 1;
                println!("KNOWN-FINDING: property={} {} [{}]", self.property, v.what, key);
                continue;
            }
            new_violations += 1;
            let fname = format!("{}-{:03}.json", self.property, i);
            let path = root.join("replays").join(&fname);
            let body = json!({
                "property": self.property,
                "key": key,
                "what": v.what,
                "replay": v.replay,
            });
            let _ = std::fs::write(&path, serde_json::to_string_pretty(&body).unwrap());
            if new_violations <= 25 {
                println!("  violation [{}]: {}", key, v.what);
                println!(
                    "VIOLATION property={} replay={}",
                    self.property,
                    path.display()
                );
            }
            viol_summ.push(json!({"key": key, "what": v.what, "replay": path.display().to_string()}));
        }
        let wall = self.start.elapsed().as_secs_f64();
        let mut cov = Map::new();
        cov.insert("states".into(), json!(self.states.max(1)));
        cov.insert("transitions".into(), json!(self.transitions.max(1)));
        cov.insert(
            "traces_validated_against_impl".into(),
            json!(self.traces_validated),
        );
        cov.insert("evaluations".into(), json!(self.evaluations.max(1)));
        cov.insert(
            "distinct_nontrivial".into(),
            json!(self.distinct_nontrivial),
        );
        cov.insert("rule".into(), json!(self.rule));
        if self.samples.is_empty() {
            self.samples.push(json!("(no sample recorded)"));
        }
        cov.insert("samples".into(), Value::Array(self.samples.clone()));
        cov.insert("exhaustive".into(), json!(self.exhaustive));
        cov.insert("caps_hit".into(), json!(self.caps));
        cov.insert("bounds".into(), Value::Object(self.bounds.clone()));
        for (k, v) in &self.extra {
            cov.insert(k.clone(), v.clone());
        }
        cov.insert("known_findings_hit".into(), json!(known_hit));
        cov.insert("violation_list".into(), Value::Array(viol_summ));
        cov.insert("machinery_errors".into(), json!(mach));
        let ev = json!({
            "property_id": self.property,
            "tier": if self.tier == "thorough" {"thorough"} else {"quick"},
            "seed": self.seed,
            "level": "model_checking",
            "coverage": Value::Object(cov),
            "assumptions": self.assumptions,
            "wall_s": wall,
            "violations": new_violations,
        });
        let evpath = root.join("evidence").join(format!("{}.json", self.property));
        if let Err(e) = std::fs::write(&evpath, serde_json::to_string_pretty(&ev).unwrap()) {
            eprintln!("MACHINERY: cannot write evidence {}: {e}", evpath.display());
            return 2;
        }
        println!(
            "{} tier={} states={} transitions={} impl_traces={} evaluations={} distinct_nontrivial={} exhaustive={} violations={} known={} wall={:.1}s",
            self.property,
            self.tier,
            self.states,
            self.transitions,
            self.traces_validated,
            self.evaluations,
            self.distinct_nontrivial,
            self.exhaustive,
            new_violations,
            known_hit,
            wall
        );
        // a violation is an execution of the subject with its own replay artefact: it stands on its own,
        // also when a vacuity guard or another self-check of the machinery complains in the same run
        // (a subject that never reaches an outcome class trips the guard for that very reason)
        for m in &mach {
            eprintln!("MACHINERY: {m}");
        }
        if new_violations > 0 {
            1
        } else if !mach.is_empty() {
            2
        } else {
            0
        }
    }
}
