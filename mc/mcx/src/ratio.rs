//! Exact non-negative rationals over u128 (laws are compared exactly, never
//! with a tolerance).  Overflow is a machinery error (panic), never a verdict.

use std::fmt;

#[derive(Clone, Copy, PartialEq, Eq, Hash, PartialOrd, Ord)]
pub struct Ratio {
    pub num: u128,
    pub den: u128,
}

pub fn gcd(mut a: u128, mut b: u128) -> u128 {
    while b != 0 {
        let t = a % b;
        a = b;
        b = t;
    }
    a
}

pub fn lcm(a: u128, b: u128) -> u128 {
    if a == 0 || b == 0 {
        return 0;
    }
    a / gcd(a, b) * b
}

pub fn lcm_upto(n: u128) -> u128 {
    (1..=n).fold(1, lcm)
}

pub fn factorial(n: u128) -> u128 {
    (1..=n).product::<u128>().max(1)
}

pub fn binom(n: u128, k: u128) -> u128 {
    if k > n {
        return 0;
    }
    let k = k.min(n - k);
    let mut r: u128 = 1;
    for i in 0..k {
        r = r * (n - i) / (i + 1);
    }
    r
}

impl Ratio {
    pub const ZERO: Ratio = Ratio { num: 0, den: 1 };
    pub const ONE: Ratio = Ratio { num: 1, den: 1 };

    pub fn new(num: u128, den: u128) -> Ratio {
        assert!(den != 0, "Ratio with zero denominator");
        let g = gcd(num, den);
        if g == 0 {
            return Ratio::ZERO;
        }
        Ratio {
            num: num / g,
            den: den / g,
        }
    }
    pub fn int(n: u128) -> Ratio {
        Ratio { num: n, den: 1 }
    }
    pub fn add(self, o: Ratio) -> Ratio {
        let l = lcm(self.den, o.den);
        let n = self
            .num
            .checked_mul(l / self.den)
            .and_then(|a| o.num.checked_mul(l / o.den).and_then(|b| a.checked_add(b)))
            .expect("Ratio overflow (machinery)");
        Ratio::new(n, l)
    }
    pub fn sub(self, o: Ratio) -> Ratio {
        let l = lcm(self.den, o.den);
        let a = self.num.checked_mul(l / self.den).expect("Ratio overflow");
        let b = o.num.checked_mul(l / o.den).expect("Ratio overflow");
        Ratio::new(a.checked_sub(b).expect("negative Ratio"), l)
    }
    pub fn mul(self, o: Ratio) -> Ratio {
        let g1 = gcd(self.num, o.den).max(1);
        let g2 = gcd(o.num, self.den).max(1);
        let n = (self.num / g1)
            .checked_mul(o.num / g2)
            .expect("Ratio overflow");
        let d = (self.den / g2)
            .checked_mul(o.den / g1)
            .expect("Ratio overflow");
        Ratio::new(n, d)
    }
    pub fn div(self, o: Ratio) -> Ratio {
        assert!(o.num != 0);
        self.mul(Ratio {
            num: o.den,
            den: o.num,
        })
    }
    pub fn one_minus(self) -> Ratio {
        Ratio::ONE.sub(self)
    }
    pub fn is_zero(self) -> bool {
        self.num == 0
    }
    pub fn to_f64(self) -> f64 {
        self.num as f64 / self.den as f64
    }
    pub fn pow(self, e: u32) -> Ratio {
        let mut r = Ratio::ONE;
        for _ in 0..e {
            r = r.mul(self);
        }
        r
    }
}

impl fmt::Debug for Ratio {
    fn fmt(&self, f: &mut fmt::Formatter<'_>) -> fmt::Result {
        write!(f, "{}/{}", self.num, self.den)
    }
}
impl fmt::Display for Ratio {
    fn fmt(&self, f: &mut fmt::Formatter<'_>) -> fmt::Result {
        write!(f, "{}/{}", self.num, self.den)
    }
}

/// A finite probability law over outcomes, accumulated exactly.
#[derive(Clone, Debug, PartialEq, Eq)]
pub struct Law<K: Ord + Clone> {
    pub mass: std::collections::BTreeMap<K, Ratio>,
}

impl<K: Ord + Clone> Default for Law<K> {
    fn default() -> Self {
        Law {
            mass: Default::default(),
        }
    }
}

impl<K: Ord + Clone + fmt::Debug> Law<K> {
    pub fn new() -> Self {
        Self::default()
    }
    pub fn add(&mut self, k: K, w: Ratio) {
        if w.is_zero() {
            return;
        }
        let e = self.mass.entry(k).or_insert(Ratio::ZERO);
        *e = e.add(w);
    }
    pub fn total(&self) -> Ratio {
        self.mass.values().fold(Ratio::ZERO, |a, b| a.add(*b))
    }
    pub fn get(&self, k: &K) -> Ratio {
        self.mass.get(k).copied().unwrap_or(Ratio::ZERO)
    }
    pub fn scale(&self, w: Ratio) -> Law<K> {
        let mut l = Law::new();
        for (k, v) in &self.mass {
            l.add(k.clone(), v.mul(w));
        }
        l
    }
    pub fn merge(&mut self, other: &Law<K>) {
        for (k, v) in &other.mass {
            self.add(k.clone(), *v);
        }
    }
    pub fn render(&self) -> String {
        let mut s = String::from("{");
        for (i, (k, v)) in self.mass.iter().enumerate() {
            if i > 0 {
                s.push_str(", ");
            }
            s.push_str(&format!("{:?}: {}", k, v));
        }
        s.push('}');
        s
    }
}
