pub mod env;
pub mod par;
pub mod ratio;
pub mod report;
pub mod rng;
pub mod watch;

pub use env::{explore, explore_bounded, explore_bounded_h, replay, Choice, Env, ExploreStats, Kind};
pub use par::{guarded, par_map, quiet_panics};
pub use ratio::{binom, factorial, gcd, lcm, lcm_upto, Law, Ratio};
pub use report::Run;
pub use rng::{Alphabet, ChoiceRng, TapeRng};
