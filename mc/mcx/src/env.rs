//! E1: the stateless choice-tree explorer.  A scenario asks `Env` for every
//! non-deterministic answer; `explore` enumerates all answer sequences by
//! re-execution (depth-first, alternative 0 first).

use crate::ratio::Ratio;

#[derive(Clone, Copy, Debug, PartialEq, Eq, Hash)]
pub enum Kind {
    /// a `next_u32` draw of the RNG handed to the subject
    U32,
    /// a `next_u64` draw
    U64,
    /// a `fill_bytes` call (answered from u64 words)
    Bytes,
    /// any other environment decision (fault, schedule, ...)
    Other,
}

#[derive(Clone, Copy, Debug, PartialEq, Eq, Hash)]
pub struct Choice {
    pub pick: u32,
    pub width: u32,
    pub kind: Kind,
}

#[derive(Debug)]
pub struct Env {
    prefix: Vec<Choice>,
    pub trace: Vec<Choice>,
    /// set when a replayed prefix does not fit the choice points met
    pub diverged: Option<String>,
    /// choice points beyond this depth are not branched on: the RNG then hands
    /// out a fixed mid-range word (rejection-sampling loops on extreme words
    /// would otherwise make the tree infinite); such leaves are flagged
    pub horizon: usize,
    pub beyond_horizon: bool,
    /// number of words handed out beyond the horizon (position in the deterministic tail stream)
    pub tail: u64,
}

pub const DEFAULT_HORIZON: usize = 24;

impl Env {
    pub fn new(prefix: Vec<Choice>) -> Env {
        Env {
            prefix,
            trace: Vec::new(),
            diverged: None,
            horizon: DEFAULT_HORIZON,
            beyond_horizon: false,
            tail: 0,
        }
    }
    pub fn past_horizon(&mut self) -> bool {
        if self.trace.len() >= self.horizon {
            self.beyond_horizon = true;
            true
        } else {
            false
        }
    }
    /// the next word of the deterministic splitmix64 stream used beyond the horizon (a constant word
    /// can be one that a rejection sampler never accepts)
    pub fn tail_word(&mut self) -> u64 {
        self.tail = self.tail.wrapping_add(1);
        let mut z = self.tail.wrapping_mul(0x9E37_79B9_7F4A_7C15);
        z = (z ^ (z >> 30)).wrapping_mul(0xBF58_476D_1CE4_E5B9);
        z = (z ^ (z >> 27)).wrapping_mul(0x94D0_49BB_1331_11EB);
        z ^ (z >> 31)
    }
    pub fn from_picks(picks: &[u32]) -> Env {
        // widths unknown: taken from the run (used by --replay)
        Env {
            prefix: picks
                .iter()
                .map(|&p| Choice {
                    pick: p,
                    width: 0,
                    kind: Kind::Other,
                })
                .collect(),
            trace: Vec::new(),
            diverged: None,
            horizon: DEFAULT_HORIZON,
            beyond_horizon: false,
            tail: 0,
        }
    }
    pub fn choose(&mut self, width: u32, kind: Kind) -> u32 {
        assert!(width >= 1, "choice point with empty alphabet");
        let i = self.trace.len();
        let pick = if let Some(c) = self.prefix.get(i) {
            if c.width != 0 && (c.width != width || c.kind != kind) && self.diverged.is_none() {
                self.diverged = Some(format!(
                    "choice point {i}: recorded width {} kind {:?}, now width {width} kind {kind:?}",
                    c.width, c.kind
                ));
            }
            if c.pick >= width {
                if self.diverged.is_none() {
                    self.diverged = Some(format!(
                        "choice point {i}: recorded pick {} out of width {width}",
                        c.pick
                    ));
                }
                0
            } else {
                c.pick
            }
        } else {
            0
        };
        self.trace.push(Choice { pick, width, kind });
        pick
    }
    pub fn picks(&self) -> Vec<u32> {
        self.trace.iter().map(|c| c.pick).collect()
    }
    pub fn weight(&self) -> Ratio {
        weight_of(&self.trace)
    }
    pub fn draws(&self) -> usize {
        self.trace
            .iter()
            .filter(|c| c.kind != Kind::Other)
            .count()
    }
    pub fn signature(&self) -> Vec<Kind> {
        self.trace.iter().map(|c| c.kind).collect()
    }
}

pub fn weight_of(trace: &[Choice]) -> Ratio {
    try_weight_of(trace).expect("weight overflow")
}

/// None when the denominator does not fit (a very long leaf: its weight is below 2^-128)
pub fn try_weight_of(trace: &[Choice]) -> Option<Ratio> {
    let mut den: u128 = 1;
    for c in trace {
        den = den.checked_mul(c.width as u128)?;
    }
    Some(Ratio::new(1, den))
}

#[derive(Clone, Debug, Default)]
pub struct ExploreStats {
    pub leaves: u64,
    pub choice_points: u64,
    pub max_depth: usize,
    pub total_weight_is_one: bool,
    pub diverged: Option<String>,
    pub capped: bool,
    /// executions that ran past the horizon (their tails were not branched on)
    pub beyond_horizon: u64,
}

/// Enumerate every complete execution of `scenario`.  `visit` gets the trace
/// and the observation of each leaf.  `cap` bounds the number of leaves (a hit
/// cap is reported, never silently ignored).
/// Wall-clock budget of one exploration (seconds): an engine-level cap, so that a subject whose
/// choice tree does not terminate (e.g. a rejection loop that the alphabet always rejects) ends as a
/// *capped* exploration -- reported as such, never as a verdict -- instead of hanging the check.
static PROCESS_START: std::sync::OnceLock<std::time::Instant> = std::sync::OnceLock::new();

/// What is left of the process-wide exploration budget (900 s quick, 3 h thorough, `VERIF_PROCESS_WALL_S`):
/// once it is used up every further exploration is capped at once, so that a check ends with what it
/// found (violations stand; otherwise a machinery exit) instead of being killed by the outer watchdog.
pub fn process_budget_left() -> std::time::Duration {
    let start = *PROCESS_START.get_or_init(std::time::Instant::now);
    let total = std::env::var("VERIF_PROCESS_WALL_S").ok().and_then(|x| x.parse::<u64>().ok()).unwrap_or_else(|| {
        if std::env::var("VERIF_TIER").map(|t| t == "thorough").unwrap_or(false) {
            10_800
        } else {
            900
        }
    });
    std::time::Duration::from_secs(total).saturating_sub(start.elapsed())
}

pub fn explore_wall_budget() -> std::time::Duration {
    explore_wall_budget_raw().min(process_budget_left())
}

fn explore_wall_budget_raw() -> std::time::Duration {
    let s = std::env::var("VERIF_EXPLORE_WALL_S").ok().and_then(|x| x.parse::<u64>().ok()).unwrap_or_else(|| {
        if std::env::var("VERIF_TIER").map(|t| t == "thorough").unwrap_or(false) {
            3600
        } else {
            240
        }
    });
    std::time::Duration::from_secs(s)
}

pub fn explore<O>(
    mut scenario: impl FnMut(&mut Env) -> O,
    mut visit: impl FnMut(&[Choice], Ratio, O),
    cap: u64,
) -> ExploreStats {
    let mut stats = ExploreStats::default();
    let started = std::time::Instant::now();
    let budget = explore_wall_budget();
    let mut prefix: Vec<Choice> = Vec::new();
    let mut total = Ratio::ZERO;
    loop {
        let mut env = Env::new(prefix.clone());
        crate::watch::enter_picks(prefix.iter().map(|c| c.pick));
        let obs = scenario(&mut env);
        crate::watch::leave();
        if env.diverged.is_some() && stats.diverged.is_none() {
            stats.diverged = env.diverged.clone();
        }
        if env.trace.len() < prefix.len() && stats.diverged.is_none() {
            stats.diverged = Some(format!(
                "execution ended after {} choice points, prefix had {}",
                env.trace.len(),
                prefix.len()
            ));
        }
        // a leaf too long for its weight to be represented makes the exploration a capped one (laws are
        // then not concluded); it is still visited
        let w = match try_weight_of(&env.trace) {
            Some(w) => w,
            None => {
                stats.capped = true;
                Ratio::ZERO
            }
        };
        total = total.add(w);
        if env.beyond_horizon {
            stats.beyond_horizon += 1;
        }
        stats.leaves += 1;
        stats.choice_points += env.trace.len() as u64;
        stats.max_depth = stats.max_depth.max(env.trace.len());
        visit(&env.trace, w, obs);
        let mut t = env.trace;
        while let Some(last) = t.last() {
            if last.pick + 1 < last.width {
                break;
            }
            t.pop();
        }
        if t.is_empty() {
            break;
        }
        if stats.leaves >= cap || (stats.leaves % 4096 == 0 && started.elapsed() > budget) {
            stats.capped = true;
            break;
        }
        t.last_mut().unwrap().pick += 1;
        prefix = t;
    }
    stats.total_weight_is_one = !stats.capped && total == Ratio::ONE;
    let _ = &weight_of;
    stats
}

/// Deviation-bounded exploration: every execution in which at most `max_dev` choice points take a
/// non-default answer (default = alternative 0), all others taking alternative 0.  Complete below the
/// bound, for scenarios whose full tree is far too large (long genomes); used for support and per-leaf
/// oracles only -- the leaf weights do not sum to 1.
pub fn explore_bounded<O>(
    scenario: impl FnMut(&mut Env) -> O,
    visit: impl FnMut(&[Choice], O),
    max_dev: usize,
    cap: u64,
) -> ExploreStats {
    explore_bounded_h(scenario, visit, max_dev, usize::MAX, cap)
}

/// `explore_bounded` with a horizon: choice points beyond it are answered from the deterministic tail
/// stream without branching (for subjects that may loop on the default word).
pub fn explore_bounded_h<O>(
    mut scenario: impl FnMut(&mut Env) -> O,
    mut visit: impl FnMut(&[Choice], O),
    max_dev: usize,
    horizon: usize,
    cap: u64,
) -> ExploreStats {
    let mut stats = ExploreStats::default();
    let started = std::time::Instant::now();
    let budget = explore_wall_budget();
    let mut prefix: Vec<Choice> = Vec::new();
    loop {
        let mut env = Env::new(prefix.clone());
        env.horizon = horizon;
        crate::watch::enter_picks(prefix.iter().map(|c| c.pick));
        let obs = scenario(&mut env);
        crate::watch::leave();
        if env.diverged.is_some() && stats.diverged.is_none() {
            stats.diverged = env.diverged.clone();
        }
        if env.beyond_horizon {
            stats.beyond_horizon += 1;
        }
        stats.leaves += 1;
        stats.choice_points += env.trace.len() as u64;
        stats.max_depth = stats.max_depth.max(env.trace.len());
        visit(&env.trace, obs);
        let mut t = env.trace;
        loop {
            let Some(last) = t.last() else {
                return stats;
            };
            let nz_before = t[..t.len() - 1].iter().filter(|c| c.pick != 0).count();
            if last.pick + 1 < last.width && (last.pick != 0 || nz_before < max_dev) {
                break;
            }
            t.pop();
        }
        if stats.leaves >= cap || (stats.leaves % 1024 == 0 && started.elapsed() > budget) {
            stats.capped = true;
            return stats;
        }
        t.last_mut().unwrap().pick += 1;
        prefix = t;
    }
}

/// Re-run one recorded leaf.
pub fn replay<O>(mut scenario: impl FnMut(&mut Env) -> O, trace: &[Choice]) -> (O, Env) {
    let mut env = Env::new(trace.to_vec());
    let o = scenario(&mut env);
    if env.trace.len() != trace.len() && env.diverged.is_none() {
        env.diverged = Some(format!(
            "replay met {} choice points, recorded {}",
            env.trace.len(),
            trace.len()
        ));
    }
    (o, env)
}
