//! Hang watchdog for in-process exploration.  A worker announces the case it is about to hand to the
//! subject (`enter`) and which sub-step it is at (`step`); a monitor thread reports the case as a
//! violation ("did not return") when a worker has not moved for longer than the limit, writes the
//! evidence and ends the process with exit code 1.  The limit is several orders of magnitude above
//! the cost of any single case, so the verdict does not depend on machine load.

use crate::report::Run;
use serde_json::Value;
use std::sync::atomic::{AtomicU64, AtomicUsize, Ordering};
use std::sync::{Arc, Mutex, OnceLock};
use std::time::{Duration, Instant};

/// renders (key, what, replay) of the announced case for the sub-step the worker is stuck at
pub type Render = Box<dyn Fn(usize) -> (String, String, Value) + Send>;

struct Slot {
    since_ms: AtomicU64,
    sub: AtomicUsize,
    render: Mutex<Option<Render>>,
    /// light-weight announcement used by the explorers: the word choices of the execution under way
    picks: Mutex<Vec<u32>>,
    /// what the worker is exploring (set once per scenario)
    context: Mutex<String>,
    light: std::sync::atomic::AtomicBool,
}

static SLOTS: Mutex<Vec<Arc<Slot>>> = Mutex::new(Vec::new());
static T0: OnceLock<Instant> = OnceLock::new();

thread_local! {
    static MY: Arc<Slot> = {
        let s = Arc::new(Slot { since_ms: AtomicU64::new(0), sub: AtomicUsize::new(0), render: Mutex::new(None), picks: Mutex::new(Vec::new()), context: Mutex::new(String::new()), light: std::sync::atomic::AtomicBool::new(false) });
        SLOTS.lock().unwrap().push(s.clone());
        s
    };
}

fn now_ms() -> u64 {
    T0.get_or_init(Instant::now).elapsed().as_millis() as u64 + 1
}

/// what this worker is exploring (shown if an execution of it does not return)
pub fn context(what: impl Into<String>) {
    let w = what.into();
    MY.with(|s| *s.context.lock().unwrap() = w);
}

/// announce one execution of an exploration by its word choices (cheap: no allocation in steady state)
pub fn enter_picks(picks: impl Iterator<Item = u32>) {
    MY.with(|s| {
        {
            let mut g = s.picks.lock().unwrap();
            g.clear();
            g.extend(picks);
        }
        s.light.store(true, Ordering::Relaxed);
        s.since_ms.store(now_ms(), Ordering::Release);
    });
}

pub fn enter(render: Render) {
    MY.with(|s| {
        s.light.store(false, Ordering::Relaxed);
        *s.render.lock().unwrap() = Some(render);
        s.sub.store(0, Ordering::Relaxed);
        s.since_ms.store(now_ms(), Ordering::Release);
    });
}
pub fn step(i: usize) {
    MY.with(|s| s.sub.store(i, Ordering::Relaxed));
}
pub fn leave() {
    MY.with(|s| s.since_ms.store(0, Ordering::Release));
}

/// Start the monitor.  `limit`: how long one announced case may take.
pub fn start(property: &str, tier: &str, limit: Duration) {
    start_with(property, tier, limit, None);
}

/// `on_hang`: what to do instead of writing the evidence and exiting 1 (used by child processes,
/// which hand the case to their parent).
static STARTED: std::sync::atomic::AtomicBool = std::sync::atomic::AtomicBool::new(false);

pub fn start_with(property: &str, tier: &str, limit: Duration, on_hang: Option<Box<dyn Fn(String, String, Value) + Send>>) {
    if STARTED.swap(true, Ordering::SeqCst) {
        return; // one monitor per process
    }
    let property = property.to_string();
    let tier = tier.to_string();
    let _ = now_ms();
    std::thread::spawn(move || loop {
        std::thread::sleep(Duration::from_millis(500));
        let now = now_ms();
        let slots: Vec<Arc<Slot>> = SLOTS.lock().unwrap().clone();
        for s in slots {
            let since = s.since_ms.load(Ordering::Acquire);
            if since != 0 && now.saturating_sub(since) > limit.as_millis() as u64 {
                let sub = s.sub.load(Ordering::Relaxed);
                let (key, what, replay) = if s.light.load(Ordering::Relaxed) {
                    let picks = s.picks.lock().unwrap().clone();
                    let ctx = s.context.lock().unwrap().clone();
                    (
                        "hang/execution".to_string(),
                        format!("{ctx}: the execution with word choices {picks:?} (then default words)"),
                        serde_json::json!({"kind": "hang", "context": ctx, "choices": picks}),
                    )
                } else {
                    match s.render.lock().unwrap().as_ref() {
                        Some(r) => r(sub),
                        None => ("hang/unknown".to_string(), "a case did not return".to_string(), Value::Null),
                    }
                };
                if let Some(f) = &on_hang {
                    f(key, format!("{what} -- did not return within {} s", limit.as_secs()), replay);
                    std::process::exit(3);
                }
                let mut run = Run::new(&property, &tier);
                run.rule = "run ended by the hang watchdog: the subject did not return from the case below; coverage counters of the interrupted run are not available".into();
                run.cap_hit("interrupted by the hang watchdog");
                run.violation(key, format!("{what} -- did not return within {} s", limit.as_secs()), replay);
                let _ = run.finish();
                std::process::exit(1);
            }
        }
    });
}
