//! C09 tier B: `Generation::par_next` of the unmodified ec-core, linked against
//! the executable rayon MODEL (../shims/rayon), explored under every schedule
//! of the model (split tree x interleaving x cancellation) with the E1 explorer.
//! Also dumps the model's behaviour set for the conformance shapes, which the
//! tier-A binary checks real-rayon traces against (trace inclusion).
//!
//! usage: mc_par <tier>      -> writes $VERIF_ROOT/.build/c09_tierB.json

use ec_core::generation::Generation;
use ec_core::operator::{Composable, Operator};
use mcx::{explore, Env, Kind};
use rand::Rng;
use rayon::model::{self, Event};
use rayon::prelude::*;
use serde_json::{json, Value};
use std::cell::RefCell;
use std::collections::BTreeSet;
use std::rc::Rc;
use std::sync::atomic::{AtomicU64, AtomicUsize, Ordering};
use std::sync::Arc;

#[derive(Clone, Debug, PartialEq, Eq)]
pub struct Kid {
    pub id: u64,
    pub word: u64,
    pub seen_ptr: usize,
    pub seen_ids: Vec<u64>,
}
static NEXT_ID: AtomicU64 = AtomicU64::new(1000);

#[derive(Debug, PartialEq, Eq, Clone)]
pub struct Injected(pub usize);

pub struct Maker {
    pub fail_calls: Vec<usize>,
    pub calls: Arc<AtomicUsize>,
}
impl Composable for Maker {}
impl<'a> Operator<&'a Vec<Kid>> for Maker {
    type Output = Kid;
    type Error = Injected;
    fn apply<R: Rng + ?Sized>(&self, p: &'a Vec<Kid>, rng: &mut R) -> Result<Kid, Injected> {
        let k = self.calls.fetch_add(1, Ordering::SeqCst);
        let word = rng.next_u64();
        if self.fail_calls.contains(&k) {
            return Err(Injected(k));
        }
        Ok(Kid { id: NEXT_ID.fetch_add(1, Ordering::SeqCst), word, seen_ptr: p.as_ptr() as usize, seen_ids: p.iter().map(|x| x.id).collect() })
    }
}
fn initial(n: usize) -> Vec<Kid> {
    (0..n as u64).map(|i| Kid { id: i, word: i, seen_ptr: 0, seen_ids: vec![] }).collect()
}

/// the same schedule-independent oracle as tier A
fn judge(before: &[Kid], before_ptr: usize, after: &[Kid], after_ptr: usize, result: &Result<(), Injected>, fail_calls: &[usize], calls: usize) -> Option<(&'static str, String)> {
    let n = before.len();
    match result {
        Ok(()) => {
            if fail_calls.iter().any(|f| *f < n) && n > 0 {
                return Some(("error-swallowed", format!("child creation was told to fail at calls {fail_calls:?} but the step reported success after {calls} calls")));
            }
            if after.len() != n {
                return Some(("size", format!("population of {n} was replaced by {} individuals", after.len())));
            }
            let old_ids: Vec<u64> = before.iter().map(|k| k.id).collect();
            for (i, k) in after.iter().enumerate() {
                if old_ids.contains(&k.id) {
                    return Some(("not-fresh", format!("individual {i} of the new population is an individual of the old one")));
                }
                if k.seen_ids != old_ids || k.seen_ptr != before_ptr {
                    return Some(("stale-or-modified-parents", format!("child {i} was made from a population with ids {:?}, the previous population was {old_ids:?}", k.seen_ids)));
                }
            }
            for i in 0..after.len() {
                for j in i + 1..after.len() {
                    if after[i].word == after[j].word {
                        return Some(("correlated-randomness", format!("children {i} and {j} drew the same random word {:#x}: they are copies of one draw", after[i].word)));
                    }
                }
            }
            if calls != n {
                return Some(("calls", format!("{calls} children were made for a population of {n}")));
            }
            None
        }
        Err(e) => {
            if !fail_calls.contains(&e.0) {
                return Some(("foreign-error", format!("returned error {e:?} is not one of the injected failures {fail_calls:?}")));
            }
            if after != before || after_ptr != before_ptr {
                return Some(("population-changed-on-error", format!("child creation failed but the population was changed: {} individuals before, {} after", before.len(), after.len())));
            }
            None
        }
    }
}

/// route the model's choices to the explorer's environment
fn with_env<R>(env: &mut Env, f: impl FnOnce() -> R) -> R {
    let cell: Rc<RefCell<Vec<(u32, u32)>>> = Rc::new(RefCell::new(vec![]));
    // the chooser must be 'static: it talks to the Env through a raw pointer that is only
    // used while `env` is borrowed by this function
    let p: *mut Env = env;
    let c2 = cell.clone();
    let chooser = Box::new(move |k: u32| {
        let v = unsafe { (*p).choose(k, Kind::Other) };
        c2.borrow_mut().push((k, v));
        v
    });
    model::with_chooser(chooser, f)
}

fn failure_plans(n: usize) -> Vec<Vec<usize>> {
    let mut v = vec![vec![]];
    for i in 0..n {
        v.push(vec![i]);
    }
    for i in 0..n {
        for j in i + 1..n {
            v.push(vec![i, j]);
        }
    }
    v
}

/// abstract behaviour of one drive, projected on the items that were executed
fn abstract_events(ev: &[Event]) -> String {
    let mut runs: Vec<Vec<usize>> = vec![];
    let mut order: Vec<usize> = vec![];
    let mut nleaves = 0;
    for e in ev {
        match e {
            Event::Drive { runs: r, .. } => {
                nleaves = r.len();
                runs = vec![vec![]; nleaves];
            }
            Event::Item { leaf, index } => {
                if *leaf < nleaves {
                    runs[*leaf].push(*index);
                }
                order.push(*index);
            }
            Event::Stop => {}
        }
    }
    let mut runs: Vec<Vec<usize>> = runs.into_iter().filter(|r| !r.is_empty()).collect();
    runs.sort();
    format!("runs={runs:?};order={order:?}")
}

fn main() {
    mcx::quiet_panics();
    let tier = std::env::args().nth(1).unwrap_or_else(|| "quick".into());
    let quick = tier != "thorough";
    let max_n = if quick { 4 } else { 5 };
    let root = mcx::report::verif_root();
    let mut schedules = 0u64;
    let mut choice_points = 0u64;
    let mut violations: Vec<Value> = vec![];
    let mut machinery: Vec<String> = vec![];
    let mut leaf_run_shapes: BTreeSet<String> = BTreeSet::new();
    for n in 0..=max_n {
        for plan in failure_plans(n) {
            let mut seen_keys: BTreeSet<&'static str> = BTreeSet::new();
            let st = explore(
                |env| {
                    let counter = Arc::new(AtomicUsize::new(0));
                    let mut g = Generation::new(Maker { fail_calls: plan.clone(), calls: counter.clone() }, initial(n));
                    let before = g.population().clone();
                    let before_ptr = g.population().as_ptr() as usize;
                    let r = mcx::guarded(|| with_env(env, || g.par_next()));
                    let events = model::take_events();
                    let after = g.population().clone();
                    let after_ptr = g.population().as_ptr() as usize;
                    match r {
                        Ok(r) => (judge(&before, before_ptr, &after, after_ptr, &r, &plan, counter.load(Ordering::SeqCst)), events),
                        Err(p) => (Some(("panic", format!("panicked: {p}"))), events),
                    }
                },
                |trace, _, (v, events)| {
                    leaf_run_shapes.insert(abstract_events(&events));
                    if let Some((k, w)) = v {
                        if seen_keys.insert(k) {
                            violations.push(json!({
                                "key": format!("par_next(model)/{k}"),
                                "what": format!("par_next on the rayon model, population {n}, failing calls {plan:?}, schedule {:?} ({}): {w}", trace.iter().map(|c| c.pick).collect::<Vec<_>>(), abstract_events(&events)),
                                "replay": {"check":"C09","variant":"model","n":n,"fail":plan,"schedule": trace.iter().map(|c| c.pick).collect::<Vec<_>>()},
                            }));
                        }
                    }
                },
                5_000_000,
            );
            schedules += st.leaves;
            choice_points += st.choice_points;
            if st.capped {
                machinery.push(format!("tier B: exploration of n={n} plan {plan:?} hit the cap"));
            }
            if let Some(d) = st.diverged {
                machinery.push(format!("tier B: schedule replay diverged for n={n} plan {plan:?}: {d} (uncontrolled nondeterminism in the model run)"));
            }
        }
    }
    // behaviour sets of the conformance shape: (0..n).into_par_iter().map_init(init, f).collect::<Result<Vec<_>,_>>()
    let mut conformance = serde_json::Map::new();
    let conf_n = if quick { 4usize } else { 5 };
    for n in 0..=conf_n {
        for fail in failure_plans(n) {
            let mut set: BTreeSet<String> = BTreeSet::new();
            let st = explore(
                |env| {
                    with_env(env, || {
                        let r: Result<Vec<usize>, usize> = (0..n).into_par_iter().map_init(|| 0u8, |_, i| if fail.contains(&i) { Err(i) } else { Ok(i) }).collect();
                        r
                    });
                    abstract_events(&model::take_events())
                },
                |_, _, b| {
                    set.insert(b);
                },
                5_000_000,
            );
            schedules += st.leaves;
            choice_points += st.choice_points;
            conformance.insert(format!("n={n};fail={fail:?}"), json!(set.into_iter().collect::<Vec<_>>()));
        }
    }
    let out = json!({
        "tier": tier,
        "schedules": schedules,
        "choice_points": choice_points,
        "max_population": max_n,
        "distinct_behaviours_par_next": leaf_run_shapes.len(),
        "sample_behaviours": leaf_run_shapes.iter().rev().take(4).collect::<Vec<_>>(),
        "violations": violations,
        "machinery": machinery,
        "conformance_behaviours": conformance,
        "conformance_max_n": conf_n,
    });
    let dir = root.join(".build");
    let _ = std::fs::create_dir_all(&dir);
    std::fs::write(dir.join("c09_tierB.json"), serde_json::to_string(&out).unwrap()).expect("write tier B results");
    println!("tier B: {schedules} schedules, {} violations, {} distinct par_next behaviours", out["violations"].as_array().unwrap().len(), leaf_run_shapes.len());
}
