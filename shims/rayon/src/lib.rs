//! Executable model of rayon's parallel-iterator API (DESIGN.md, C09 tier B).
//!
//! A pipeline is executed *sequentially*; wherever real rayon has freedom, the
//! engine asks `model::choose(k)`:
//!   * the split of the index range 0..n into contiguous leaf runs (one binary
//!     choice per possible boundary; `init` of `map_init` / the clone of
//!     `map_with` happens once per leaf run, when the leaf starts),
//!   * which active leaf produces its next item (interleaving at item
//!     granularity; within a leaf items are produced in index order),
//!   * after a consumer has asked to stop (first `Err`/`None` of a
//!     `collect::<Result<..>>()`), which further items the *other* leaves still
//!     complete, and in which interleaving, before they notice (the refusing
//!     leaf itself stops at once, as rayon's `while_some` folder does).
//! With no chooser installed every choice is 0: one leaf, in order, immediate
//! cancellation — i.e. plain sequential iteration.

use std::cell::RefCell;
use std::ops::Range;
use std::sync::Mutex;

pub mod model {
    use std::cell::RefCell;
    thread_local! {
        static CHOOSER: RefCell<Option<Box<dyn FnMut(u32) -> u32>>> = const { RefCell::new(None) };
        static EVENTS: RefCell<Vec<Event>> = const { RefCell::new(Vec::new()) };
        static QUIET: std::cell::Cell<bool> = const { std::cell::Cell::new(false) };
    }
    /// run `f` as plain sequential iteration: no choice points, no events (used for the
    /// re-collection of already ordered values, which real rayon does not schedule either)
    pub fn quiet<R>(f: impl FnOnce() -> R) -> R {
        let old = QUIET.with(|q| q.replace(true));
        let r = f();
        QUIET.with(|q| q.set(old));
        r
    }
    #[derive(Clone, Debug, PartialEq, Eq)]
    pub enum Event {
        /// a drive started over `n` items, split into these leaf runs
        Drive { n: usize, runs: Vec<(usize, usize)> },
        /// leaf `leaf` produced the item with index `index`
        Item { leaf: usize, index: usize },
        /// the consumer asked to stop
        Stop,
    }
    /// Install a chooser for the duration of `f` (the harness routes it to the explorer).
    pub fn with_chooser<R>(c: Box<dyn FnMut(u32) -> u32>, f: impl FnOnce() -> R) -> R {
        CHOOSER.with(|x| *x.borrow_mut() = Some(c));
        EVENTS.with(|e| e.borrow_mut().clear());
        let r = f();
        CHOOSER.with(|x| *x.borrow_mut() = None);
        r
    }
    pub fn choose(k: u32) -> u32 {
        if k <= 1 || QUIET.with(|q| q.get()) {
            return 0;
        }
        CHOOSER.with(|x| match x.borrow_mut().as_mut() {
            Some(c) => {
                let v = c(k);
                assert!(v < k, "chooser returned {v} for width {k}");
                v
            }
            None => 0,
        })
    }
    pub fn log(e: Event) {
        if QUIET.with(|q| q.get()) {
            return;
        }
        EVENTS.with(|v| v.borrow_mut().push(e));
    }
    pub fn take_events() -> Vec<Event> {
        EVENTS.with(|v| std::mem::take(&mut *v.borrow_mut()))
    }
}

type Leaf<'a, T> = Box<dyn FnMut() -> Option<T> + 'a>;

pub trait ParallelIterator: Sized {
    type Item;
    fn model_len(&self) -> usize;
    /// a sequential producer for the contiguous index range, with its own per-leaf state
    fn model_leaf<'a>(&'a self, range: Range<usize>) -> Leaf<'a, Self::Item>;

    fn map<F, R>(self, f: F) -> Map<Self, F>
    where
        F: Fn(Self::Item) -> R + Sync + Send,
    {
        Map { base: self, f }
    }
    fn map_init<INIT, T, F, R>(self, init: INIT, f: F) -> MapInit<Self, INIT, F, T>
    where
        INIT: Fn() -> T + Sync + Send,
        F: Fn(&mut T, Self::Item) -> R + Sync + Send,
    {
        MapInit { base: self, init, f, _t: std::marker::PhantomData }
    }
    fn map_with<T, F, R>(self, init: T, f: F) -> MapWith<Self, T, F>
    where
        T: Clone + Send,
        F: Fn(&mut T, Self::Item) -> R + Sync + Send,
    {
        MapWith { base: self, init: Mutex::new(init), f }
    }
    fn filter_map<F, R>(self, f: F) -> FilterMap<Self, F>
    where
        F: Fn(Self::Item) -> Option<R> + Sync + Send,
    {
        FilterMap { base: self, f }
    }
    /// smallest leaf run the splitter may produce (rayon's `with_min_len`)
    fn model_min_len(&self) -> usize {
        1
    }
    fn with_min_len(self, min: usize) -> MinLen<Self> {
        MinLen { base: self, min: min.max(1) }
    }
    fn with_max_len(self, _max: usize) -> Self {
        // an upper bound on leaf length only forces more splits; every split is explored anyway
        self
    }
    fn enumerate(self) -> Enumerate<Self> {
        Enumerate { base: self }
    }
    fn collect<C>(self) -> C
    where
        C: FromParallelIterator<Self::Item>,
    {
        C::from_par_iter(self)
    }
    fn for_each<F>(self, f: F)
    where
        F: Fn(Self::Item) + Sync + Send,
    {
        drive(&self, |_, item| {
            f(item);
            true
        });
    }
    fn count(self) -> usize {
        let mut n = 0;
        drive(&self, |_, _| {
            n += 1;
            true
        });
        n
    }
    fn sum<S>(self) -> S
    where
        S: std::iter::Sum<Self::Item>,
    {
        let mut items = vec![];
        drive(&self, |i, item| {
            items.push((i, item));
            true
        });
        items.sort_by_key(|x| x.0);
        items.into_iter().map(|x| x.1).sum()
    }
}

/// Run the pipeline under the model.  `accept(index, item)` returns false to ask for cancellation.
pub fn drive<I: ParallelIterator>(iter: &I, mut accept: impl FnMut(usize, I::Item) -> bool) {
    let n = iter.model_len();
    let mut runs: Vec<(usize, usize)> = vec![];
    let mut start = 0;
    let min_len = iter.model_min_len();
    for b in 1..n {
        // a boundary is possible only if both sides keep at least `min_len` items
        if b - start < min_len || n - b < min_len {
            continue;
        }
        if model::choose(2) == 1 {
            runs.push((start, b));
            start = b;
        }
    }
    if n > 0 {
        runs.push((start, n));
    }
    model::log(model::Event::Drive { n, runs: runs.clone() });
    struct L<'a, T> {
        next: usize,
        end: usize,
        produce: Option<Leaf<'a, T>>,
    }
    let mut leaves: Vec<L<I::Item>> = runs.iter().map(|r| L { next: r.0, end: r.1, produce: None }).collect();
    let mut stopped = false;
    // leaves whose own consumer has seen the refusal: rayon's `while_some` folder is `full()` at once,
    // so such a leaf produces nothing further
    let mut refused: Vec<usize> = vec![];
    loop {
        let active: Vec<usize> = (0..leaves.len()).filter(|i| leaves[*i].next < leaves[*i].end && !refused.contains(i)).collect();
        if active.is_empty() {
            break;
        }
        // after a stop request the shared flag is set, but every other leaf -- also one that has not
        // started yet -- may still complete any prefix of its remaining items before it looks at the
        // flag, in any interleaving with the other leaves: choice 0 = everybody has noticed (the rest
        // is cancelled), choice k = the k-th active leaf produces one more item first
        let li = if stopped {
            let k = model::choose(active.len() as u32 + 1) as usize;
            if k == 0 {
                break;
            }
            active[k - 1]
        } else {
            active[model::choose(active.len() as u32) as usize]
        };
        if leaves[li].produce.is_none() {
            let r = leaves[li].next..leaves[li].end;
            leaves[li].produce = Some(iter.model_leaf(r));
        }
        let idx = leaves[li].next;
        leaves[li].next += 1;
        let item = (leaves[li].produce.as_mut().unwrap())();
        model::log(model::Event::Item { leaf: li, index: idx });
        if let Some(item) = item {
            if !accept(idx, item) {
                refused.push(li);
                if !stopped {
                    stopped = true;
                    model::log(model::Event::Stop);
                }
            }
        }
    }
}

pub trait FromParallelIterator<T> {
    fn from_par_iter<I>(par_iter: I) -> Self
    where
        I: ParallelIterator<Item = T>;
}

impl<T> FromParallelIterator<T> for Vec<T> {
    fn from_par_iter<I>(par_iter: I) -> Self
    where
        I: ParallelIterator<Item = T>,
    {
        let mut items = vec![];
        drive(&par_iter, |i, item| {
            items.push((i, item));
            true
        });
        items.sort_by_key(|x| x.0);
        items.into_iter().map(|x| x.1).collect()
    }
}

impl<C, T, E> FromParallelIterator<Result<T, E>> for Result<C, E>
where
    C: FromParallelIterator<T>,
{
    fn from_par_iter<I>(par_iter: I) -> Self
    where
        I: ParallelIterator<Item = Result<T, E>>,
    {
        // collect the Ok values with cancellation on the first Err (the first one recorded wins)
        let error: RefCell<Option<E>> = RefCell::new(None);
        let mut oks: Vec<(usize, T)> = vec![];
        drive(&par_iter, |i, item| match item {
            Ok(x) => {
                oks.push((i, x));
                true
            }
            Err(e) => {
                let mut slot = error.borrow_mut();
                if slot.is_none() {
                    *slot = Some(e);
                }
                false
            }
        });
        if let Some(e) = error.into_inner() {
            return Err(e);
        }
        oks.sort_by_key(|x| x.0);
        Ok(model::quiet(|| C::from_par_iter(IntoIter { items: Mutex::new(oks.into_iter().map(|x| Some(x.1)).collect()) })))
    }
}

impl<C, T> FromParallelIterator<Option<T>> for Option<C>
where
    C: FromParallelIterator<T>,
{
    fn from_par_iter<I>(par_iter: I) -> Self
    where
        I: ParallelIterator<Item = Option<T>>,
    {
        let mut oks: Vec<(usize, T)> = vec![];
        let mut none = false;
        drive(&par_iter, |i, item| match item {
            Some(x) => {
                oks.push((i, x));
                true
            }
            None => {
                none = true;
                false
            }
        });
        if none {
            return None;
        }
        oks.sort_by_key(|x| x.0);
        Some(model::quiet(|| C::from_par_iter(IntoIter { items: Mutex::new(oks.into_iter().map(|x| Some(x.1)).collect()) })))
    }
}

// ---------------------------------------------------------------- sources

pub struct RepeatN<T> {
    item: T,
    n: usize,
}
pub fn repeatn<T: Clone + Send>(item: T, n: usize) -> RepeatN<T> {
    RepeatN { item, n }
}
pub fn repeat_n<T: Clone + Send>(item: T, n: usize) -> RepeatN<T> {
    RepeatN { item, n }
}
impl<T: Clone> ParallelIterator for RepeatN<T> {
    type Item = T;
    fn model_len(&self) -> usize {
        self.n
    }
    fn model_leaf<'a>(&'a self, range: Range<usize>) -> Leaf<'a, T> {
        let mut left = range.len();
        Box::new(move || {
            if left == 0 {
                None
            } else {
                left -= 1;
                Some(self.item.clone())
            }
        })
    }
}

pub struct IntoIter<T> {
    items: Mutex<Vec<Option<T>>>,
}
impl<T> ParallelIterator for IntoIter<T> {
    type Item = T;
    fn model_len(&self) -> usize {
        self.items.lock().unwrap().len()
    }
    fn model_leaf<'a>(&'a self, range: Range<usize>) -> Leaf<'a, T> {
        let mut r = range;
        Box::new(move || {
            let i = r.next()?;
            self.items.lock().unwrap()[i].take()
        })
    }
}
pub struct Iter<'d, T> {
    slice: &'d [T],
}
impl<'d, T> ParallelIterator for Iter<'d, T> {
    type Item = &'d T;
    fn model_len(&self) -> usize {
        self.slice.len()
    }
    fn model_leaf<'a>(&'a self, range: Range<usize>) -> Leaf<'a, &'d T> {
        let mut r = range;
        let s = self.slice;
        Box::new(move || r.next().map(|i| &s[i]))
    }
}
pub struct RangeIter {
    range: Range<usize>,
}
impl ParallelIterator for RangeIter {
    type Item = usize;
    fn model_len(&self) -> usize {
        self.range.len()
    }
    fn model_leaf<'a>(&'a self, range: Range<usize>) -> Leaf<'a, usize> {
        let base = self.range.start;
        let mut r = range;
        Box::new(move || r.next().map(|i| base + i))
    }
}

pub trait IntoParallelIterator {
    type Iter: ParallelIterator<Item = Self::Item>;
    type Item;
    fn into_par_iter(self) -> Self::Iter;
}
impl<T> IntoParallelIterator for Vec<T> {
    type Iter = IntoIter<T>;
    type Item = T;
    fn into_par_iter(self) -> IntoIter<T> {
        IntoIter { items: Mutex::new(self.into_iter().map(Some).collect()) }
    }
}
impl<'d, T> IntoParallelIterator for &'d Vec<T> {
    type Iter = Iter<'d, T>;
    type Item = &'d T;
    fn into_par_iter(self) -> Iter<'d, T> {
        Iter { slice: self }
    }
}
impl<'d, T> IntoParallelIterator for &'d [T] {
    type Iter = Iter<'d, T>;
    type Item = &'d T;
    fn into_par_iter(self) -> Iter<'d, T> {
        Iter { slice: self }
    }
}
impl IntoParallelIterator for Range<usize> {
    type Iter = RangeIter;
    type Item = usize;
    fn into_par_iter(self) -> RangeIter {
        RangeIter { range: self }
    }
}
pub trait IntoParallelRefIterator<'d> {
    type Iter: ParallelIterator<Item = Self::Item>;
    type Item: 'd;
    fn par_iter(&'d self) -> Self::Iter;
}
impl<'d, T: 'd> IntoParallelRefIterator<'d> for Vec<T> {
    type Iter = Iter<'d, T>;
    type Item = &'d T;
    fn par_iter(&'d self) -> Iter<'d, T> {
        Iter { slice: self }
    }
}
impl<'d, T: 'd> IntoParallelRefIterator<'d> for [T] {
    type Iter = Iter<'d, T>;
    type Item = &'d T;
    fn par_iter(&'d self) -> Iter<'d, T> {
        Iter { slice: self }
    }
}

// ---------------------------------------------------------------- adapters

pub struct Map<I, F> {
    base: I,
    f: F,
}
impl<I, F, R> ParallelIterator for Map<I, F>
where
    I: ParallelIterator,
    F: Fn(I::Item) -> R,
{
    type Item = R;
    fn model_len(&self) -> usize {
        self.base.model_len()
    }
    fn model_min_len(&self) -> usize {
        self.base.model_min_len()
    }
    fn model_leaf<'a>(&'a self, range: Range<usize>) -> Leaf<'a, R> {
        let mut inner = self.base.model_leaf(range);
        Box::new(move || inner().map(&self.f))
    }
}
pub struct MapInit<I, INIT, F, T> {
    base: I,
    init: INIT,
    f: F,
    _t: std::marker::PhantomData<fn() -> T>,
}
impl<I, INIT, T, F, R> ParallelIterator for MapInit<I, INIT, F, T>
where
    I: ParallelIterator,
    INIT: Fn() -> T,
    F: Fn(&mut T, I::Item) -> R,
{
    type Item = R;
    fn model_len(&self) -> usize {
        self.base.model_len()
    }
    fn model_min_len(&self) -> usize {
        self.base.model_min_len()
    }
    fn model_leaf<'a>(&'a self, range: Range<usize>) -> Leaf<'a, R> {
        let mut inner = self.base.model_leaf(range);
        // `init` runs once per leaf run, when the leaf produces its first item
        let mut state: Option<T> = None;
        Box::new(move || {
            let x = inner()?;
            let s = state.get_or_insert_with(|| (self.init)());
            Some((self.f)(s, x))
        })
    }
}
pub struct MapWith<I, T, F> {
    base: I,
    init: Mutex<T>,
    f: F,
}
impl<I, T, F, R> ParallelIterator for MapWith<I, T, F>
where
    I: ParallelIterator,
    T: Clone,
    F: Fn(&mut T, I::Item) -> R,
{
    type Item = R;
    fn model_len(&self) -> usize {
        self.base.model_len()
    }
    fn model_min_len(&self) -> usize {
        self.base.model_min_len()
    }
    fn model_leaf<'a>(&'a self, range: Range<usize>) -> Leaf<'a, R> {
        let mut inner = self.base.model_leaf(range);
        // every leaf run works on its own clone of the initial value
        let mut state: Option<T> = None;
        Box::new(move || {
            let x = inner()?;
            let s = state.get_or_insert_with(|| self.init.lock().unwrap().clone());
            Some((self.f)(s, x))
        })
    }
}
pub struct FilterMap<I, F> {
    base: I,
    f: F,
}
impl<I, F, R> ParallelIterator for FilterMap<I, F>
where
    I: ParallelIterator,
    F: Fn(I::Item) -> Option<R>,
{
    type Item = R;
    fn model_len(&self) -> usize {
        self.base.model_len()
    }
    fn model_min_len(&self) -> usize {
        self.base.model_min_len()
    }
    fn model_leaf<'a>(&'a self, range: Range<usize>) -> Leaf<'a, R> {
        let mut inner = self.base.model_leaf(range);
        // one slot per index: a filtered-out item yields None for that slot
        Box::new(move || inner().and_then(&self.f))
    }
}
pub struct MinLen<I> {
    base: I,
    min: usize,
}
impl<I: ParallelIterator> ParallelIterator for MinLen<I> {
    type Item = I::Item;
    fn model_len(&self) -> usize {
        self.base.model_len()
    }
    fn model_min_len(&self) -> usize {
        self.min.max(self.base.model_min_len())
    }
    fn model_leaf<'a>(&'a self, range: Range<usize>) -> Leaf<'a, I::Item> {
        self.base.model_leaf(range)
    }
}
pub struct Enumerate<I> {
    base: I,
}
impl<I: ParallelIterator> ParallelIterator for Enumerate<I> {
    type Item = (usize, I::Item);
    fn model_len(&self) -> usize {
        self.base.model_len()
    }
    fn model_min_len(&self) -> usize {
        self.base.model_min_len()
    }
    fn model_leaf<'a>(&'a self, range: Range<usize>) -> Leaf<'a, (usize, I::Item)> {
        let mut i = range.start;
        let mut inner = self.base.model_leaf(range);
        Box::new(move || {
            let x = inner()?;
            i += 1;
            Some((i - 1, x))
        })
    }
}

/// the number of worker threads is an environment parameter: a choice point of the model
pub fn current_num_threads() -> usize {
    [1usize, 2, 3, 4][model::choose(4) as usize]
}

pub mod iter {
    pub use crate::{
        repeat_n, repeatn, Enumerate, FilterMap, MinLen, FromParallelIterator, IntoParallelIterator, IntoParallelRefIterator, Map, MapInit,
        MapWith, ParallelIterator, RepeatN,
    };
}
pub mod prelude {
    pub use crate::{FromParallelIterator, IntoParallelIterator, IntoParallelRefIterator, ParallelIterator};
}
