#!/usr/bin/env python3
"""C19 — the generated state builder builds the configured state and rejects misuse.

Engine E5: explicit-state BFS over the builder's type-state automaton
(`BuilderRef`), every transition replayed against the implementation, the
implementation being the macro expansion as judged by rustc (one `cargo check
--message-format=json` over generated probe functions); plus E3: every complete
call order up to a length bound is compiled into a program that builds the state
and compares its content with the model.

usage: c19.py <tier>            run the check, write evidence/C19.json
       c19.py --replay <file>   print the generated function and re-judge it
"""
import json, os, re, subprocess, sys, time, itertools
from collections import deque

ROOT = os.path.dirname(os.path.dirname(os.path.abspath(__file__)))
GUARD = "--cfg unhindered_ec_unhindered_ec_verif"

# ----------------------------------------------------------------------------- the structs

def lit_i64(k): return f"{k}i64"
def lit_bool(k): return "true" if k % 2 else "false"
def lit_f(k): return f"OrderedFloat({k}.5)"
def lit_c(k): return "'" + "abcdefghij"[k % 10] + "'"

STRUCTS = [
    dict(name="PushState", ty="push::push_vm::push_state::PushState", util="push::push_vm::push_state::push_state",
         builder="push::push_vm::push_state::PushStateBuilder",
         stacks=[dict(field="int", bname="int", elem="i64", lit=lit_i64), dict(field="float", bname="float", elem="OrderedFloat<f64>", lit=lit_f),
                 dict(field="bool", bname="bool", elem="bool", lit=lit_bool)],
         inputs=True, limit=True, pub_fields=False, exec_field="exec", input_field=None),
    dict(name="OneStackState", ty="push::verif_states::OneStackState", util="push::verif_states::one_stack_state",
         builder="push::verif_states::OneStackStateBuilder",
         stacks=[dict(field="numbers", bname="number", elem="i64", lit=lit_i64)],
         inputs=True, limit=True, pub_fields=True, exec_field="code", input_field="inputs"),
    dict(name="FourStackState", ty="push::verif_states::FourStackState", util="push::verif_states::four_stack_state",
         builder="push::verif_states::FourStackStateBuilder",
         stacks=[dict(field="alpha", bname="alpha", elem="i64", lit=lit_i64), dict(field="beta", bname="beta", elem="bool", lit=lit_bool),
                 dict(field="gamma", bname="gamma", elem="OrderedFloat<f64>", lit=lit_f), dict(field="delta", bname="delta", elem="char", lit=lit_c)],
         inputs=False, limit=False, pub_fields=True, exec_field="exec", input_field=None),
]

# ----------------------------------------------------------------------------- BuilderRef

N, S, D = "()", "WithSize", "WithSizeAndData"
ACCEPT, REJECT, DONTCARE = "must-accept", "must-reject", "unconstrained"

def methods(st):
    ms = [("with_max_stack_size", None)]
    for i, s in enumerate(st["stacks"]):
        ms.append((f"with_{s['bname']}_max_size", i))
        ms.append((f"with_{s['bname']}_values", i))
        if st["inputs"]:
            ms.append((f"with_{s['bname']}_input", i))
    ms += [("with_program", None), ("with_no_program", None)]
    if st["limit"]:
        ms.append(("with_instruction_step_limit", None))
    ms.append(("build", None))
    return ms

def kind(m):
    name = m[0]
    if name in ("with_max_stack_size", "with_program", "with_no_program", "with_instruction_step_limit", "build"):
        return name
    for suf in ("_max_size", "_values", "_input"):
        if name.endswith(suf):
            return "stack" + suf
    raise ValueError(name)

def step(st, state, m):
    """BuilderRef: (verdict, post-state or None).  state = (exec, limit, stacks tuple)."""
    ex, lim, stacks = state
    k = kind(m)
    i = m[1]
    if k == "with_max_stack_size":
        if ex == D or any(x == D for x in stacks):
            return REJECT, None              # a stack's size cannot be changed after values were loaded
        return ACCEPT, (S, lim, tuple(S for _ in stacks))
    if k == "stack_max_size":
        if stacks[i] == D:
            return REJECT, None
        return ACCEPT, (ex, lim, stacks[:i] + (S,) + stacks[i + 1:])
    if k == "stack_values":
        if stacks[i] == N:
            return DONTCARE, None            # values before any size: the property is silent
        return ACCEPT, (ex, lim, stacks[:i] + (D,) + stacks[i + 1:])
    if k == "stack_input":
        return ACCEPT, state
    if k in ("with_program", "with_no_program"):
        if ex == S:
            return ACCEPT, (D, lim, stacks)
        return DONTCARE, None                # program before sizes / twice: the property is silent
    if k == "with_instruction_step_limit":
        if lim == N:
            return ACCEPT, (ex, D, stacks)
        return DONTCARE, None                # setting the limit twice: silent
    if k == "build":
        complete = ex == D and (lim == D or not st["limit"])
        return (ACCEPT, "BUILT") if complete else (REJECT, None)
    raise ValueError(k)

def bfs(st):
    init = (N, N if st["limit"] else D, tuple(N for _ in st["stacks"]))
    paths = {init: []}
    q = deque([init])
    trans = []
    while q:
        s = q.popleft()
        for m in methods(st):
            v, post = step(st, s, m)
            trans.append((s, m, v, post))
            if v == ACCEPT and post != "BUILT" and post not in paths:
                paths[post] = paths[s] + [m]
                q.append(post)
    return init, paths, trans

# ----------------------------------------------------------------------------- code generation

def call_src(st, m, k=0, size=8, nvals=0):
    """source text of one builder call with default arguments"""
    name, i = m
    kd = kind(m)
    if kd == "with_max_stack_size":
        return f".with_max_stack_size({size})"
    if kd == "stack_max_size":
        return f".{name}({size})"
    if kd == "stack_values":
        s = st["stacks"][i]
        vals = ", ".join(s["lit"](k + j) for j in range(nvals))
        return f".{name}(Vec::<{s['elem']}>::from([{vals}])).unwrap()"
    if kd == "stack_input":
        s = st["stacks"][i]
        return f".{name}(\"x{k}\", {s['lit'](k)})"
    if kd == "with_program":
        return ".with_program(Vec::<PushProgram>::new()).unwrap()"
    if kd == "with_no_program":
        return ".with_no_program()"
    if kd == "with_instruction_step_limit":
        return f".with_instruction_step_limit({5 + k})"
    if kd == "build":
        return ".build()"

def call_src_raw(st, m):
    """like call_src but without unwrap (for the offending call of a rejected transition)"""
    return call_src(st, m).replace(".unwrap()", "")

PRELUDE = """#![allow(unused, dead_code, clippy::all)]
use ordered_float::OrderedFloat;
use push::push_vm::program::PushProgram;
use push::push_vm::push_state::PushState;
use push::verif_states::{OneStackState, FourStackState};
use push::push_vm::HasStack;
use push::push_vm::State;
use push::instruction::{PushInstruction, IntInstruction, variable_name::VariableName};
"""

def gen_cargo(crate, name, binary=False):
    os.makedirs(os.path.join(crate, "src"), exist_ok=True)
    open(os.path.join(crate, "Cargo.toml"), "w").write(f'''[package]
name = "{name}"
version = "0.1.0"
edition = "2021"
[dependencies]
push = {{ path = "/repo/packages/push" }}
ordered-float = "5.0.0"
[profile.dev]
opt-level = 0
debug = false
[workspace]
''')
    lock = os.path.join(ROOT, "mc", "Cargo.lock")
    if os.path.exists(lock):
        open(os.path.join(crate, "Cargo.lock"), "w").write(open(lock).read())

def cargo(crate, args):
    env = dict(os.environ, CARGO_TARGET_DIR=os.path.join(ROOT, ".build", "c19_target"), CARGO_NET_OFFLINE="true",
               RUSTFLAGS=GUARD + " -Awarnings --diagnostic-width=400")
    try:
        return subprocess.run(["cargo"] + args, cwd=crate, env=env, capture_output=True, text=True, timeout=1200)
    except subprocess.TimeoutExpired as e:
        # a build or a generated program that does not finish: reported by the caller as a machinery problem
        return subprocess.CompletedProcess(e.cmd, 124, stdout=(e.stdout or b"").decode(errors="replace") if isinstance(e.stdout, bytes) else (e.stdout or ""), stderr="error: timed out after 1200 s")

def parse_type_args(msg):
    m = re.search(r"method not found in `([^`]*)`", msg) or re.search(r"found for (?:struct|type) `([^`]*)`", msg)
    if not m:
        return None
    t = m.group(1)
    if "<" not in t:
        return (t.split("::")[-1], [])
    head, rest = t.split("<", 1)
    rest = rest.rsplit(">", 1)[0]
    args, depth, cur = [], 0, ""
    for ch in rest:
        if ch == "<": depth += 1
        if ch == ">": depth -= 1
        if ch == "," and depth == 0:
            args.append(cur.strip()); cur = ""
        else:
            cur += ch
    if cur.strip():
        args.append(cur.strip())
    return (head.split("::")[-1], [a.split("::")[-1] for a in args])

def typestate_half(quick):
    crate = os.path.join(ROOT, ".build", "c19ts")
    gen_cargo(crate, "c19ts")
    lines = [PRELUDE]
    def lineno():
        return sum(x.count("\n") for x in lines) + 1
    funcs = []   # dicts: struct, state, method, verdict, post, path, line (of the judged call), kind
    automata = {}
    for st in STRUCTS:
        init, paths, trans = bfs(st)
        automata[st["name"]] = (init, paths, trans)
        # calibration: which generic position belongs to which slot
        cal = [("exec", [("with_max_stack_size", None), ("with_no_program", None)])]
        if st["limit"]:
            cal.append(("limit", [("with_instruction_step_limit", None)]))
        for i, s in enumerate(st["stacks"]):
            cal.append((f"stack{i}", [(f"with_{s['bname']}_max_size", i)]))
        for slot, path in cal:
            src = "".join(call_src(st, m) for m in path)
            lines.append(f"fn cal_{st['name']}_{slot}() {{\n    let b = {st['name']}::builder(){src};\n")
            funcs.append(dict(struct=st["name"], kind="calibration", slot=slot, line=lineno(), path=[m[0] for m in path]))
            lines.append("    b.__probe();\n}\n")
        for (s, m, v, post) in trans:
            path = paths[s]
            src = "".join(call_src(st, pm, k) for k, pm in enumerate(path))
            fid = len(funcs)
            if v == ACCEPT:
                lines.append(f"fn t{fid}() {{\n    let b = {st['name']}::builder(){src};\n    let c = b{call_src(st, m)};\n")
                funcs.append(dict(struct=st["name"], kind="transition", state=s, method=m[0], verdict=v, post=post, path=[pm[0] for pm in path], line_call=lineno() - 1, line=lineno()))
                lines.append("    c.__probe();\n}\n")
            else:
                lines.append(f"fn t{fid}() {{\n    let b = {st['name']}::builder(){src};\n")
                funcs.append(dict(struct=st["name"], kind="transition", state=s, method=m[0], verdict=v, post=None, path=[pm[0] for pm in path], line_call=lineno(), line=lineno()))
                lines.append(f"    let c = b{call_src_raw(st, m)};\n}}\n")
    open(os.path.join(crate, "src", "lib.rs"), "w").write("".join(lines))
    p = cargo(crate, ["check", "--offline", "--message-format=json"])
    errors = {}      # line -> list of (code, message)
    foreign = []
    for line in p.stdout.splitlines():
        try:
            msg = json.loads(line)
        except Exception:
            continue
        if msg.get("reason") != "compiler-message":
            continue
        m = msg["message"]
        if m.get("level") != "error":
            continue
        if msg.get("target", {}).get("name") != "c19ts":
            foreign.append(m["message"])
            continue
        prim = [sp for sp in m.get("spans", []) if sp.get("is_primary")]
        if not prim:
            if "aborting" not in m["message"] and "could not compile" not in m["message"]:
                foreign.append(m["message"])
            continue
        # rustc names the generic parameters in the message and the concrete type in the span label
        errors.setdefault(prim[0]["line_start"], []).append(((m.get("code") or {}).get("code"), m["message"] + " || " + (prim[0].get("label") or "")))
    if foreign:
        return dict(machinery=[f"c19ts: errors outside the generated crate: {foreign[:2]}"], violations=[], funcs=len(funcs))
    violations, machinery = [], []
    # calibration -> position maps
    pos = {}
    for f in funcs:
        if f["kind"] != "calibration":
            continue
        e = [x for x in errors.get(f["line"], []) if "__probe" in x[1]]
        ta = parse_type_args(e[0][1]) if e else None
        if not ta:
            machinery.append(f"calibration {f['struct']}/{f['slot']} produced no parsable __probe diagnostic: {errors.get(f['line'])}")
            continue
        args = ta[1]
        target = D if f["slot"] in ("exec", "limit") else S
        if f["slot"] == "exec":
            idx = [i for i, a in enumerate(args) if a == D]
        elif f["slot"] == "limit":
            idx = [i for i, a in enumerate(args) if a == D]
        else:
            idx = [i for i, a in enumerate(args) if a == S]
        if len(idx) != 1:
            machinery.append(f"calibration {f['struct']}/{f['slot']}: cannot locate the slot in {args}")
            continue
        pos.setdefault(f["struct"], {})[f["slot"]] = idx[0]
    if machinery:
        return dict(machinery=machinery, violations=[], funcs=len(funcs))
    matched = 0
    seen_legal, seen_illegal = set(), set()
    unconstrained = {}
    for f in funcs:
        if f["kind"] != "transition":
            continue
        st = next(s for s in STRUCTS if s["name"] == f["struct"])
        label = f"{f['struct']}: {' . '.join(f['path']) or '(fresh builder)'} then {f['method']}"
        early = [x for l, xs in errors.items() for x in xs if False]
        errs_call = errors.get(f["line_call"], [])
        errs_probe = errors.get(f["line"], []) if f["line"] != f["line_call"] else []
        replay = dict(check="C19", scenario="typestate", struct=f["struct"], path=f["path"], method=f["method"], verdict=f["verdict"])
        if f["verdict"] == ACCEPT:
            if errs_call:
                violations.append(dict(key=f"typestate/{f['struct']}/permitted-call-rejected/{f['method']}", what=f"{label}: the builder must permit this call but rustc rejects it: {errs_call[0][1][:200]}", replay=replay))
                continue
            pe = [x for x in errs_probe if "__probe" in x[1]]
            ta = parse_type_args(pe[0][1]) if pe else None
            if not ta:
                machinery.append(f"{label}: no __probe diagnostic ({errs_probe})")
                continue
            if f["post"] == "BUILT":
                ok = ta[0] == f["struct"]
                got = ta[0]
                want = f["struct"]
            else:
                ex, lim, stacks = f["post"]
                want = {"exec": ex}
                if st["limit"]:
                    want["limit"] = lim
                for i in range(len(st["stacks"])):
                    want[f"stack{i}"] = stacks[i]
                got = {slot: ta[1][p] if p < len(ta[1]) else None for slot, p in pos[f["struct"]].items()}
                ok = got == want
            if not ok:
                violations.append(dict(key=f"typestate/{f['struct']}/wrong-type-state/{f['method']}", what=f"{label}: the builder's type-state afterwards is {got}, BuilderRef says {want}", replay=replay))
            else:
                matched += 1
        elif f["verdict"] == REJECT:
            if not errs_call:
                violations.append(dict(key=f"typestate/{f['struct']}/misuse-accepted/{f['method']}", what=f"{label}: this call must be a compile-time error (incomplete builder / size change after values were loaded) but it compiles", replay=replay))
            else:
                matched += 1
        else:
            unconstrained[f"{f['struct']}:{f['method']}:{'accepted' if not errs_call else 'rejected'}"] = unconstrained.get(f"{f['struct']}:{f['method']}:{'accepted' if not errs_call else 'rejected'}", 0) + 1
            matched += 1
    states = sum(len(a[1]) for a in automata.values())
    transitions = sum(len(a[2]) for a in automata.values())
    return dict(machinery=machinery, violations=violations, funcs=len(funcs), states=states, transitions=transitions, matched=matched,
                unconstrained=unconstrained, automata={k: dict(states=len(v[1]), transitions=len(v[2])) for k, v in automata.items()},
                positions=pos)

# ----------------------------------------------------------------------------- run-time half

def complete_paths(st, max_calls):
    """all call sequences of must-accept transitions ending in build, up to max_calls calls"""
    init, _, _ = bfs(st)
    out = []
    def go(state, path):
        if len(path) >= max_calls:
            return
        for m in methods(st):
            v, post = step(st, state, m)
            if v != ACCEPT:
                continue
            if post == "BUILT":
                out.append(path + [m])
            else:
                go(post, path + [m])
    go(init, [])
    return out

SCHEDULES = [
    dict(name="roomy", sizes=[3, 4, 2], nvals=[1, 2, 0, 3], prog=[2, 1, 0]),
    dict(name="tight", sizes=[1, 2, 0], nvals=[2, 1, 1, 0], prog=[2, 0, 3]),
    dict(name="exact", sizes=[2, 2, 3], nvals=[2, 0, 1, 1], prog=[2, 2, 1]),
]

def runtime_half(quick):
    crate = os.path.join(ROOT, ".build", "c19run")
    gen_cargo(crate, "c19run")
    max_calls = 5 if quick else 6
    cap = 600 if quick else 2500
    body = [PRELUDE, "fn prog(k: i64) -> PushProgram { PushProgram::Instruction(PushInstruction::push_int(k)) }\n",
            "fn bad(id: usize, what: &str) { println!(\"BAD {id} {what}\"); }\n"]
    cases = []
    total_paths = 0
    for st in STRUCTS:
        paths = complete_paths(st, max_calls)
        total_paths += len(paths)
        stride = max(1, len(paths) * len(SCHEDULES) // cap)
        n = 0
        for pi, path in enumerate(paths):
            for sched in SCHEDULES if not quick else SCHEDULES[:2]:
                n += 1
                if n % stride:
                    continue
                cid = len(cases)
                # the model: per stack (max, contents top-first); exec likewise
                k_size = k_val = k_prog = 0
                maxes = {i: None for i in range(len(st["stacks"]))}
                exec_max = None
                conts = {i: [] for i in range(len(st["stacks"]))}
                program = []
                inputs = {}
                limit = None
                src = [f"fn case{cid}() {{\n    let b = {st['name']}::builder();\n"]
                expect_err = None
                vcount = 0
                for m in path:
                    kd = kind(m)
                    i = m[1]
                    if kd == "with_max_stack_size":
                        size = sched["sizes"][k_size % 3] + 1; k_size += 1
                        exec_max = size
                        for j in maxes: maxes[j] = size
                        src.append(f"    let b = b.with_max_stack_size({size});\n")
                    elif kd == "stack_max_size":
                        size = sched["sizes"][k_size % 3]; k_size += 1
                        maxes[i] = size
                        src.append(f"    let b = b.{m[0]}({size});\n")
                    elif kd == "stack_values":
                        nv = sched["nvals"][k_val % 4]; k_val += 1
                        s = st["stacks"][i]
                        vals = [s["lit"](vcount + j) for j in range(nv)]; vcount += nv
                        if len(conts[i]) + nv > maxes[i]:
                            expect_err = f"{m[0]} with {nv} values into a stack of max {maxes[i]} holding {len(conts[i])}"
                            src.append(f"    let r = b.{m[0]}(Vec::<{s['elem']}>::from([{', '.join(vals)}]));\n")
                            src.append(f"    if !matches!(r, Err(push::push_vm::stack::StackError::Overflow {{ .. }})) {{ bad({cid}, \"expected an overflow error\"); }}\n    return;\n}}\n")
                            break
                        conts[i] = vals + conts[i]
                        src.append(f"    let b = match b.{m[0]}(Vec::<{s['elem']}>::from([{', '.join(vals)}])) {{ Ok(b) => b, Err(_) => {{ bad({cid}, \"{m[0]} reported an error although the values fit the configured maximum\"); return; }} }};\n")
                    elif kd == "stack_input":
                        s = st["stacks"][i]
                        # names that differ only in case, by a space or by being a prefix of one another
                        pool = ["in", "IN", "In", "in ", " in", "inn", "iN", "i"]
                        name = pool[len(inputs)] if len(inputs) < len(pool) else f"in{len(inputs)}"
                        inputs[name] = (i, s["lit"](vcount)); vcount += 1
                        src.append(f"    let b = b.{m[0]}(\"{name}\", {inputs[name][1]});\n")
                    elif kd == "with_program":
                        np_ = sched["prog"][k_prog % 3]; k_prog += 1
                        if np_ > exec_max:
                            expect_err = "program longer than the exec stack's maximum"
                            src.append(f"    let r = b.with_program(vec![{', '.join(f'prog({100 + j})' for j in range(np_))}]);\n")
                            src.append(f"    if !matches!(r, Err(push::push_vm::stack::StackError::Overflow {{ .. }})) {{ bad({cid}, \"expected an overflow error for the program\"); }}\n    return;\n}}\n")
                            break
                        program = [100 + j for j in range(np_)]
                        src.append(f"    let b = match b.with_program(vec![{', '.join(f'prog({x})' for x in program)}]) {{ Ok(b) => b, Err(_) => {{ bad({cid}, \"with_program reported an error although the program fits the configured maximum\"); return; }} }};\n")
                    elif kd == "with_no_program":
                        src.append("    let b = b.with_no_program();\n")
                    elif kd == "with_instruction_step_limit":
                        limit = 1
                        src.append("    let b = b.with_instruction_step_limit(1);\n")
                    elif kd == "build":
                        src.append("    let mut s = b.build();\n")
                        for j, sk in enumerate(st["stacks"]):
                            bottom_first = list(reversed(conts[j]))
                            mx = "usize::MAX" if maxes[j] is None else str(maxes[j])
                            src.append(f"    if !(s.stack::<{sk['elem']}>() == &Vec::<{sk['elem']}>::from([{', '.join(bottom_first)}])) {{ bad({cid}, \"contents of stack {sk['field']}\"); }}\n")
                            src.append(f"    if s.stack::<{sk['elem']}>().max_stack_size() != {mx} {{ bad({cid}, \"max size of stack {sk['field']}\"); }}\n")
                            if conts[j]:
                                src.append(f"    if s.stack::<{sk['elem']}>().top().ok() != Some(&{conts[j][0]}) {{ bad({cid}, \"first supplied value is not on top of {sk['field']}\"); }}\n")
                            if st["pub_fields"]:
                                src.append(f"    if !std::ptr::eq(s.stack::<{sk['elem']}>(), &s.{sk['field']}) {{ bad({cid}, \"stack::<{sk['elem']}>() does not address field {sk['field']}\"); }}\n")
                                src.append(f"    {{ let p = s.stack_mut::<{sk['elem']}>() as *const _; if !std::ptr::eq(p, &s.{sk['field']}) {{ bad({cid}, \"stack_mut::<{sk['elem']}>() does not address field {sk['field']}\"); }} }}\n")
                        prog_bottom = ", ".join(f"prog({x})" for x in reversed(program))
                        src.append(f"    if !(s.stack::<PushProgram>() == &Vec::<PushProgram>::from([{prog_bottom}])) {{ bad({cid}, \"exec stack contents\"); }}\n")
                        src.append(f"    if s.stack::<PushProgram>().max_stack_size() != {exec_max} {{ bad({cid}, \"exec max size\"); }}\n")
                        if st["pub_fields"]:
                            src.append(f"    if !std::ptr::eq(s.stack::<PushProgram>(), &s.{st['exec_field']}) {{ bad({cid}, \"exec accessor\"); }}\n")
                        if st["input_field"]:
                            for name, (j, lit) in inputs.items():
                                src.append(f"    if s.{st['input_field']}.get(&VariableName::from(\"{name}\")) != Some(&PushInstruction::push_int({lit})) {{ bad({cid}, \"input {name}\"); }}\n")
                        if st["name"] == "PushState":
                            # the first program element is the first to execute: run with the step limit 1
                            intj = 0
                            if program and len(conts[intj]) < (maxes[intj] if maxes[intj] is not None else 1 << 60):
                                src.append("    let before: Vec<i64> = { let mut c = s.stack::<i64>().clone(); let mut v = vec![]; while let Ok(x) = c.pop() { v.push(x); } v.reverse(); v };\n")
                                src.append("    match s.clone().run_to_completion() {\n")
                                src.append(f"        Ok(t) => {{ let mut w = before.clone(); w.push({program[0]}); if !(t.stack::<i64>() == &w) {{ bad({cid}, \"the first program element was not the first to execute\"); }} if t.stack::<PushProgram>().size() != {len(program) - 1} {{ bad({cid}, \"exec size after one step\"); }} }}\n")
                                src.append(f"        Err(_) => bad({cid}, \"one step of the program failed\"),\n    }}\n")
                            for name, (j, lit) in inputs.items():
                                sk = st["stacks"][j]
                                src.append(f"    {{ let mut t = s.clone(); t.stack_mut::<{sk['elem']}>().set_max_stack_size(usize::MAX); match t.with_input(&VariableName::from(\"{name}\")) {{ Ok(u) => if u.stack::<{sk['elem']}>().top().ok() != Some(&{lit}) {{ bad({cid}, \"input {name} does not resolve to its value\"); }}, Err(_) => bad({cid}, \"input {name} failed\") }} }}\n")
                        src.append("}\n")
                cases.append(dict(id=cid, struct=st["name"], path=[m[0] for m in path], schedule=sched["name"], expect_err=expect_err))
                body.append("".join(src))
    # value lists that are not materialised: an exact-size iterator with (almost) usize::MAX items onto a stack
    # that already holds one value (present + supplied does not fit in usize), and onto an empty one with a small
    # maximum; long materialised lists around 256 and 65536 values against maxima one below / equal
    for st in STRUCTS:
        for s_ in st["stacks"]:
            vm = f"with_{s_['bname']}_values"
            for variant in ("huge-after-one", "huge-on-empty", "long-fits", "long-one-too-many"):
                for n_long in ((256, 65536) if variant.startswith("long") else (0,)):
                    cid = len(cases)
                    src = [f"fn case{cid}() {{\n"]
                    if variant == "huge-after-one":
                        src.append(f"    let b = {st['name']}::builder().with_max_stack_size(5);\n")
                        src.append(f"    let b = match b.{vm}(Vec::<{s_['elem']}>::from([{s_['lit'](1)}])) {{ Ok(b) => b, Err(_) => {{ bad({cid}, \"one value into a stack of max 5 was rejected\"); return; }} }};\n")
                        src.append(f"    let r = b.{vm}((0..usize::MAX).map(|_| {s_['lit'](2)}));\n")
                        src.append(f"    if !matches!(r, Err(push::push_vm::stack::StackError::Overflow {{ .. }})) {{ bad({cid}, \"expected an overflow error\"); }}\n}}\n")
                    elif variant == "huge-on-empty":
                        src.append(f"    let b = {st['name']}::builder().with_max_stack_size(5);\n")
                        src.append(f"    let r = b.{vm}((0..usize::MAX - 3).map(|_| {s_['lit'](2)}));\n")
                        src.append(f"    if !matches!(r, Err(push::push_vm::stack::StackError::Overflow {{ .. }})) {{ bad({cid}, \"expected an overflow error\"); }}\n}}\n")
                    else:
                        mx = n_long if variant == "long-fits" else n_long - 1
                        src.append(f"    let b = {st['name']}::builder().with_max_stack_size({mx});\n")
                        src.append(f"    let r = b.{vm}((0..{n_long}usize).map(|_| {s_['lit'](2)}).collect::<Vec<{s_['elem']}>>());\n")
                        if variant == "long-fits":
                            src.append(f"    if r.is_err() {{ bad({cid}, \"{n_long} values into a stack of max {mx} were rejected\"); }}\n}}\n")
                        else:
                            src.append(f"    if !matches!(r, Err(push::push_vm::stack::StackError::Overflow {{ .. }})) {{ bad({cid}, \"expected an overflow error\"); }}\n}}\n")
                    cases.append(dict(id=cid, struct=st["name"], path=["with_max_stack_size", vm] + ([vm] if variant == "huge-after-one" else []), schedule=f"{variant}{' ' + str(n_long) if n_long else ''}", expect_err=None if variant == "long-fits" else variant))
                    body.append("".join(src))
    body.append("fn guarded(id: usize, f: fn()) { if std::panic::catch_unwind(f).is_err() { bad(id, \"panicked\"); } }\n")
    body.append("fn main() {\n    std::panic::set_hook(Box::new(|_| {}));\n" + "".join(f"    guarded({c['id']}, case{c['id']});\n" for c in cases) + f"    println!(\"DONE {len(cases)}\");\n}}\n")
    open(os.path.join(crate, "src", "main.rs"), "w").write("".join(body))
    p = cargo(crate, ["run", "--offline", "--quiet"])
    if p.returncode != 0 or "DONE" not in p.stdout:
        # a compile error here means a must-accept path does not type-check or the API changed
        errs = [l for l in p.stderr.splitlines() if l.startswith("error")][:3]
        return dict(machinery=[f"c19run did not build/run: {errs}"], violations=[], cases=len(cases), paths=total_paths)
    violations = []
    for line in p.stdout.splitlines():
        if line.startswith("BAD "):
            _, cid, what = line.split(" ", 2)
            c = cases[int(cid)]
            violations.append(dict(key=f"content/{c['struct']}/{what.split(' of ')[0].split(' stack ')[0]}", what=f"{c['struct']}: calls {' . '.join(c['path'])} (argument schedule {c['schedule']}): {what}",
                                   replay=dict(check="C19", scenario="content", case=c)))
    return dict(machinery=[], violations=violations, cases=len(cases), paths=total_paths, overflow_cases=sum(1 for c in cases if c["expect_err"]), max_calls=max_calls)

# ----------------------------------------------------------------------------- main

def main():
    if len(sys.argv) >= 3 and sys.argv[1] == "--replay":
        r = json.load(open(sys.argv[2]))["replay"]
        print(json.dumps(r, indent=1))
        tier = "quick"
        ts = typestate_half(True)
        rt = runtime_half(True)
        same = [v for v in ts["violations"] + rt["violations"]]
        for v in same:
            print("MISMATCH [%s]: %s" % (v["key"], v["what"]))
        print("replay: property held" if not same else "replay: violation reproduced")
        sys.exit(0 if not same else 1)
    tier = sys.argv[1] if len(sys.argv) > 1 else "quick"
    quick = tier != "thorough"
    t0 = time.time()
    ts = typestate_half(quick)
    rt = runtime_half(quick)
    known = []
    kf = os.path.join(ROOT, "known_findings.jsonl")
    if os.path.exists(kf):
        for l in open(kf):
            l = l.strip()
            if l and not l.startswith("#"):
                known.append(json.loads(l))
    os.makedirs(os.path.join(ROOT, "replays"), exist_ok=True)
    os.makedirs(os.path.join(ROOT, "evidence"), exist_ok=True)
    new, seen = 0, set()
    listed = []
    for i, v in enumerate(ts["violations"] + rt["violations"]):
        if v["key"] in seen:
            continue
        seen.add(v["key"])
        if any(k.get("status") == "known" and k.get("property") == "C19" and k.get("key") == v["key"] for k in known):
            print(f"KNOWN-FINDING: property=C19 {v['what']} [{v['key']}]")
            continue
        new += 1
        path = os.path.join(ROOT, "replays", f"C19-{i:03d}.json")
        json.dump(dict(property="C19", key=v["key"], what=v["what"], replay=v["replay"]), open(path, "w"), indent=1)
        if new <= 25:
            print(f"  violation [{v['key']}]: {v['what']}")
            print(f"VIOLATION property=C19 replay={path}")
        listed.append(dict(key=v["key"], what=v["what"], replay=path))
    mach = ts["machinery"] + rt["machinery"]
    ev = {"property_id": "C19", "tier": "thorough" if tier == "thorough" else "quick", "seed": int(os.environ.get("VERIF_SEED", "0") or 0),
          "level": "model_checking",
          "coverage": {"states": max(1, ts.get("states", 0)), "transitions": max(1, ts.get("transitions", 0)),
                       "traces_validated_against_impl": ts.get("matched", 0) + rt.get("cases", 0),
                       "evaluations": ts.get("funcs", 0) + rt.get("cases", 0), "distinct_nontrivial": ts.get("matched", 0),
                       "rule": "BFS over the type-state automaton BuilderRef of three state structs (PushState; a one-stack struct with renamed builder methods and custom input instruction; a four-stack struct without inputs and step limit); every (reachable state, method) pair becomes one generated function judged by rustc: must-accept transitions must compile and leave the builder in the type-state the model predicts (read from the __probe diagnostic), must-reject transitions (build on an incomplete builder; size changes after values were loaded) must fail at the offending call; every complete must-accept call order up to the length bound is compiled and run, the built state compared with the model (contents, first value on top, last size set, program order, inputs, overflow errors, accessor/field identity)",
                       "samples": [{"struct": "PushState", "path": ["with_max_stack_size", "with_int_values"], "then": "with_int_max_size", "verdict": "must be a compile-time error"},
                                   {"struct": "FourStackState", "path": ["with_max_stack_size", "with_no_program"], "then": "build", "verdict": "permitted although no step limit exists"}],
                       "exhaustive": True, "automata": ts.get("automata"), "generic_positions": ts.get("positions"),
                       "unconstrained_transitions_observed": ts.get("unconstrained"), "runtime_cases": rt.get("cases"), "complete_call_orders": rt.get("paths"),
                       "runtime_overflow_cases": rt.get("overflow_cases"), "max_calls": rt.get("max_calls"),
                       "violation_list": listed, "machinery_errors": mach},
          "assumptions": ["rustc is the implementation of the type-state machine; its E0599 diagnostics name the concrete builder type",
                          "transitions on which the property is silent (values before any size, program twice, limit twice) are recorded, not judged"],
          "wall_s": time.time() - t0, "violations": new}
    json.dump(ev, open(os.path.join(ROOT, "evidence", "C19.json"), "w"), indent=1)
    print(f"C19 tier={tier} states={ts.get('states')} transitions={ts.get('transitions')} rustc_judged={ts.get('funcs')} matched={ts.get('matched')} runtime_cases={rt.get('cases')} of {rt.get('paths')} call orders violations={new} wall={time.time() - t0:.1f}s")
    for m in mach:
        print("MACHINERY:", m, file=sys.stderr)
    sys.exit(1 if new else (2 if mach else 0))

if __name__ == "__main__":
    main()
