#!/usr/bin/env python3
"""Regenerates MANIFEST.json from the table below (single source of truth)."""
import json, os, sys
ROOT = os.path.dirname(os.path.dirname(os.path.abspath(__file__)))

CHECKS = {
 "C04": dict(engine="E2-stateright",
   technique="explicit-state model checking: stateright BFS over all reachable states of the real Stack<u8>, each transition compared with a Vec+capacity reference model",
   text="Complete reachable state graph of the real Stack for contents <= 7 (thorough 8) elements over 3 (4) values and capacities {0..4, MAX}; ~135 operations applied in every state (push, pop*, top*, discard, push_many, try_extend with no, loose-upper-bound and lying size hints, try_extend_from_slice, push_many with an exact-size iterator of usize::MAX items onto a non-empty stack, set_max_stack_size, queries); return value incl. Underflow payload, contents, size and max compared with the reference after every transition; plus long stacks (254..300 elements, thorough 126..1000, maxima around the size) x an operation list incl. bulk insertions of 255..300 elements, one and two steps deep. This is the right level because the property quantifies over all histories and the state space is finite once contents are bounded.",
   note="Trusted: stateright's BFS (cross-checked by a second run with another thread count), the 40-line reference model, u8 standing for all element types (code is parametric).",
   design="4/C04"),
}

CHECKS["C01"] = dict(engine="E2-stateright + E3-bounded-exhaustive",
   technique="explicit-state model checking of the real VM (stateright BFS over instruction sequences) plus bounded-exhaustive enumeration of boundary states and of all genomes up to a length bound under every step limit, differential against the PushRef reference semantics",
   text="Every instruction of the full set (all enum-listed int/float/bool/exec instructions, print constants, PrintString, input variables, literal pushes) is applied by the real perform in every state of a boundary family (value alphabets with i64 extremes, NaN, infinities, signed zeros) x 10 capacity patterns, and in every state of a BFS over instruction sequences; all ordered pairs of ~440 pattern integers (every power of two and its neighbours, negatives, powers of ten) and ~650 pattern floats (powers of two over the whole exponent range, neighbours of 2^31..2^64, NaN payloads) under every int / float instruction; every int/bool/float instruction on every ordered operand triple/pair of a wide value alphabet (33 ints, 31 floats: powers of two, roots of i64::MAX, the u32 exponent boundary, subnormals, the i64 boundary among floats); all Plushy genomes up to 4 (thorough 5) genes over an 18-gene alphabet are run by the real run_to_completion under every step limit 0..8 (12) and capacities {1,2,3,8}, which exposes every intermediate state of the real loop; plus all ordered instruction pairs. One step = one exec item taken (strict accounting). Result kind, four stacks, output and capacities are compared with the set of results the reference semantics admit. PrintChar<C> is performed directly for 18 characters of every UTF-8 length (the instruction enum only carries three ASCII instances) and PrintString with non-ASCII and long texts; reading the output twice and continuing on the state that was read; the output grows by exactly the text's UTF-8 bytes, stacks untouched.",
   note="Trusted: PushRef (DESIGN Appendix A) incl. the tolerance sets of DESIGN section 3; value alphabets stand for all values away from the listed boundaries; stateright BFS.",
   design="4/C01")
CHECKS["C02"] = dict(engine="E2-stateright + E3-bounded-exhaustive",
   technique="explicit-state / bounded-exhaustive exploration of the real VM with a reference-free oracle (carried state == state before, full PushState equality) at every fault point",
   text="Same exploration as C01 (every instruction x boundary states x capacity patterns x BFS over sequences) with a reference-free oracle: whenever the real perform returns Err(e), e.state() must equal the clone taken before the call (all stacks, limits, inputs, output). Second half: for every (state, instruction, continuation Q) where the instruction fails recoverably, run_to_completion of [i]++Q under limit L must end exactly like Q under limit L-1 (the skipped instruction uses up its step like a no-op). The boundary family is exactly 'every point at which underflow or overflow can strike'. Blocks performed directly for every exec capacity 0..=5 x fill level x block length 0..=5: when the block does not fit the carried state equals the state before.",
   note="Trusted: PushState's derived PartialEq; states above their maximum (only producible through stack_mut().set_max_stack_size) are outside the property and not explored.",
   design="4/C02")

CHECKS["C03"] = dict(engine="E3-bounded-exhaustive",
   technique="bounded-exhaustive enumeration of growth programs x capacities x step limits, each run on the real interpreter in a watched child process, with intrinsic bounds and PushRef admissibility as oracles",
   text="All genomes up to 4 (thorough 5) genes over a 16-gene growth alphabet (DupBlock, exec Dup/Swap/Flush/StackDepth, IfElse, When, Close, literal pushes, int Dup/StackDepth, Multiply, Square, Power, PrintString) under 26 capacity configurations (0..4 globally and per stack, roomy) and every step limit 0..10 (0..20). Every run must return (a hang or process death is reported as a violation), keep every stack <= its maximum, execute at most `limit` print instructions, return the input unchanged at limit 0, and end with an error iff the reference says a push exceeds a capacity, with the final/carried state among those the reference admits (strict step accounting: one step per exec item). Plus a deep-nesting family: d nested conditional blocks for every d in 8..=300 and around 512 and 1024 (thorough: every d <= 514), four kinds, three capacity vectors, step limits around every phase boundary, compared exactly; long runs (flat programs of 255..300, thorough ..65537, literal pushes and a bounded exec-dup loop under step limits around 2^8, 2^9, 2^16); the wide operand value sweep of C01(d); all of it under a hang watchdog (a case that does not return within 60 s is a violation).",
   note="Trusted: PushRef and tolerance sets; nesting beyond the explored depths (1026) is a resource limit of the subject's recursive Clone/Drop and outside any enumerable bound.",
   design="4/C03")
CHECKS["C05"] = dict(engine="E3-bounded-exhaustive",
   technique="bounded-exhaustive enumeration of all gene sequences up to length N, differential against a non-recursive reference parser plus reference-free structural checks",
   text="All 6^0+...+6^7 (thorough 6^10) gene sequences over {Close, literal, DupBlock, When, Unless, IfElse} are converted by the real From<Plushy>; the tree must equal PlushyRef's, its depth-first reading must equal the genome with closes removed, and every opener must be followed by exactly its number of blocks with no block elsewhere; never a panic. Plus a deep-nesting family: a prefix opening d blocks (5 prefix kinds) for every d in 8..=300 and around 512, 1024 (thorough: every d <= 514 and around 4096, 32768, 65536), followed by every suffix of length <= 2 (3) and by close-k-levels-and-continue for k in d-2..=d+2; plus long flat genomes: periodic patterns of period <= 3 with bounded nesting cut at lengths around 2^8, 2^9 (thorough ..2^16, 70000); plus a leaf pass: all genomes up to length 6 (8) with the leaf symbol standing, position by position, for every block-free instruction of the repository (each enum variant, print constants, input variables, literals) and for exec literals whose payload is block-opening code.",
   note="Trusted: PlushyRef (explicit stack of open blocks); beyond the leaf pass, instruction identity is irrelevant beyond its number of opens.",
   design="4/C05")

def mc(engine, technique, text, note, design):
    return dict(engine=engine, technique=technique, text=text, note=note, design=design)

CHECKS["C06"] = mc("E1-choice-tree",
  "stateless model checking over the environment: exhaustive DFS over every word the supplied RNG can hand out (finite exact alphabet), real selectors executed on every sequence, membership/error oracle per leaf",
  "Every selector configuration (Best, Worst, Random, Tournament 1..n+1, Lexicase with 0..3 cases on 2 available results, lone Weighted, WeightedPair nestings of 2..4 real selectors, DynWeighted lists; direct, behind &, through Select, type-erased) x every population of size 0..3 (thorough 0..4) over 3 values x every word sequence of a mixed Grid(12)+Rep(12!,24) alphabet: the result must be pointer-identical to an element of the population passed, or one of the errors the configuration documents; never a panic. Plus Lexicase(0..3), direct and erased, on every ragged population (1..3, thorough 4, individuals each with their own 0..3 results): a member, or MissingTestCase only if the case count exceeds some individual's result count - and MissingTestCase only, when every ordering of the cases meets a result that a live candidate lacks. Plus large populations (every size 8..70, around 128, 163, 256, 512, 1024, and 1100, 2003, 4097; ten structured populations): Best, Worst, Random, Lexicase and tournaments of 24 sizes up to n+1 on every stream with at most one non-default word: a member or the documented tournament-size error.",
  "Trusted: the mixed alphabet reaches every decision of rand's range draws (range | 12) and every permutation of <= 4 shuffled items; rejection-sampling tails beyond the exploration horizon are cut and counted.", "4/C06")
CHECKS["C07"] = mc("E1-choice-tree",
  "stateless model checking over the environment with exact probability laws: all word sequences of Grid(lcm(1..n)) explored on the real Tournament/Best/Worst, leaf weights accumulated as rationals and compared with the combinatorial law",
  "Best/Worst on every population of size 1..6 over 3 values; Tournament(k) for every population of size n<=4 and n=5 with k<=3 (thorough also n=6, k<=2) over 3 values with ties, every ordering of n<=5 distinct values, and a 9-member population family for the larger (n, k) up to n=7 within an execution budget: the winner-value law must equal [C(#<=v,k)-C(#<v,k)]/C(n,k) exactly, size-1 tournaments are uniform over positions, size-n tournaments return a maximum. Binary tournaments with the exact law up to 24 (48) individuals on the grid n(n-1). Large populations (every size 8..70, around 128, 163, 256, 512, 1024, and 1100, 2003, 4097): Best/Worst extremal, the exact uniform law of the size-1 tournament, and for 24 tournament sizes up to n on every stream with at most one non-default word: the winner is at least as good as k-1 other members, and at least k distinct individuals were compared (individuals whose comparisons are recorded).",
  "Trusted: rand 0.9 samplers as characterised by the calibration run at start-up (exit 2 if it fails); ties are compared on value classes.", "4/C07")
CHECKS["C08"] = mc("E1-choice-tree",
  "stateless model checking over the environment on the Rep(12!,K) alphabet (rand's shuffle consumes one number below 12! modulo s!), exact per-individual law against enumeration of all case orders",
  "Every result matrix for n<=3 individuals x c<=3 cases over 3 values (thorough adds n=4, c=4, n=5 families), both polarities, configured case counts {c, c-1, 0}: the exact selection law must equal the fraction of case orders survived, split evenly among co-survivors; on every leaf the winner is not Pareto-dominated on the considered cases. Structured matrices (everybody tied except at marked cases, the deciding cases at every pair of positions, two and three individuals) with the exact law up to 8 (thorough 10) cases. Beyond that the case orders are not enumerable and no law is claimed: for every case count 9..70 and around 128, 256, 512, 1024 (thorough: every count up to 258, around 2048, 4097, 65536), on every stream with at most one non-default word (two up to 40 cases, thorough) the winner must be an individual that survives some ordering of the cases.",
  "Trusted: the calibrated shuffle characterisation; if the subject stops shuffling with rand the law is recomputed on the generic grid alphabet and only reported from an alphabet whose adequacy argument applies.", "4/C08")
CHECKS["C09"] = mc("E3-fault-product on real rayon (tier A) + E4 rayon model (tier B when built)",
  "exhaustive fault/configuration enumeration on the real code with a schedule-independent oracle; schedules of real rayon are sampled by repetition (stated as a cap), exhaustive schedule exploration on an executable rayon model when mc_par builds",
  "{serial_next, par_next} x population size 0..6 x failure plans {none, every single call, every pair} x rayon pool sizes 1..16, each executed 20 (thorough 200) times with a probe child maker that records the population it was shown and the random word it drew: size preserved, every child made from the unmodified previous population, pairwise distinct words, on error the population is identical (contents and buffer) and the error is an injected one; larger populations (17..257, thorough ..1000) with a reduced failure product. Tier B: every schedule of the rayon model (split tree x interleaving x cancellation) for N <= 4 (5), bound to real rayon by trace inclusion of 23 000 (250 000) real traces.",
  "Real-rayon interleavings are not enumerated by tier A (evidence says exhaustive=false for that dimension); two honest 64-bit draws collide with probability < 2^-58.", "4/C09")
CHECKS["C10"] = mc("E1-choice-tree + E3-bounded-exhaustive",
  "stateless model checking over the RNG (all grid word sequences) on tagged parents, plus exhaustive enumeration of all index/range arguments of the exchange primitives",
  "TwoPointXo and UniformXo in 6 flavours x all length pairs 0..5 (thorough 0..8): error iff lengths differ; child gene i comes from a parent's position i; two-point: one contiguous segment and every segment [a,b) including those touching either end occurs over all streams, empty parents give an empty child; uniform: every mask has probability exactly 2^-l (concluded only when the draws are one 32-bit word per gene; otherwise support only). Per-leaf oracle also on every stream over the grid plus the extreme words 0 and all-ones (lengths <= 4). Long genomes (63..129, thorough 31..257): two-point with both cut points enumerated, uniform under every stream with at most 1 (2) non-default words over an alphabet with alternating bit-block words: every position from either parent, every pair of positions from different parents, every segment; genomes of 999..65537 (1000003) genes with the per-leaf oracle on bounded streams. crossover_gene / crossover_segment for all indices and ranges up to length+2 on all length pairs 0..4, and on long bitstrings of equal and different sizes (1200..2100, thorough ..70001) for every segment length 0..=1100 from six start positions: in range => exactly the addressed genes swapped, out of range => Err and both genomes unchanged, never a panic. Two-point crossover of parents of usize::MAX, usize::MAX-1, 2^63, 2^32+1, 2^32 zero-sized genes on every stream over the extended grid: a child of that length, unequal lengths an error.",
  "Trusted: Grid(l(l+1)) is exact for cut points drawn from 0..l and from 0..=l.", "4/C10")
CHECKS["C11"] = mc("E1-choice-tree",
  "stateless model checking over the RNG: all grid word sequences, structural oracle on every leaf",
  "WithRate / WithOneOverLength on position-tagged bits (Vec, Vector, Bitstring, through Mutate) and Umad (new / new_with_empty_rate / new_without_empty) on tagged Vector, Plushy and Bitstring genomes with a numbering gene generator, parent lengths 0..3 (thorough 0..4), lattice rates incl. 0, 1 and 2: positions preserved, survivors in order, at most one insertion per parent position, provenance of new genes, all boundary-rate identities (incl. 1/length on one gene); the same on every stream over the grid plus the extreme words 0 and all-ones (flips <= 3, UMAD <= 2 genes); UMAD on long parents (64..257, thorough 31..300) under every stream with at most 1 (2) non-default words: structure per leaf, every position kept and deleted, an insertion after every position; the flip mutators on genomes of 9..70, around 128 / 256, 1000, 4097, 65537 genes and UMAD on parents of 1000..65537 genes (deviation among the first 24 words, per-leaf oracle); one Umad::new_with_empty_rate value applied to an empty and a non-empty parent (1, 2, 37 genes) in either order for all lattice rates of its three parameters, both outputs judged.",
  "Structure is rate independent; the lattice reaches both outcomes of every coin.", "4/C11")
CHECKS["C12"] = mc("E1-choice-tree",
  "stateless model checking over the RNG with exact probability laws (rationals) on lattice rates",
  "WithRate/WithOneOverLength flip-mask laws, Umad output-genome laws (lengths 0,1,2; expected size l(1-d)(1+a); empty-parent rate), Bitstring::random / random_with_probability / BoolGenerator product laws, GeneGenerator close probability (explicit and 1/(n+1)) and uniform instruction choice for n=1..5, whole random genomes of 0..2 (3) genes through the collection generator (product law over positions), on rates {0,1/4,1/3,1/2,3/4,1}; every law compared exactly. Long genomes (63..129, thorough 31..257): flips, bit generators and UniformXo under every stream with at most 1 (2) non-default words: every gene with both outcomes, every pair of genes with different outcomes.",
  "Rates off the 1/12 lattice and sub-2^-24 rounding are outside the explored space.", "4/C12")
CHECKS["C13"] = mc("E1-choice-tree + E3",
  "stateless model checking over the RNG with exact laws on marker selectors; exhaustive u32-boundary weight vectors for the builders",
  "12 construction shapes of WeightedPair (left chains incl. Result-chained, right chains, balanced, mixed) and DynWeighted lists x every weight vector over 0..3 (thorough 0..4) within an execution budget, and dynamic lists of 6..40, around 64, 128, 256 (thorough every length up to 130, around 512, 1000) members with three weight patterns: member law exactly w_i/sum, on every leaf exactly one member is asked to select and it is the one whose individual is returned (call-recording members), zero-weight members unreachable, all-zero => zero-weight error; the same ratios with the weights scaled to totals just below 2^32 (units 2^30, 357913941, 858993459; static shapes); DynWeighted lists also with every weight multiplied by odd units above 2^32 (4294967311, 10000000019, (2^60/total)|1), where rand's 64-bit sampler maps the grid cells to values exactly; weight vectors over {0,1,u32::MAX-1,u32::MAX} build iff the total fits in u32.",
  "Weight vectors whose lcm of node sums makes the tree exceed the budget are skipped and counted.", "4/C13")
CHECKS["C14"] = mc("E3-bounded-exhaustive x fault plans",
  "bounded-exhaustive enumeration of composition trees x fault plans (deviation bound 2) on the real combinators through the erased layer, differential against the CompRef interpreter",
  "All composition trees up to depth 2 (thorough: plus a stride of depth 3) over {probe, Identity, then, and, map over [T;2]/(T,T)/Vec, then_map, apply_n_times 0..3}; failure plans none / every single probe call / every pair: output value, error path, probe log (order, inputs, words drawn) and final tape position must equal CompRef's; every plan applied a second time to the same combinator value; mapped vectors of 255..70001 elements with the failure at the far end; Identity, Constant, GenomeExtractor, GenomeScorer, Mutate/Recombine wrappers add nothing; apply_n_times::<N>() for N up to 1000 with failures at the first, middle and last application. The reported error through the interface generic code has: for 19 typed compositions (then/and/map/repeat nestings up to depth 4, also boxed through DynOperator) the source() chain from the reported error has depth+1 links and ends at the failing part's own error, and the miette diagnostic_source() chain shows the same links.",
  "Error paths are compared through the derived Debug of ThenError/AndError/MapError, and through Display + source() in the error-chain cases.", "4/C14")
CHECKS["C15"] = mc("E3-bounded-exhaustive",
  "small-scope exhaustive algebra: all pairs/triples over a boundary value domain, all short result vectors",
  "All pairs and triples over {i64::MIN,-2,-1,0,1,2,i64::MAX} for Score/Error/TestResult (all six operators, cmp, partial_cmp, max/min, transitivity, antisymmetry, score-vs-error incomparability), all result vectors of length 0..3 over -2..2 plus all vectors of length 4 over {-1,0,1}, extremes and long vectors (255..300 elements) through both constructors and polarities, all pairs of those for TestResults/EcIndividual, and 5 scorers x 3 genome sources for IndividualGenerator/with_scorer/GenomeScorer. Float results (Score<f64>, Error<f64>): for every length 0..70 and around 128..4096, 1000, 1499, 2000, 10000, 65536, 70001 and four value patterns whose rounding depends on the order, the total equals the left-to-right sum bit for bit and the per-case results are kept; long integer totals of the same lengths.",
  "Value types with unlawful Ord are outside the property.", "4/C15")
CHECKS["C16"] = mc("E1-choice-tree (replay obligation)",
  "stateless model checking: every explored leaf of every scenario is replayed from its recorded choice sequence and must reproduce observation and draw trace; process-level digest comparison; all input declaration orders",
  "~500 (thorough ~900) scenarios taken from the selector, weighted, crossover, mutation and generator checks: each leaf replayed twice; scenarios whose specification is random must show >= 2 outcomes over the supplied generator's streams; history independence on shared operator values; observation digests equal across three processes; Push programs over 4 inputs (three families of names: plain; differing only in case, a trailing space or by prefix; composed and decomposed accents) under all 24 declaration orders, each built twice, end in equal states, and a one-variable program ends with that input's value.",
  "'All seeds' is covered as all word sequences of the scenario's alphabet, capped at 20,000 leaves per scenario (reported).", "4/C16")
CHECKS["C17"] = mc("E3 x E1 (own harness crate) + rustc compile probe fallback",
  "exhaustive enumeration of all 140 generated wrapper types x implementations x arguments x grid word sequences, leaf-by-leaf replay of the concrete operator against the erased form",
  "5 erasable traits x 7 pointer types x {-, Send, Sync, Send+Sync} x 5 wrapped implementations (no draws / data-dependent draws / failing for certain arguments / failing depending on one drawn word / on two drawn words): identical result (pointer / genome / value), identical error text, identical draw trace, identical number of calls reaching the wrapped implementation. If a flavour stops implementing its trait the C17 crate no longer builds and scripts/c17_probe.py identifies the missing flavours with one cargo check.",
  "Trusted: rustc for the fallback probe.", "4/C17")
CHECKS["C18"] = mc("E1-choice-tree",
  "stateless model checking over the RNG with exact laws",
  "All 16 conversion flavours (Vec/&Vec/array/&array/slice, into/to, OneOfCloning/Choose/ChooseCloning, constructors, uniform_distribution_of!) x source sizes 0..5 (6) x all 60 grid words (vector/slice flavours also 7..257 (1000) members on the grid of their own size; membership also on every stream over the extreme words): empty source rejected at construction, num_choices == len, each member exactly 1/len (borrowing flavours: a reference into the source); collection generators for Vec, Bitstring, Plushy and scored populations produce exactly size elements in generation order (sizes 0..5 and around powers of two up to 257 (4096); nested collections 0..3 x 0..3). Sources with more members than a u32 counts: zero-sized members for 2^32-1 .. usize::MAX (construction, member count, one sample) and 2^32 / 2^32+2 one-byte members with the exact value law on the grid of two cells (4 GiB of lazily zeroed memory; skipped with a note if the allocation is refused).",
  "Trusted: calibrated Uniform / slice::Choose.", "4/C18")
CHECKS["C19"] = mc("E5 type-state BFS + rustc, E3 run-time content (scripts/c19.py)",
  "explicit-state BFS over the builder type-state automaton (model) with every transition replayed against the implementation as judged by rustc (conformance), plus compiled execution of every complete call order up to a bound against the model",
  "213 abstract states x all methods for three structs (PushState; one-stack struct with renamed methods and custom input instruction; four-stack struct without inputs/limit, via the cfg-guarded hook module): must-accept transitions compile and land in the predicted type-state (read from rustc's diagnostic), must-reject transitions (build on incomplete builders, size change after values) fail at the offending call; ~1000 (thorough ~7000) complete call orders compiled and run: contents, top element, last size set, program order, inputs, overflow errors, accessor/field identity.",
  "Trusted: rustc diagnostics; transitions the property is silent about are recorded, not judged. Hook: push::verif_states (add-only, cfg-guarded).", "4/C19")

PLANNED = {}

def main():
    props = [json.loads(l) for l in open(os.path.join(ROOT, "properties.jsonl"))]
    checks = []
    na = []
    for p in props:
        pid = p["id"]
        if pid in CHECKS:
            c = CHECKS[pid]
            checks.append({
                "property_id": pid,
                "quick_cmd": f"./check {pid} --tier quick",
                "thorough_cmd": f"./check {pid} --tier thorough",
                "evidence_file": f"/verif/evidence/{pid}.json",
                "replay_cmd_template": f"./check {pid} --replay {{path}}",
                "engine": c["engine"],
                "level_claimed": {"category": "model_checking", "text": c["text"], "design_ref": c["design"]},
                "level_note": c["note"],
                "technique": c["technique"],
            })
        else:
            na.append({"property_id": pid, "reason": PLANNED.get(pid, "check not yet implemented in this revision of /verif (planned, see DESIGN.md section 4); not claimed until it runs")})
    m = {
        "version": 1,
        "setup_cmd": "./check --setup",
        "hooks": {
            "guard": "unhindered_ec_unhindered_ec_verif",
            "enable": "RUSTFLAGS=\"--cfg unhindered_ec_unhindered_ec_verif\" (set by ./check for every harness build; own target dir /verif/.build)",
            "baseline_off_cmd": "cd /repo && cargo test --workspace --no-fail-fast --offline",
            "source_commits": HOOK_COMMITS,
            "add_only": True,
        },
        "engines": [
            {"name": "E1-choice-tree", "path": "mc/mcx/src/env.rs", "serves_properties": ["C06","C07","C08","C10","C11","C12","C13","C16","C17","C18"], "kind_free_text": "stateless DFS over all answers of the environment (RNG words from a finite exact alphabet, faults) by re-execution of the real code; exact rational laws"},
            {"name": "E2-stateright", "path": "mc/checks/src", "serves_properties": ["C01","C02","C04","C19"], "kind_free_text": "explicit-state BFS over real objects (stateright 0.31) with per-transition reference comparison"},
            {"name": "E3-bounded-exhaustive", "path": "mc/checks/src", "serves_properties": ["C01","C03","C05","C09","C14","C15"], "kind_free_text": "complete enumeration of structured inputs / fault plans up to a size bound, differential against independent reference models"},
            {"name": "E5-typestate", "path": "scripts/c19.py", "serves_properties": ["C19"], "kind_free_text": "BFS over the builder type-state model, each transition judged by rustc on generated code; complete call orders compiled and run"},
        ],
        "checks": checks,
        "not_applicable": na,
        "notes": "All checks: exit 0 held / 1 VIOLATION / 2 machinery. known_findings.jsonl lists known and fixed findings. See DESIGN.md.",
    }
    json.dump(m, open(os.path.join(ROOT, "MANIFEST.json"), "w"), indent=1)
    print("MANIFEST.json:", len(checks), "checks,", len(na), "not claimed")

HOOK_COMMITS = ["f2993a1"]
if __name__ == "__main__":
    main()
