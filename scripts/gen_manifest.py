#!/usr/bin/env python3
"""Regenerates MANIFEST.json from the table below (single source of truth)."""
import json, os, sys
ROOT = os.path.dirname(os.path.dirname(os.path.abspath(__file__)))

CHECKS = {
 "C04": dict(engine="E2-stateright",
   technique="explicit-state model checking: stateright BFS over all reachable states of the real Stack<u8>, each transition compared with a Vec+capacity reference model",
   text="Complete reachable state graph of the real Stack for contents <= 6 (thorough 8) elements over 3 (4) values and capacities {0..4, MAX}; ~135 operations applied in every state (push, pop*, top*, discard, push_many, try_extend with honest and lying size hints, set_max_stack_size, queries); return value incl. Underflow payload, contents, size and max compared with the reference after every transition. This is the right level because the property quantifies over all histories and the state space is finite once contents are bounded.",
   note="Trusted: stateright's BFS (cross-checked by a second run with another thread count), the 40-line reference model, u8 standing for all element types (code is parametric).",
   design="4/C04"),
}

CHECKS["C01"] = dict(engine="E2-stateright + E3-bounded-exhaustive",
   technique="explicit-state model checking of the real VM (stateright BFS over instruction sequences) plus bounded-exhaustive enumeration of boundary states and of all genomes up to a length bound under every step limit, differential against the PushRef reference semantics",
   text="Every instruction of the full set (all enum-listed int/float/bool/exec instructions, print constants, PrintString, input variables, literal pushes) is applied by the real perform in every state of a boundary family (value alphabets with i64 extremes, NaN, infinities, signed zeros) x 10 capacity patterns, and in every state of a BFS over instruction sequences; all Plushy genomes up to 3 (thorough 5) genes over an 18-gene alphabet are run by the real run_to_completion under every step limit 0..8 (12) and capacities {1,2,3,8}, which exposes every intermediate state of the real loop; plus all ordered instruction pairs. Result kind, four stacks, output and capacities are compared with the set of results the reference semantics admit.",
   note="Trusted: PushRef (DESIGN Appendix A) incl. the tolerance sets of DESIGN section 3; value alphabets stand for all values away from the listed boundaries; stateright BFS.",
   design="4/C01")
CHECKS["C02"] = dict(engine="E2-stateright + E3-bounded-exhaustive",
   technique="explicit-state / bounded-exhaustive exploration of the real VM with a reference-free oracle (carried state == state before, full PushState equality) at every fault point",
   text="Same exploration as C01 (every instruction x boundary states x capacity patterns x BFS over sequences) with a reference-free oracle: whenever the real perform returns Err(e), e.state() must equal the clone taken before the call (all stacks, limits, inputs, output). Second half: for every (state, instruction, continuation Q) where the instruction fails recoverably, run_to_completion of [i]++Q must end exactly like Q alone. The boundary family is exactly 'every point at which underflow or overflow can strike'.",
   note="Trusted: PushState's derived PartialEq; states above their maximum (only producible through stack_mut().set_max_stack_size) are outside the property and not explored.",
   design="4/C02")

CHECKS["C03"] = dict(engine="E3-bounded-exhaustive",
   technique="bounded-exhaustive enumeration of growth programs x capacities x step limits, each run on the real interpreter in a watched child process, with intrinsic bounds and PushRef admissibility as oracles",
   text="All genomes up to 4 (thorough 5) genes over a 16-gene growth alphabet (DupBlock, exec Dup/Swap/Flush/StackDepth, IfElse, When, Close, literal pushes, int Dup/StackDepth, Multiply, Square, Power, PrintString) under 26 capacity configurations (0..4 globally and per stack, roomy) and every step limit 0..10 (0..20). Every run must return (a hang or process death is reported as a violation), keep every stack <= its maximum, execute at most `limit` print instructions, return the input unchanged at limit 0, and end with an error iff the reference says a push exceeds a capacity, with the final/carried state among those the reference admits.",
   note="Trusted: PushRef and tolerance sets; unbounded nesting depth is a resource limit beyond any enumerable bound (depth-2000 smoke run only).",
   design="4/C03")
CHECKS["C05"] = dict(engine="E3-bounded-exhaustive",
   technique="bounded-exhaustive enumeration of all gene sequences up to length N, differential against a non-recursive reference parser plus reference-free structural checks",
   text="All 6^0+...+6^7 (thorough 6^10) gene sequences over {Close, literal, DupBlock, When, Unless, IfElse} are converted by the real From<Plushy>; the tree must equal PlushyRef's, its depth-first reading must equal the genome with closes removed, and every opener must be followed by exactly its number of blocks with no block elsewhere; never a panic.",
   note="Trusted: PlushyRef (explicit stack of open blocks); instruction identity is irrelevant beyond its number of opens.",
   design="4/C05")

PLANNED = {}

def main():
    props = [json.loads(l) for l in open(os.path.join(ROOT, "properties.jsonl"))]
    checks = []
    na = []
    for p in props:
        pid = p["id"]
        if pid in CHECKS:
            c = CHECKS[pid]
            checks.append({
                "property_id": pid,
                "quick_cmd": f"./check {pid} --tier quick",
                "thorough_cmd": f"./check {pid} --tier thorough",
                "evidence_file": f"/verif/evidence/{pid}.json",
                "replay_cmd_template": f"./check {pid} --replay {{path}}",
                "engine": c["engine"],
                "level_claimed": {"category": "model_checking", "text": c["text"], "design_ref": c["design"]},
                "level_note": c["note"],
                "technique": c["technique"],
            })
        else:
            na.append({"property_id": pid, "reason": PLANNED.get(pid, "check not yet implemented in this revision of /verif (planned, see DESIGN.md section 4); not claimed until it runs")})
    m = {
        "version": 1,
        "setup_cmd": "./check --setup",
        "hooks": {
            "guard": "unhindered_ec_unhindered_ec_verif",
            "enable": "RUSTFLAGS=\"--cfg unhindered_ec_unhindered_ec_verif\" (set by ./check for every harness build; own target dir /verif/.build)",
            "baseline_off_cmd": "cd /repo && cargo test --workspace --no-fail-fast --offline",
            "source_commits": HOOK_COMMITS,
            "add_only": True,
        },
        "engines": [
            {"name": "E1-choice-tree", "path": "mc/mcx/src/env.rs", "serves_properties": ["C06","C07","C08","C10","C11","C12","C13","C16","C17","C18"], "kind_free_text": "stateless DFS over all answers of the environment (RNG words from a finite exact alphabet, faults) by re-execution of the real code; exact rational laws"},
            {"name": "E2-stateright", "path": "mc/checks/src", "serves_properties": ["C01","C02","C04","C19"], "kind_free_text": "explicit-state BFS over real objects (stateright 0.31) with per-transition reference comparison"},
            {"name": "E3-bounded-exhaustive", "path": "mc/checks/src", "serves_properties": ["C01","C03","C05","C14","C15"], "kind_free_text": "complete enumeration of structured inputs up to a size bound, differential against independent reference models"},
        ],
        "checks": checks,
        "not_applicable": na,
        "notes": "All checks: exit 0 held / 1 VIOLATION / 2 machinery. known_findings.jsonl lists known and fixed findings. See DESIGN.md.",
    }
    json.dump(m, open(os.path.join(ROOT, "MANIFEST.json"), "w"), indent=1)
    print("MANIFEST.json:", len(checks), "checks,", len(na), "not claimed")

HOOK_COMMITS = []
if __name__ == "__main__":
    main()
