#!/usr/bin/env python3
"""C17 fallback: the C17 harness crate no longer compiles.  Probe every
(trait, pointer flavour) with one function each and one `cargo check
--message-format=json`, to tell "a documented erased flavour no longer implements
its trait" (a violation of C17) from an unrelated build break (machinery)."""
import json, os, subprocess, sys, time
ROOT = os.path.dirname(os.path.dirname(os.path.abspath(__file__)))
tier = sys.argv[1] if len(sys.argv) > 1 else "quick"
t0 = time.time()
crate = os.path.join(ROOT, ".build", "c17probe")
os.makedirs(os.path.join(crate, "src"), exist_ok=True)
open(os.path.join(crate, "Cargo.toml"), "w").write('''[package]
name = "c17probe"
version = "0.1.0"
edition = "2021"
[dependencies]
ec-core = { path = "/repo/packages/ec-core" }
rand = "0.9.0"
[workspace]
''')
lock = os.path.join(ROOT, "mc", "Cargo.lock")
if os.path.exists(lock):
    open(os.path.join(crate, "Cargo.lock"), "w").write(open(lock).read())
traits = {
 "Selector": ("DynSelector<Pop>", "Selector<Pop>"),
 "Mutator": ("DynMutator<Vec<u8>>", "Mutator<Vec<u8>>"),
 "Recombinator": ("DynRecombinator<[Vec<u8>; 2], Output = Vec<u8>>", "Recombinator<[Vec<u8>; 2]>"),
 "Operator": ("DynOperator<Vec<u8>, Output = Vec<u8>>", "Operator<Vec<u8>>"),
 "ChildMaker": ("DynChildMaker<Pop, Best>", "ChildMaker<Pop, Best>"),
}
pointers = {"&dyn": "&'static ({})", "&mut dyn": "&'static mut ({})", "Box": "Box<{}>", "Rc": "std::rc::Rc<{}>",
            "Arc": "std::sync::Arc<{}>", "Ref": "std::cell::Ref<'static, {}>", "RefMut": "std::cell::RefMut<'static, {}>"}
autos = ["", " + Send", " + Sync", " + Send + Sync"]
lines = ['''#![allow(unused, dead_code)]
use ec_core::child_maker::{ChildMaker, DynChildMaker};
use ec_core::operator::mutator::{DynMutator, Mutator};
use ec_core::operator::recombinator::{DynRecombinator, Recombinator};
use ec_core::operator::selector::best::Best;
use ec_core::operator::selector::{DynSelector, Selector};
use ec_core::operator::{DynOperator, Operator};
type Pop = Vec<u64>;
''']
where = {}
for t, (dyn, bound) in traits.items():
    for pn, pt in pointers.items():
        for a in autos:
            ty = pt.format("dyn " + dyn + a)
            name = f"{t}/{pn}{a}"
            start = sum(x.count("\n") for x in lines) + 1
            lines.append(f"fn f{len(where)}() {{\n    fn needs<T: {bound}>() {{}}\n    needs::<{ty}>();\n}}\n")
            end = sum(x.count("\n") for x in lines)
            where[(start, end)] = name
open(os.path.join(crate, "src", "lib.rs"), "w").write("".join(lines))
env = dict(os.environ, CARGO_TARGET_DIR=os.path.join(ROOT, ".build", "c17probe_target"), CARGO_NET_OFFLINE="true", RUSTFLAGS="-Awarnings")
p = subprocess.run(["cargo", "check", "--offline", "--message-format=json"], cwd=crate, env=env, capture_output=True, text=True)
missing, other = set(), []
for line in p.stdout.splitlines():
    try:
        m = json.loads(line)
    except Exception:
        continue
    if m.get("reason") != "compiler-message" or m["message"].get("level") != "error":
        continue
    if m.get("target", {}).get("name") != "c17probe":
        other.append(m["message"]["message"]); continue
    hit = False
    for sp in m["message"].get("spans", []):
        for (s, e), name in where.items():
            if s <= sp["line_start"] <= e:
                missing.add(name); hit = True
    if not hit and "aborting" not in m["message"]["message"]:
        other.append(m["message"]["message"])
if p.returncode != 0 and not missing:
    print("MACHINERY: C17 harness does not build and the flavour probe found no missing flavour:", other[:3], file=sys.stderr)
    sys.exit(2)
if not missing:
    print("MACHINERY: C17 harness does not build although all 140 flavours implement their traits", file=sys.stderr)
    sys.exit(2)
os.makedirs(os.path.join(ROOT, "replays"), exist_ok=True)
os.makedirs(os.path.join(ROOT, "evidence"), exist_ok=True)
replay = os.path.join(ROOT, "replays", "C17-flavours.json")
json.dump({"property": "C17", "key": "erased/flavour-missing", "missing": sorted(missing),
           "what": "these documented erased flavours no longer implement their trait",
           "replay": {"check": "C17", "scenario": "compile-probe", "crate": crate}}, open(replay, "w"), indent=1)
ev = {"property_id": "C17", "tier": "thorough" if tier == "thorough" else "quick", "seed": int(os.environ.get("VERIF_SEED", "0") or 0),
      "level": "model_checking",
      "coverage": {"states": 140, "transitions": 140, "traces_validated_against_impl": 140 - len(missing),
                   "samples": sorted(missing)[:5], "evaluations": 140, "distinct_nontrivial": 140,
                   "rule": "fallback compile probe: one function per (trait, pointer flavour) judged by rustc",
                   "exhaustive": True, "missing_flavours": sorted(missing)},
      "assumptions": ["behavioural comparison not run: the harness crate does not compile on this tree"],
      "wall_s": time.time() - t0, "violations": 1}
json.dump(ev, open(os.path.join(ROOT, "evidence", "C17.json"), "w"), indent=1)
for n in sorted(missing)[:10]:
    print(f"  violation [erased/flavour-missing]: {n} does not implement its trait any more")
print(f"VIOLATION property=C17 replay={replay}")
sys.exit(1)
