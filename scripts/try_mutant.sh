#!/usr/bin/env bash
# usage: scripts/try_mutant.sh <patch.diff> [tier] [check ids...]
# applies the patch to /repo, runs the given (default: all) checks, undoes the patch.
set -u
PATCH="$(realpath "$1")"; TIER="${2:-quick}"; shift; shift || true
IDS="${*:-C01 C02 C03 C04 C05 C06 C07 C08 C09 C10 C11 C12 C13 C14 C15 C16 C17 C18 C19}"
cd /verif
git -C /repo apply "$PATCH" || { echo "patch does not apply"; exit 2; }
# the evidence and replay files of the unchanged tree are put back afterwards
BK=$(mktemp -d /tmp/mut_bk.XXXXXX); cp -a evidence "$BK/evidence"; [ -d replays ] && cp -a replays "$BK/replays"
DONE=0
cleanup() { [ "$DONE" = 1 ] && return; DONE=1; git -C /repo checkout -- . ; git -C /repo clean -fdq packages 2>/dev/null; rm -rf /verif/evidence /verif/replays; cp -a "$BK/evidence" /verif/evidence; [ -d "$BK/replays" ] && cp -a "$BK/replays" /verif/replays; rm -rf "$BK"; }
trap cleanup EXIT
trap 'cleanup; exit 143' INT TERM
mkdir -p /tmp/mut_ev
for id in $IDS; do
  out=$(./check $id --tier $TIER 2>&1); rc=$?
  keys=$(echo "$out" | grep -o 'violation \[[^]]*\]' | sort -u | head -4 | tr '\n' ' ')
  echo "$id rc=$rc $keys"
done
