#!/usr/bin/env bash
# usage: scripts/confirm_mutant.sh <worktree> <crate-of-demo> <seeded-id>
# Confirms in the scratch worktree: suite green with the change (demo aside), demo fails with / passes without.
set -u
WT="$1"; CRATE="$2"; SID="$3"
DEST=/verif/seeded/$SID
mkdir -p "$DEST"
cp "$WT"/MUTANT/patch.diff "$DEST"/patch.diff
for f in seeded_demo.rs demo.sh notes.md; do [ -f "$WT/MUTANT/$f" ] && cp "$WT/MUTANT/$f" "$DEST/"; done
cd "$WT"
export CARGO_TARGET_DIR="$WT/target" CARGO_NET_OFFLINE=true
git checkout -q -- . 2>/dev/null
DEMO=$(ls packages/*/tests/seeded_demo.rs 2>/dev/null | head -1)
[ -n "$DEMO" ] && mv "$DEMO" /tmp/demo_$SID.rs
git apply "$DEST/patch.diff" || { echo "patch does not apply"; exit 2; }
cargo test --workspace --no-fail-fast --offline > /tmp/suite_$SID.log 2>&1; SUITE_RC=$?
OKS=$(grep -c "^test result: ok" /tmp/suite_$SID.log); FAILS=$(grep -c "^test result: FAILED" /tmp/suite_$SID.log)
echo "suite with change: rc=$SUITE_RC ok_binaries=$OKS failed_binaries=$FAILS"
if [ -n "$DEMO" ]; then
  mv /tmp/demo_$SID.rs "$DEMO"
  cargo test -p "$CRATE" --test seeded_demo --offline > /tmp/demo_with_$SID.log 2>&1; WITH=$?
  git apply -R "$DEST/patch.diff"
  cargo test -p "$CRATE" --test seeded_demo --offline > /tmp/demo_without_$SID.log 2>&1; WITHOUT=$?
  git apply "$DEST/patch.diff"
  echo "demo with change rc=$WITH (expected non-zero); without change rc=$WITHOUT (expected 0)"
fi
echo "{\"suite_rc\": $SUITE_RC, \"ok_binaries\": $OKS, \"failed_binaries\": $FAILS, \"demo_with_change_rc\": ${WITH:-null}, \"demo_without_change_rc\": ${WITHOUT:-null}}" > "$DEST/confirm.json"
